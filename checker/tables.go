package main

// K4 helpers: extraction of finite tables from the program (map literals, switch case sets,
// type-switch case sets, struct layouts).

import (
	"go/ast"
	"go/token"
	"go/types"
	"sort"
	"strings"

	"golang.org/x/tools/go/packages"
)

// pkgVarInit returns the initialiser expression of a package-level variable.
func (p *Prog) pkgVarInit(pkgShort, name string) (ast.Expr, *packages.Package) {
	pkg := p.ByPath[pkgShort]
	if pkg == nil {
		return nil, nil
	}
	for _, f := range pkg.Syntax {
		if p.IsTestFile(f.Pos()) {
			continue
		}
		for _, d := range f.Decls {
			gd, ok := d.(*ast.GenDecl)
			if !ok || gd.Tok != token.VAR {
				continue
			}
			for _, sp := range gd.Specs {
				vs := sp.(*ast.ValueSpec)
				for i, nm := range vs.Names {
					if nm.Name == name && i < len(vs.Values) {
						return vs.Values[i], pkg
					}
				}
			}
		}
	}
	return nil, pkg
}

type kv struct{ K, V ast.Expr }

func mapLitPairs(e ast.Expr) []kv {
	lit, ok := unparen(e).(*ast.CompositeLit)
	if !ok {
		return nil
	}
	var out []kv
	for _, el := range lit.Elts {
		if p, ok := el.(*ast.KeyValueExpr); ok {
			out = append(out, kv{p.Key, p.Value})
		}
	}
	return out
}

// enumConsts lists the package-level constants of the named type, by object key.
func (p *Prog) enumConsts(pkgShort, typeName string) map[string]*types.Const {
	out := map[string]*types.Const{}
	pkg := p.ByPath[pkgShort]
	if pkg == nil {
		return out
	}
	sc := pkg.Types.Scope()
	for _, n := range sc.Names() {
		if c, ok := sc.Lookup(n).(*types.Const); ok {
			if nt, ok := c.Type().(*types.Named); ok && nt.Obj().Name() == typeName && nt.Obj().Pkg() == pkg.Types {
				out[pkgShort+"."+n] = c
			}
		}
	}
	return out
}

// valueSwitches returns the expression switches of a function body whose tag satisfies pred.
func valueSwitches(body ast.Node, pred func(tag ast.Expr) bool) []*ast.SwitchStmt {
	var out []*ast.SwitchStmt
	walkAll(body, func(n ast.Node) bool {
		if sw, ok := n.(*ast.SwitchStmt); ok && sw.Tag != nil && pred(sw.Tag) {
			out = append(out, sw)
		}
		return true
	})
	return out
}

// caseKeys maps the object key (pkg.Name) of every case expression to its clause;
// hasDefault reports a default clause.
func caseKeys(info *types.Info, sw *ast.SwitchStmt) (m map[string]*ast.CaseClause, def *ast.CaseClause) {
	m = map[string]*ast.CaseClause{}
	for _, st := range sw.Body.List {
		cc := st.(*ast.CaseClause)
		if cc.List == nil {
			def = cc
			continue
		}
		for _, e := range cc.List {
			if k := objKey(info, e); k != "" {
				m[k] = cc
			}
		}
	}
	return m, def
}

// typeSwitchCases lists, per type switch in body, the case type strings.
type tswitch struct {
	Stmt  *ast.TypeSwitchStmt
	Types map[string]*ast.CaseClause
	Def   *ast.CaseClause
}

func typeSwitches(info *types.Info, body ast.Node) []tswitch {
	var out []tswitch
	walkAll(body, func(n ast.Node) bool {
		ts, ok := n.(*ast.TypeSwitchStmt)
		if !ok {
			return true
		}
		t := tswitch{Stmt: ts, Types: map[string]*ast.CaseClause{}}
		for _, st := range ts.Body.List {
			cc := st.(*ast.CaseClause)
			if cc.List == nil {
				t.Def = cc
				continue
			}
			for _, e := range cc.List {
				if tv, ok := info.Types[e]; ok && tv.IsType() {
					t.Types[types.TypeString(tv.Type, nil)] = cc
				}
			}
		}
		out = append(out, t)
		return true
	})
	return out
}

func sortedStrs(m map[string]bool) []string {
	var out []string
	for k := range m {
		out = append(out, k)
	}
	sort.Strings(out)
	return out
}

// elementTypeTable: utils/io.attributeMap as {enum key -> (reflect kind name, size)}.
type attrRow struct {
	Kind string
	Size int64
	Pos  token.Pos
}

func (c *Ctx) attributeMap(rule string) map[string]attrRow {
	init, pkg := c.P.pkgVarInit("utils/io", "attributeMap")
	if init == nil {
		c.Undecided(rule, "utils/io.attributeMap", "anchor", "table not found")
		return nil
	}
	out := map[string]attrRow{}
	for _, p := range mapLitPairs(init) {
		k := objKey(pkg.TypesInfo, p.K)
		lit, ok := unparen(p.V).(*ast.CompositeLit)
		if !ok || len(lit.Elts) < 3 || k == "" {
			continue
		}
		kind := objKey(pkg.TypesInfo, lit.Elts[0])
		size, _ := constInt(pkg.TypesInfo, lit.Elts[2])
		out[k] = attrRow{Kind: kind, Size: size, Pos: p.K.Pos()}
	}
	if len(out) < 12 {
		c.Undecided(rule, "utils/io.attributeMap", "floor", "fewer than 12 entries extracted from attributeMap")
	}
	return out
}

var numericKinds = map[string]bool{"reflect.Float32": true, "reflect.Float64": true, "reflect.Int8": true, "reflect.Int16": true, "reflect.Int32": true,
	"reflect.Int64": true, "reflect.Uint8": true, "reflect.Uint16": true, "reflect.Uint32": true, "reflect.Uint64": true}

// goKindOf maps a Go type to the reflect.Kind name of its underlying basic type ("reflect.Array" for arrays).
func goKindOf(t types.Type) string {
	switch u := t.Underlying().(type) {
	case *types.Basic:
		n := u.Name()
		if n == "byte" {
			n = "uint8"
		}
		if n == "rune" {
			n = "int32"
		}
		return "reflect." + strings.ToUpper(n[:1]) + n[1:]
	case *types.Array:
		return "reflect.Array"
	}
	return ""
}

// producibleColumnTypes: enum key -> Go slice type string returned by (*Rows).GetColumn.
func (c *Ctx) producibleColumnTypes(rule string) map[string]string {
	s := c.S(rule, "(*utils/io.Rows).GetColumn")
	if s == nil {
		return nil
	}
	out := map[string]string{}
	for _, sw := range valueSwitches(s.Body, func(tag ast.Expr) bool { return strings.HasSuffix(fieldKey(s.Info, tag), "DataShape.Type") }) {
		m, _ := caseKeys(s.Info, sw)
		for k, cc := range m {
			for _, st := range cc.Body {
				if r, ok := st.(*ast.ReturnStmt); ok && len(r.Results) == 1 {
					if call, ok := unparen(r.Results[0]).(*ast.CallExpr); ok {
						if f := Callee(s.Info, call); f != nil {
							res := f.Type().(*types.Signature).Results()
							if res.Len() == 1 {
								out[k] = types.TypeString(res.At(0).Type(), nil)
							}
						}
					}
				}
			}
		}
	}
	if len(out) < 10 {
		c.Undecided(rule, s.Name, "floor", "fewer than 10 column extraction cases found in GetColumn")
	}
	return out
}

func sortedConstKeys(m map[string]*types.Const) []string {
	var out []string
	for k := range m {
		out = append(out, k)
	}
	sort.Strings(out)
	return out
}
