package main

// Rules added after the third round of independently seeded changes (DESIGN.md §9).

import (
	"fmt"
	"go/ast"
	"go/constant"
	"go/token"
	"go/types"
	"math"
	"strings"
)

// R13.3 — every listed item of a query restriction is visited: the walk over the restriction
// list in planner.(*Query).Parse has no early exit (a missing symbol must not hide the symbols
// listed after it).
func ruleRestrictionListFullyVisited(c *Ctx) {
	const rule = "R13.3"
	fn := c.F(rule, "(*planner.Query).Parse")
	if fn == nil {
		return
	}
	info := fn.Pkg.TypesInfo
	n := 0
	walkAll(fn.Decl.Body, func(m ast.Node) bool {
		rs, ok := m.(*ast.RangeStmt)
		if !ok {
			return true
		}

		src := ""
		if cx, ok := unparen(rs.X).(*ast.CallExpr); ok {
			src = CalleeName(info, cx)
		} else if o := identObj(info, rs.X); o != nil {
			walkAll(fn.Decl.Body, func(d ast.Node) bool {
				if as, ok := d.(*ast.AssignStmt); ok && len(as.Lhs) == 1 && len(as.Rhs) == 1 && identObj(info, as.Lhs[0]) == o {
					if cx, ok := unparen(as.Rhs[0]).(*ast.CallExpr); ok {
						src = CalleeName(info, cx)
					}
				}
				return true
			})

		}
		if !strings.Contains(src, "getItemList") && !strings.Contains(src, "GetListOfSubDirs") {
			return true
		}
		n++
		var exit ast.Node
		var visit func(ast.Node, int)
		visit = func(k ast.Node, loopDepth int) {
			ast.Inspect(k, func(x ast.Node) bool {
				if x == nil || exit != nil {
					return false
				}
				switch y := x.(type) {
				case *ast.FuncLit:
					return false
				case *ast.ReturnStmt:
					exit = y
					return false
				case *ast.BranchStmt:
					if y.Tok == token.BREAK && loopDepth == 0 && y.Label == nil {
						exit = y
					}
					if y.Tok == token.GOTO {
						exit = y
					}
				case *ast.ForStmt:
					if y != k {
						visit(y.Body, loopDepth+1)
						return false
					}
				case *ast.RangeStmt:
					if y != k {
						visit(y.Body, loopDepth+1)
						return false
					}
				case *ast.SwitchStmt, *ast.SelectStmt, *ast.TypeSwitchStmt:
					if y != k {

						visit(switchBody(y), loopDepth+1)
						return false
					}
				}
				return true
			})
		}
		visit(rs.Body, 0)
		construct := "restriction-walk:" + shortCallee(src)
		if exit == nil {
			c.Hold(rule, fn.Key, construct, c.P.Pos(rs.Pos()), "the loop over the listed items has no early exit: every listed item is visited")
		} else {
			c.Violate(rule, fn.Key, construct, c.P.Pos(exit.Pos()),
				"the walk over the query's listed items can leave the loop early (return/break): an item that is not in the catalog hides every item listed after it, so a multi-symbol query no longer agrees with the single-symbol queries", nil)
		}
		return true
	})

	c.Floor(rule, fn.Key, "restriction/sub-directory walks", n, 2)
}

func switchBody(n ast.Node) ast.Node {
	switch y := n.(type) {
	case *ast.SwitchStmt:
		return y.Body
	case *ast.SelectStmt:
		return y.Body
	case *ast.TypeSwitchStmt:
		return y.Body
	}
	return n
}

// R23.4 — an extremum accumulator is seeded from the input or from the correct bound.
func ruleExtremumSeed(c *Ctx) {
	const rule = "R23.4"
	type spec struct {
		pkg, typ, field string
		isMax           bool
	}
	for _, sp := range []spec{{"uda/max", "Max", "Max", true}, {"uda/min", "Min", "Min", false}} {
		accum := c.S(rule, "(*"+sp.pkg+"."+sp.typ+").Accum")
		if accum == nil {
			continue
		}
		fkey := sp.pkg + "." + sp.typ + "." + sp.field
		// (a) seeded from the input on first use: an assignment field = <non-constant> guarded by a
		// negated boolean field of the accumulator
		seeded := false
		accum.walk(func(m ast.Node) bool {
			is, ok := m.(*ast.IfStmt)
			if !ok {
				return true
			}
			neg, isNeg := unparen(is.Cond).(*ast.UnaryExpr)
			if !isNeg || neg.Op != token.NOT || !strings.HasPrefix(fieldKey(accum.Info, neg.X), sp.pkg+"."+sp.typ+".") {
				return true
			}
			for _, st := range is.Body.List {
				if as, ok := st.(*ast.AssignStmt); ok && len(as.Lhs) == 1 && fieldKey(accum.Info, as.Lhs[0]) == fkey {
					if _, isConst := accum.Info.Types[as.Rhs[0]]; isConst && accum.Info.Types[as.Rhs[0]].Value == nil {
						seeded = true
					}
				}
			}
			return true
		})

		// (b) every constant the field is initialised with anywhere in the package
		bad := ""
		nconst := 0
		for _, fn := range c.P.NonTestFuncs() {
			if fn.PkgShort() != sp.pkg || fn.Decl.Body == nil {
				continue
			}
			info := fn.Pkg.TypesInfo
			check := func(e ast.Expr, pos token.Pos) {
				tv, ok := info.Types[e]
				if !ok || tv.Value == nil {
					return
				}
				f, _ := constant.Float64Val(constant.ToFloat(tv.Value))
				nconst++
				okv := false
				if sp.isMax {
					okv = f <= -math.MaxFloat32
				} else {
					okv = f >= math.MaxFloat32
				}
				if !okv && !(f == 0 && seeded) {
					bad = fmt.Sprintf("%g at %s", f, c.P.Pos(pos))
				}
			}
			walkAll(fn.Decl.Body, func(m ast.Node) bool {
				switch x := m.(type) {
				case *ast.AssignStmt:
					for i, l := range x.Lhs {
						if fieldKey(info, l) == fkey && i < len(x.Rhs) {
							check(x.Rhs[i], x.Pos())
						}
					}
				case *ast.KeyValueExpr:
					if id, ok := x.Key.(*ast.Ident); ok && id.Name == sp.field {
						if v, ok := objOf(info, id).(*types.Var); ok && v.IsField() {
							check(x.Value, x.Pos())
						}
					}
				}
				return true
			})

		}
		what := map[bool]string{true: "maximum", false: "minimum"}[sp.isMax]
		bound := map[bool]string{true: "≤ -MaxFloat32 (or -Inf)", false: "≥ MaxFloat32 (or +Inf)"}[sp.isMax]
		switch {
		case seeded && bad == "":
			c.Hold(rule, accum.Name, "accumulator-seed", c.P.Pos(accum.Body.Pos()), "the "+what+" accumulator is seeded from the first input value on first use (constants only zero-initialise it)")
		case !seeded && bad == "" && nconst > 0:
			c.Hold(rule, accum.Name, "accumulator-seed", c.P.Pos(accum.Body.Pos()), "the "+what+" accumulator is initialised with the correct bound "+bound)
		default:
			why := "is neither seeded from the input nor initialised with a constant " + bound
			if bad != "" {
				why = "is initialised with the constant " + bad + ", which is not " + bound
			}
			c.Violate(rule, accum.Name, "accumulator-seed", c.P.Pos(accum.Body.Pos()),
				"the "+what+" accumulator "+why+": for inputs on the other side of that constant the aggregate returns the constant instead of the column's "+what, nil)
		}
	}
}

// R24.2 — a destination window is aggregated from the base data of the window (queried, or
// cache ∪ new), never from the just-written records alone.
func ruleAggregateFromWholeWindow(c *Ctx) {
	const rule = "R24.2"
	s := c.S(rule, "(*contrib/ondiskagg/aggtrigger.OnDiskAggTrigger).Fire")
	if s == nil {
		return
	}
	n := 0
	for _, site := range s.sites(callPred(s, "(*contrib/ondiskagg/aggtrigger.OnDiskAggTrigger).write")) {
		n++
		call := site.(*ast.CallExpr)
		if len(call.Args) < 2 {
			continue
		}
		ok, why := s.seriesCoversWindow(call.Args[1], call.Pos(), 0)
		// path-sensitive part: once the variable holds only the just-written records, the
		// write is reachable only after it was re-assigned from a union/query
		if o := identObj(s.Info, call.Args[1]); o != nil && ok {
			assignFrom := func(names ...string) EvPred {
				return func(sub, top ast.Node) bool {
					as, isAs := sub.(*ast.AssignStmt)
					if !isAs || len(as.Rhs) != 1 {
						return false
					}
					assigns := false
					for _, l := range as.Lhs {
						if identObj(s.Info, l) == o {
							assigns = true
						}
					}
					cx, isC := unparen(as.Rhs[0]).(*ast.CallExpr)
					if !assigns || !isC {
						return false
					}
					nm := CalleeName(s.Info, cx)
					for _, w := range names {
						if strings.HasSuffix(nm, w) {
							return true
						}
					}
					return false
				}
			}
			r := s.Run(Query{Start: assignFrom("trigger.RecordsToColumnSeries"), Target: func(sub, _ ast.Node) bool { return sub == ast.Node(call) },
				Barrier: assignFrom("io.ColumnSeriesUnion", ".query")})
			if len(r.Hits) > 0 {
				ok, why = false, "a path reaches write() with the series holding only the just-written records"
			}
		}
		c.Check(ok, rule, s.Name, fmt.Sprintf("aggregate-input#%d", n), c.P.Pos(call.Pos()),
			"the series handed to write() comes from a query of the base bucket or from the union of the cached window with the new records ("+why+"); aggregating the just-written records alone overwrites the destination bar with a partial aggregate")
	}
	c.Floor(rule, s.Name, "write() call sites", n, 2)
}

// R28.5 — the WAL schema encoding is lossless: DataShape.toBytes serializes the Name field
// itself (and its own length), never a re-sliced or otherwise shortened copy.
func ruleSchemaEncodingLossless(c *Ctx) {
	const rule = "R28.5"
	s := c.S(rule, "(*utils/io.DataShape).toBytes")
	if s == nil {
		return
	}
	// any string/byte re-slicing or trimming inside the encoder is a lossy step
	var lossyAt ast.Node
	s.walk(func(m ast.Node) bool {
		switch x := m.(type) {
		case *ast.SliceExpr:
			if t := s.Info.TypeOf(x.X); t != nil {
				if b, ok := t.Underlying().(*types.Basic); ok && b.Info()&types.IsString != 0 && (x.High != nil || x.Low != nil) {
					lossyAt = x
				}
			}
		case *ast.CallExpr:
			nm := CalleeName(s.Info, x)
			if strings.HasPrefix(nm, "strings.Trim") || nm == "strings.ToValidUTF8" || strings.HasPrefix(nm, "strings.Split") || nm == "strings.Cut" {
				lossyAt = x
			}
		}
		return lossyAt == nil
	})

	// the string operand handed to Serialize is the Name field (directly or a var defined as exactly it)
	nameOK := false
	for _, site := range s.sites(callPred(s, "utils/io.Serialize")) {
		call := site.(*ast.CallExpr)
		if len(call.Args) != 2 {
			continue
		}
		if b, ok := s.Info.TypeOf(call.Args[1]).Underlying().(*types.Basic); ok && b.Info()&types.IsString != 0 {
			if fieldKey(s.Info, call.Args[1]) == "utils/io.DataShape.Name" {
				nameOK = true
			} else if o := identObj(s.Info, call.Args[1]); o != nil {
				defs, exact := 0, 0
				s.walk(func(m ast.Node) bool {
					if as, ok := m.(*ast.AssignStmt); ok {
						for i, l := range as.Lhs {
							if identObj(s.Info, l) == o && i < len(as.Rhs) {
								defs++
								if fieldKey(s.Info, as.Rhs[i]) == "utils/io.DataShape.Name" {
									exact++
								}
							}
						}
					}
					return true
				})

				nameOK = defs > 0 && defs == exact
			}
		}
	}
	if lossyAt != nil {
		c.Violate(rule, s.Name, "name-encoded-unaltered", c.P.Pos(lossyAt.Pos()),
			"the data shape encoder shortens/re-slices a string before writing it to the WAL: a column name that the catalog accepts is logged (and replicated) with bytes missing, so the decoded schema differs from the original", nil)
		return
	}
	c.Check(nameOK, rule, s.Name, "name-encoded-unaltered", c.P.Pos(s.Body.Pos()), "the column name written to the WAL is the DataShape.Name field itself")
}

// R25.5 — the replica places each write set with the year of ITS OWN file path.
func ruleReplicaYearFromOwnPath(c *Ctx) {
	const rule = "R25.5"
	s := c.S(rule, "replication.wtSetToCS")
	if s == nil {
		return
	}
	var param types.Object
	if s.Type.Params != nil && len(s.Type.Params.List) > 0 && len(s.Type.Params.List[0].Names) > 0 {
		param = objOf(s.Info, s.Type.Params.List[0].Names[0])
	}
	n := 0
	for _, site := range s.sites(callPred(s, "utils/io.IndexToTime")) {
		n++
		call := site.(*ast.CallExpr)
		if len(call.Args) != 3 {
			continue
		}
		// the year argument: follow local definitions back to NewTimeBucketKeyFromWalKeyPath(param.FilePath)
		ok := false
		var yearObj types.Object
		walkAll(call.Args[2], func(m ast.Node) bool {
			if id, isId := m.(*ast.Ident); isId {
				if v, isVar := objOf(s.Info, id).(*types.Var); isVar {
					yearObj = v
				}
			}
			return true
		})
		if yearObj != nil {
			defs, good := 0, 0
			s.walk(func(m ast.Node) bool {
				as, isAs := m.(*ast.AssignStmt)
				if !isAs {
					return true
				}
				for _, l := range as.Lhs {
					if identObj(s.Info, l) != yearObj {
						continue
					}
					defs++
					if len(as.Rhs) == 1 {
						if cx, isC := unparen(as.Rhs[0]).(*ast.CallExpr); isC && CalleeName(s.Info, cx) == "utils/io.NewTimeBucketKeyFromWalKeyPath" && len(cx.Args) == 1 {
							if fieldKey(s.Info, cx.Args[0]) == "executor/wal.WTSet.FilePath" && rootIdent(s.Info, cx.Args[0]) == param && param != nil {
								good++
							}
						}
					}
				}
				return true
			})

			ok = defs > 0 && defs == good
		}
		c.Check(ok, rule, s.Name, "year-from-own-file-path", c.P.Pos(call.Pos()),
			"the year used to turn the logged slot index back into a time is parsed from the FilePath of the write set being converted (a value cached per bucket directory or taken from another set puts rows of a transaction that spans New Year into the wrong year on the replica)")
	}
	c.Floor(rule, s.Name, "IndexToTime call sites", n, 1)
}

// seriesCoversWindow: the reaching definitions (before pos) of the expression are a query result
// or a ColumnSeriesUnion; a bare RecordsToColumnSeries result is not enough.
func (s *Scope) seriesCoversWindow(e ast.Expr, pos token.Pos, depth int) (bool, string) {
	if depth > 4 {
		return false, "definition chain too deep"
	}
	e = unparen(e)
	switch x := e.(type) {
	case *ast.CallExpr:
		nm := CalleeName(s.Info, x)
		switch {
		case nm == "utils/io.ColumnSeriesUnion":
			return true, "ColumnSeriesUnion"
		case strings.HasSuffix(nm, ".query"):
			return true, "query"
		case strings.HasSuffix(nm, "trigger.RecordsToColumnSeries"):
			return false, "only the just-written records"
		}
		// a producer that was extracted into a helper: every value the helper returns must cover
		// the window
		if f := Callee(s.Info, x); f != nil {
			if h := s.P.ByObj[f]; h != nil && h.Decl.Body != nil && !baselineFuncs[h.Key] && h.Pkg == s.Pkg {
				hs := s.P.ScopeOf(h)
				all, any := true, false
				why := ""
				walkAll(h.Decl.Body, func(m ast.Node) bool {
					if _, lit := m.(*ast.FuncLit); lit {
						return false
					}
					if rs, ok := m.(*ast.ReturnStmt); ok && len(rs.Results) >= 1 {
						if tv, ok := hs.Info.Types[rs.Results[0]]; ok && tv.IsNil() {
							return true
						}
						any = true
						ok2, w := hs.seriesCoversWindow(rs.Results[0], rs.Pos(), depth+1)
						if !ok2 {
							all, why = false, w
						} else if why == "" {
							why = w
						}
					}
					return true
				})
				if any {
					return all, "helper " + shortCallee(h.Key) + ": " + why
				}
			}
		}
		return false, "unrecognised producer " + nm
	case *ast.IndexExpr:
		return s.seriesCoversWindow(x.X, pos, depth+1)
	case *ast.StarExpr:
		return s.seriesCoversWindow(x.X, pos, depth+1)
	case *ast.ParenExpr:
		return s.seriesCoversWindow(x.X, pos, depth+1)
	case *ast.Ident:
		o := objOf(s.Info, x)
		if o == nil {
			return false, "unresolved"
		}
		// the LAST definition textually before the use inside the same innermost block chain
		var last ast.Expr
		var lastPos token.Pos
		s.walk(func(m ast.Node) bool {
			as, ok := m.(*ast.AssignStmt)
			if !ok || as.Pos() >= pos {
				return true
			}
			for i, l := range as.Lhs {
				if identObj(s.Info, l) == o && as.Pos() > lastPos {
					lastPos = as.Pos()
					if len(as.Rhs) == len(as.Lhs) {
						last = as.Rhs[i]
					} else if len(as.Rhs) == 1 {
						last = as.Rhs[0]
					}
				}
			}
			return true
		})

		// `if cs := (*csm)[*tbk]; cs != nil` style definitions
		s.walk(func(m ast.Node) bool {
			is, ok := m.(*ast.IfStmt)
			if !ok || is.Init == nil || is.Pos() >= pos || is.End() < pos {
				return true
			}
			if as, ok := is.Init.(*ast.AssignStmt); ok {
				for i, l := range as.Lhs {
					if identObj(s.Info, l) == o && i < len(as.Rhs) && as.Pos() > lastPos {
						lastPos = as.Pos()
						last = as.Rhs[i]
					}
				}
			}
			return true
		})

		if last == nil {
			return false, "no definition of " + x.Name + " before the call"
		}
		return s.seriesCoversWindow(last, lastPos, depth+1)
	}
	return false, "expression form not recognised"
}

// isRangeKeyValuePair is a placeholder for symmetric index forms (kept false: only identical
// index variables count as positional).
func isRangeKeyValuePair(s *Scope, a, b *ast.IndexExpr, cmp *ast.BinaryExpr) bool { return false }
