package main

import (
	"fmt"
	"go/ast"
	"go/constant"
	"go/token"
	"go/types"
	"sort"
	"strings"
)

// ---- C27 -----------------------------------------------------------------------------------

func ruleWireTypeTables(c *Ctx) {
	const rule = "R27.1"
	init, pkg := c.P.pkgVarInit("utils/io", "typeMap")
	if init == nil {
		c.Undecided(rule, "utils/io.typeMap", "anchor", "table not found")
		return
	}
	pairs := mapLitPairs(init)
	c.Floor(rule, "utils/io.typeMap", "entries", len(pairs), 11)
	seen := map[string]string{}
	wire := map[string]string{}
	for _, p := range pairs {
		k := objKey(pkg.TypesInfo, p.K)
		v, _ := constString(pkg.TypesInfo, p.V)
		wire[k] = v
		if prev, dup := seen[v]; dup {
			c.Violate(rule, "utils/io.typeMap", "wire-string:"+v, c.P.Pos(p.K.Pos()), "type string "+v+" is used for both "+prev+" and "+k+": the derived reverse map loses one of them and the column decodes as the wrong type", nil)
		} else {
			seen[v] = k
			c.Hold(rule, "utils/io.typeMap", "wire-string:"+v, c.P.Pos(p.K.Pos()), k+" ↔ "+v+" is unique")
		}
	}
	// the reverse map is derived from typeMap (not a second hand-written table)
	if rinit, rpkg := c.P.pkgVarInit("utils/io", "typeStrMap"); rinit != nil {
		derived := false
		walkAll(rinit, func(n ast.Node) bool {
			if rs, ok := n.(*ast.RangeStmt); ok && objKey(rpkg.TypesInfo, rs.X) == "utils/io.typeMap" {
				derived = true
			}
			return true
		})
		if !derived {
			// a literal table: compare entry by entry
			rp := mapLitPairs(rinit)
			ok := len(rp) == len(pairs)
			for _, p := range rp {
				s, _ := constString(rpkg.TypesInfo, p.K)
				if wire[objKey(rpkg.TypesInfo, p.V)] != s {
					ok = false
				}
			}
			c.Check(ok, rule, "utils/io.typeStrMap", "inverse-of-typeMap", c.P.Pos(rinit.Pos()), "typeStrMap is the exact inverse of typeMap")
		} else {
			c.Hold(rule, "utils/io.typeStrMap", "inverse-of-typeMap", c.P.Pos(rinit.Pos()), "typeStrMap is computed by inverting typeMap")
		}
	}
	// R27.2: each wire type decodes to the Go type that encodes back to it
	const r2 = "R27.2"
	attrs := c.attributeMap(r2)
	s := c.S(r2, "(utils/io.EnumElementType).ConvertByteSliceInto")
	if s == nil || attrs == nil {
		return
	}
	sizes := pkg.TypesSizes
	var conv map[string]*ast.CaseClause
	for _, sw := range valueSwitches(s.Body, func(tag ast.Expr) bool {
		return types.TypeString(s.Info.TypeOf(tag), nil) == modPrefix+"utils/io.EnumElementType"
	}) {
		conv, _ = caseKeys(s.Info, sw)
	}
	var keys []string
	for k := range wire {
		keys = append(keys, k)
	}
	sort.Strings(keys)
	for _, k := range keys {
		cc := conv[k]
		if cc == nil {
			c.Violate(r2, s.Name, "decode-case:"+k, c.P.Pos(s.Body.Pos()), k+" can be put on the wire (typeMap) but ConvertByteSliceInto has no case for it", nil)
			continue
		}
		// result slice type from the type assertion in the clause
		var elem types.Type
		walkAll(cc, func(n ast.Node) bool {
			if ta, ok := n.(*ast.TypeAssertExpr); ok && ta.Type != nil {
				if sl, ok := s.Info.TypeOf(ta.Type).(*types.Slice); ok {
					elem = sl.Elem()
				}
			}
			return true
		})
		if elem == nil {
			c.Undecided(r2, s.Name, "decode-case:"+k, "cannot determine the slice type produced for "+k)
			continue
		}
		a := attrs[k]
		okSize := sizes.Sizeof(elem) == a.Size
		okKind := goKindOf(elem) == a.Kind
		c.Check(okSize && okKind, r2, s.Name, "decode-case:"+k, c.P.Pos(cc.Pos()),
			fmt.Sprintf("%s decodes to []%s (size %d, kind %s); attributeMap says size %d, kind %s — the kind is what GetElementType maps back to the enum", k, types.TypeString(elem, nil), sizes.Sizeof(elem), goKindOf(elem), a.Size, a.Kind))
	}
	// R27.3: attributeMap kinds pairwise distinct (kindMap is built by map iteration)
	const r3 = "R27.3"
	byKind := map[string]string{}
	var akeys []string
	for k := range attrs {
		akeys = append(akeys, k)
	}
	sort.Strings(akeys)
	for _, k := range akeys {
		a := attrs[k]
		if prev, dup := byKind[a.Kind]; dup {
			c.Violate(r3, "utils/io.attributeMap", "kind:"+a.Kind, c.P.Pos(a.Pos), "reflect kind "+a.Kind+" is listed for both "+prev+" and "+k+": kindMap is filled by iterating a map, so which one wins is random per process", nil)
		} else {
			byKind[a.Kind] = k
			c.Hold(r3, "utils/io.attributeMap", "kind:"+a.Kind, c.P.Pos(a.Pos), a.Kind+" → "+k+" is unique")
		}
	}
}

// ---- C29 -----------------------------------------------------------------------------------

func ruleColumnExtraction(c *Ctx) {
	const rule = "R29.1"
	attrs := c.attributeMap(rule)
	prod := c.producibleColumnTypes(rule)
	s := c.S(rule, "(*utils/io.Rows).GetColumn")
	if attrs == nil || prod == nil || s == nil {
		return
	}
	sizes := s.Pkg.TypesSizes
	var keys []string
	for k, a := range attrs {
		if a.Size > 0 {
			keys = append(keys, k)
		}
	}
	sort.Strings(keys)
	for _, k := range keys {
		t, ok := prod[k]
		if !ok {
			c.Violate(rule, s.Name, "extract-case:"+k, c.P.Pos(s.Body.Pos()), k+" has a non-zero on-disk size but GetColumn has no case for it: the column comes back nil", nil)
			continue
		}
		// element size of the returned slice
		var elem types.Type
		for _, sw := range valueSwitches(s.Body, func(tag ast.Expr) bool { return true }) {
			m, _ := caseKeys(s.Info, sw)
			if cc := m[k]; cc != nil {
				walkAll(cc, func(n ast.Node) bool {
					if call, ok := n.(*ast.CallExpr); ok {
						if f := Callee(s.Info, call); f != nil && f.Pkg() != nil && short(f.Pkg().Path()) == "utils/io" && strings.HasPrefix(f.Name(), "get") {
							if sl, ok := f.Type().(*types.Signature).Results().At(0).Type().(*types.Slice); ok {
								elem = sl.Elem()
							}
						}
					}
					return true
				})
			}
		}
		if elem == nil {
			c.Undecided(rule, s.Name, "extract-case:"+k, "helper result type not resolved")
			continue
		}
		c.Check(sizes.Sizeof(elem) == attrs[k].Size, rule, s.Name, "extract-case:"+k, c.P.Pos(s.Body.Pos()),
			fmt.Sprintf("%s is extracted as %s (element %d bytes) and occupies %d bytes per row", k, t, sizes.Sizeof(elem), attrs[k].Size))
	}
	// the helpers read exactly sizeof(elem) bytes per row
	for _, fn := range c.P.NonTestFuncs() {
		if fn.PkgShort() != "utils/io" || !strings.HasPrefix(fn.Obj.Name(), "get") || !strings.HasSuffix(fn.Obj.Name(), "Column") || fn.Decl.Recv != nil {
			continue
		}
		res := fn.Obj.Type().(*types.Signature).Results()
		if res.Len() != 1 {
			continue
		}
		sl, ok := res.At(0).Type().(*types.Slice)
		if !ok {
			continue
		}
		want := sizes.Sizeof(sl.Elem())
		info := fn.Pkg.TypesInfo
		walkAll(fn.Decl.Body, func(n ast.Node) bool {
			se, ok := n.(*ast.SliceExpr)
			if !ok || se.Low == nil || se.High == nil {
				return true
			}

			if b, ok := unparen(se.High).(*ast.BinaryExpr); ok && b.Op == token.ADD {
				if v, isC := constInt(info, b.Y); isC && canonExpr(info, b.X) == canonExpr(info, se.Low) {
					per := want
					if arr, isArr := sl.Elem().(*types.Array); isArr {
						per = sizes.Sizeof(arr.Elem())
					}
					c.Check(v == per, rule, fn.Key, "bytes-per-element", c.P.Pos(se.Pos()), fmt.Sprintf("helper decodes %d bytes per element of %s (element size %d)", v, types.TypeString(sl.Elem(), nil), per))
				}
			}
			return true
		})

	}
	// offsets advance by the element type's size
	adv := false
	s.walk(func(n ast.Node) bool {
		if as, ok := n.(*ast.AssignStmt); ok && as.Tok == token.ADD_ASSIGN && len(as.Rhs) == 1 {
			if call, ok := unparen(as.Rhs[0]).(*ast.CallExpr); ok && CalleeName(s.Info, call) == "(utils/io.EnumElementType).Size" {
				adv = true
			}
		}
		return true
	})

	c.Check(adv, rule, s.Name, "offset-advances-by-type-size", c.P.Pos(s.Body.Pos()), "the column offset advances by ds.Type.Size() for every preceding column")
}

func ruleRowLayoutAgreement(c *Ctx) {
	const rule = "R29.2"
	s := c.S(rule, "utils/io.SerializeColumnsToRows")
	if s == nil {
		return
	}
	// Epoch is emitted first in every row: in the row loop, Serialize(data, epoch) precedes the column loop
	file := c.P.FileOf(s.Pkg, s.Body.Pos())
	par := c.P.Parents(file)
	okFirst := false
	// the row loop, in either loop form
	type loopT struct{ Body *ast.BlockStmt }
	var rowLoop *loopT
	for _, n := range s.sites(callPred(s, "utils/io.Serialize")) {
		for m := par[n]; m != nil; m = par[m] {
			if rs, ok := m.(*ast.RangeStmt); ok {
				rowLoop = &loopT{rs.Body}
				break
			}
			if fs, ok := m.(*ast.ForStmt); ok {
				rowLoop = &loopT{fs.Body}
				break
			}
		}
	}
	if rowLoop != nil && len(rowLoop.Body.List) > 0 {
		if as, ok := rowLoop.Body.List[0].(*ast.AssignStmt); ok && len(as.Rhs) == 1 {
			if call, ok := unparen(as.Rhs[0]).(*ast.CallExpr); ok && CalleeName(s.Info, call) == "utils/io.Serialize" && len(call.Args) == 2 {
				if t := s.Info.TypeOf(call.Args[1]); t != nil && types.TypeString(t, nil) == "int64" {
					okFirst = true
				}
			}
		}
	}
	c.Check(okFirst, rule, s.Name, "epoch-first-as-int64", c.P.Pos(s.Body.Pos()), "every row starts with the 8-byte Epoch (readers take Epoch at offset 0)")
	// padding appended once per row, after the column loop, only when aligning
	pads := 0
	if rowLoop != nil {
		for i, st := range rowLoop.Body.List {
			if is, ok := st.(*ast.IfStmt); ok {
				walkAll(is.Body, func(n ast.Node) bool {
					if call, ok := n.(*ast.CallExpr); ok && CalleeName(s.Info, call) == "builtin.append" && len(call.Args) == 2 && call.Ellipsis.IsValid() {
						pads++
						c.Check(i == len(rowLoop.Body.List)-1, rule, s.Name, "pad-after-last-column", c.P.Pos(call.Pos()), "alignment padding is appended after the last column of the row")
					}
					return true
				})

			}
		}
	}
	// … and the padding buffer is appended nowhere else in the row (e.g. inside the column loop)
	if rowLoop != nil && pads >= 1 {
		padObjs := map[types.Object]bool{}
		for _, st := range rowLoop.Body.List {
			if is, ok := st.(*ast.IfStmt); ok {
				walkAll(is.Body, func(n ast.Node) bool {
					if call, ok := n.(*ast.CallExpr); ok && CalleeName(s.Info, call) == "builtin.append" && len(call.Args) == 2 && call.Ellipsis.IsValid() {
						if o := identObj(s.Info, call.Args[1]); o != nil {
							padObjs[o] = true
						}
					}
					return true
				})
			}
		}
		all := 0
		walkAll(rowLoop.Body, func(n ast.Node) bool {
			if call, ok := n.(*ast.CallExpr); ok && CalleeName(s.Info, call) == "builtin.append" && len(call.Args) == 2 && call.Ellipsis.IsValid() && padObjs[identObj(s.Info, call.Args[1])] {
				all++
			}
			return true
		})
		if all > pads {
			pads = all
		}
	}
	c.Check(pads == 1, rule, s.Name, "pad-once-per-row", c.P.Pos(s.Body.Pos()), fmt.Sprintf("exactly one padding append per row (found %d)", pads))
	// record length = AlignedSize(sum of sizes) when aligning
	al := s.sites(callPred(s, "utils/io.AlignedSize"))
	c.Check(len(al) >= 1, rule, s.Name, "record-length-aligned", c.P.Pos(s.Body.Pos()), "the returned record length is AlignedSize(Σ sizes) when aligning")
	if nt := c.S(rule, "utils/io.NewTimeBucketInfo"); nt != nil {
		ok := false
		nt.walk(func(n ast.Node) bool {
			if b, isB := n.(*ast.BinaryExpr); isB && b.Op == token.ADD {
				if mentionsCall(nt.Info, b.X, "utils/io.AlignedSize") && objKey(nt.Info, b.Y) == "utils/io.epochLenBytes" {
					ok = true
				}
			}
			return true
		})

		c.Check(ok, rule, nt.Name, "fixed-record-length-aligned-plus-epoch", c.P.Pos(nt.Body.Pos()), "fixed record length = AlignedSize(field bytes) + 8-byte epoch, the same alignment function the serializer uses")
	}
	// R29.3 (coercion error only logged in SerializeColumnsToRows) is not claimed: its only caller
	// passes the series' own data shapes, so the coercion list is always empty (DESIGN.md §7).
}

func mentionsCall(info *types.Info, e ast.Node, name string) bool {
	found := false
	walkAll(e, func(n ast.Node) bool {
		if call, ok := n.(*ast.CallExpr); ok && CalleeName(info, call) == name {
			found = true
		}
		return !found
	})
	return found
}

// ---- C15 -----------------------------------------------------------------------------------

func ruleHeaderLayout(c *Ctx) {
	const rule = "R15.1"
	pkg := c.P.ByPath["utils/io"]
	if pkg == nil {
		c.Undecided(rule, "utils/io", "anchor", "package not found")
		return
	}
	sc := pkg.Types.Scope()
	hdr, _ := sc.Lookup("Header").(*types.TypeName)
	hs, _ := sc.Lookup("Headersize").(*types.Const)
	if hdr == nil || hs == nil {
		c.Undecided(rule, "utils/io.Header", "anchor", "Header type or Headersize constant not found")
		return
	}
	st := hdr.Type().Underlying().(*types.Struct)
	size := pkg.TypesSizes.Sizeof(hdr.Type())
	want, _ := constant.Int64Val(constant.ToInt(hs.Val()))
	c.Check(size == want, rule, "utils/io.Header", "sizeof==Headersize", c.P.Pos(hdr.Pos()), fmt.Sprintf("unsafe.Sizeof(Header{}) = %d, Headersize = %d (WriteHeader and readHeader cast the struct through [Headersize]byte)", size, want))
	// offset of ElementNames == headerPart1Bytes (local constant in readHeader)
	var fields []*types.Var
	idxNames, idxTypes := -1, -1
	for i := 0; i < st.NumFields(); i++ {
		fields = append(fields, st.Field(i))
		if st.Field(i).Name() == "ElementNames" {
			idxNames = i
		}
		if st.Field(i).Name() == "ElementTypes" {
			idxTypes = i
		}
	}
	offs := pkg.TypesSizes.Offsetsof(fields)
	if rh := c.F(rule, "(*utils/io.TimeBucketInfo).readHeader"); rh != nil && idxNames >= 0 {
		var part1 int64 = -1
		// the constant may live in readHeader, in a helper split off it, or at package level
		decls := []*ast.FuncDecl{rh.Decl}
		for _, h := range c.P.privateHelpers(rh) {
			decls = append(decls, h.Decl)
		}
		inClosure := func(pos, end token.Pos) bool {
			for _, d := range decls {
				if pos >= d.Pos() && end <= d.End() {
					return true
				}
			}
			return false
		}
		for id, o := range rh.Pkg.TypesInfo.Defs {
			k, ok := o.(*types.Const)
			if !ok || id == nil {
				continue
			}
			local := inClosure(id.Pos(), id.End())
			pkgLevel := k.Parent() == rh.Pkg.Types.Scope()
			if (local || pkgLevel) && k.Name() == "headerPart1Bytes" {
				part1, _ = constant.Int64Val(constant.ToInt(k.Val()))
			}
		}
		if part1 < 0 { // renamed: a constant of the closure that has the value of the names offset
			for id, o := range rh.Pkg.TypesInfo.Defs {
				if k, ok := o.(*types.Const); ok && id != nil && inClosure(id.Pos(), id.End()) {
					if v, ok2 := constant.Int64Val(constant.ToInt(k.Val())); ok2 && v == offs[idxNames] {
						part1 = v
					}
				}
			}
		}
		if part1 < 0 {
			c.Undecided(rule, rh.Key, "headerPart1Bytes", "local constant not found")
		} else {
			c.Check(part1 == offs[idxNames], rule, rh.Key, "part1==offsetof(ElementNames)", c.P.Pos(rh.Decl.Pos()), fmt.Sprintf("headerPart1Bytes = %d, offsetof(Header.ElementNames) = %d", part1, offs[idxNames]))
		}
	}
	// array dimensions equal the named constants
	if idxNames >= 0 && idxTypes >= 0 {
		an := st.Field(idxNames).Type().(*types.Array)
		inner := an.Elem().(*types.Array)
		at := st.Field(idxTypes).Type().(*types.Array)
		mx, _ := sc.Lookup("maxNumElements").(*types.Const)
		nb, _ := sc.Lookup("elementNameHeaderBytes").(*types.Const)
		if mx != nil && nb != nil {
			mxv, _ := constant.Int64Val(constant.ToInt(mx.Val()))
			nbv, _ := constant.Int64Val(constant.ToInt(nb.Val()))
			c.Check(an.Len() == mxv && at.Len() == mxv && inner.Len() == nbv, rule, "utils/io.Header", "array-dimensions", c.P.Pos(hdr.Pos()),
				fmt.Sprintf("ElementNames [%d][%d]byte, ElementTypes [%d]byte; maxNumElements=%d elementNameHeaderBytes=%d", an.Len(), inner.Len(), at.Len(), mxv, nbv))
		}
	}
	// R15.2: encoder/decoder field agreement
	const r2 = "R15.2"
	enc := c.S(r2, "(*utils/io.Header).Load")
	dec := c.S(r2, "(*utils/io.TimeBucketInfo).load")
	if enc != nil && dec != nil {
		written, read := map[string]bool{}, map[string]bool{}
		enc.walk(func(n ast.Node) bool {
			switch x := n.(type) {
			case *ast.AssignStmt:
				for _, l := range x.Lhs {
					walkAll(l, func(m ast.Node) bool {
						if k := fieldKeyNode(enc.Info, m); strings.HasPrefix(k, "utils/io.Header.") {
							written[strings.TrimPrefix(k, "utils/io.Header.")] = true
						}
						return true
					})
				}
			case *ast.CallExpr:

				nm := CalleeName(enc.Info, x)
				isHelper := c.P.Funcs[nm] != nil
				if (nm == "builtin.copy" && len(x.Args) == 2) || isHelper {
					args := x.Args
					if nm == "builtin.copy" {
						args = x.Args[:1]
					}
					for _, a := range args {
						if _, isSlice := unparen(a).(*ast.SliceExpr); !isSlice && nm != "builtin.copy" {
							continue
						}
						walkAll(a, func(m ast.Node) bool {
							if k := fieldKeyNode(enc.Info, m); strings.HasPrefix(k, "utils/io.Header.") {
								written[strings.TrimPrefix(k, "utils/io.Header.")] = true
							}
							return true
						})
					}
				}
			}
			return true
		})

		dec.walk(func(n ast.Node) bool {
			if k := fieldKeyNode(dec.Info, n); strings.HasPrefix(k, "utils/io.Header.") {
				read[strings.TrimPrefix(k, "utils/io.Header.")] = true
			}
			return true
		})

		// NElements is written and also read back inside Load (loop bound): exclude pure self-reads
		c.Floor(r2, enc.Name, "header fields written", len(written), 8)
		all := map[string]bool{}
		for k := range written {
			all[k] = true
		}
		for k := range read {
			all[k] = true
		}
		for _, k := range sortedStrs(all) {
			c.Check(written[k] && read[k], r2, "utils/io.Header."+k, "written-and-read", c.P.Pos(hdr.Pos()),
				fmt.Sprintf("header field %s: written by Header.Load=%v, read by TimeBucketInfo.load=%v", k, written[k], read[k]))
		}
	}
}

func fieldKeyNode(info *types.Info, n ast.Node) string {
	if e, ok := n.(ast.Expr); ok {
		return fieldKey(info, e)
	}
	return ""
}

// ---- C14 R14.3 / C23 R23.1 / C19 R19.1: totality of type dispatch -------------------------------

func ruleCoercionTotal(c *Ctx) {
	const rule = "R14.3"
	attrs := c.attributeMap(rule)
	s := c.S(rule, "(*utils/io.ColumnSeries).CoerceColumnType")
	if attrs == nil || s == nil {
		return
	}
	var cases map[string]*ast.CaseClause
	var def *ast.CaseClause
	for _, sw := range valueSwitches(s.Body, func(tag ast.Expr) bool { return mentionsCall(s.Info, tag, "(utils/io.EnumElementType).Kind") }) {
		cases, def = caseKeys(s.Info, sw)
	}
	if cases == nil {
		c.Undecided(rule, s.Name, "kind-switch", "switch over elementType.Kind() not found")
		return
	}
	var keys []string
	for k, a := range attrs {
		if numericKinds[a.Kind] {
			keys = append(keys, k)
		}
	}
	sort.Strings(keys)
	c.Floor(rule, "utils/io.attributeMap", "numeric element types", len(keys), 10)
	for _, k := range keys {
		c.Check(cases[attrs[k].Kind] != nil, rule, s.Name, "coerce-case:"+k, c.P.Pos(s.Body.Pos()),
			"numeric element type "+k+" (kind "+attrs[k].Kind+") has a coercion case; a missing case falls into the default arm, which logs and returns nil — the write proceeds with the wrong width")
	}
	if def != nil {
		ret := false
		walkAll(def, func(n ast.Node) bool {
			if r, ok := n.(*ast.ReturnStmt); ok && s.lastResultCertainlyNonNil(r) {
				ret = true
			}
			return true
		})
		if !ret {
			c.Note("R14.3 observation: CoerceColumnType's default arm only logs and returns nil (unreachable for the numeric types listed in attributeMap)")
		}
	}
	// the conversion group table covers every numeric kind
	ginit, gpkg := c.P.pkgVarInit("utils/io", "group")
	if ginit != nil {
		have := map[string]bool{}
		for _, p := range mapLitPairs(ginit) {
			for _, q := range mapLitPairs(p.V) {
				have[objKey(gpkg.TypesInfo, q.K)] = true
			}
		}
		for k := range numericKinds {
			if !have[k] {
				c.Violate(rule, "utils/io.group", "kind:"+k, c.P.Pos(ginit.Pos()), "numeric kind "+k+" is in no conversion group (toInt/toUint/toFloat would take the wrong branch)", nil)
			}
		}
		c.Hold(rule, "utils/io.group", "covers-numeric-kinds", c.P.Pos(ginit.Pos()), "float/int/uint groups cover the numeric reflect kinds of attributeMap")
	}
}

// numeric producible column slice types
func (c *Ctx) numericColumnGoTypes(rule string) []string {
	attrs := c.attributeMap(rule)
	prod := c.producibleColumnTypes(rule)
	if attrs == nil || prod == nil {
		return nil
	}
	set := map[string]bool{}
	for k, t := range prod {
		if numericKinds[attrs[k].Kind] {
			set[t] = true
		}
	}
	return sortedStrs(set)
}

func ruleAggregateInputTotal(c *Ctx) {
	const rule = "R23.1"
	want := c.numericColumnGoTypes(rule)
	c.Floor(rule, "utils/io", "numeric column slice types a bucket can produce", len(want), 9)
	for _, key := range []string{"uda.ColumnToFloat32", "uda.ColumnToFloat64"} {
		s := c.S(rule, key)
		if s == nil {
			continue
		}
		ts := typeSwitches(s.Info, s.Body)
		if len(ts) == 0 {
			c.Undecided(rule, s.Name, "type-switch", "no type switch found")
			continue
		}
		have := ts[0].Types
		for _, t := range want {
			tt := t
			if tt == "[]byte" {
				tt = "[]uint8"
			}
			_, ok := have[tt]
			if !ok {
				_, ok = have[t]
			}
			if ok {
				c.Hold(rule, s.Name, "convert-case:"+tt, c.P.Pos(ts[0].Stmt.Pos()), "column type "+tt+" is converted")
			} else {
				c.Violate(rule, s.Name, "convert-case:"+tt, c.P.Pos(ts[0].Stmt.Pos()),
					"a bucket column of Go type "+tt+" has no case: the function returns (nil, nil), and min/max then index element 0 of a nil slice (panic) while avg returns NaN", nil)
			}
		}
		// an unsupported type must be an error, not (nil, nil)
		okDef := false
		if ts[0].Def != nil {
			walkAll(ts[0].Def, func(n ast.Node) bool {
				if r, ok := n.(*ast.ReturnStmt); ok && s.lastResultCertainlyNonNil(r) {
					okDef = true
				}
				return true
			})
		}
		c.Check(okDef, rule, s.Name, "unsupported-type-is-an-error", c.P.Pos(ts[0].Stmt.Pos()), "the type switch has a default arm returning a non-nil error")
	}
}

func rulePostFilterTotal(c *Ctx) {
	const rule = "R19.1"
	want := c.numericColumnGoTypes(rule)
	s := c.S(rule, "(*sqlparser.SelectRelation).Materialize")
	if s == nil {
		return
	}
	var best tswitch
	for _, t := range typeSwitches(s.Info, s.Body) {
		if len(t.Types) > len(best.Types) {
			best = t
		}
	}
	if best.Stmt == nil {
		c.Undecided(rule, s.Name, "type-switch", "post-filter type switch not found")
		return
	}
	c.Floor(rule, s.Name, "post-filter cases", len(best.Types), 4)
	for _, t := range want {
		tt := t
		if tt == "[]byte" {
			tt = "[]uint8"
		}
		if _, ok := best.Types[tt]; ok {
			c.Hold(rule, s.Name, "filter-case:"+tt, c.P.Pos(best.Stmt.Pos()), "predicates on "+tt+" columns are evaluated")
		} else {
			c.Violate(rule, s.Name, "filter-case:"+tt, c.P.Pos(best.Stmt.Pos()),
				"the WHERE post-filter has no case for "+tt+" columns: a predicate on such a column removes no row (the statement returns rows that do not satisfy it)", nil)
		}
	}
}

// ---- C13 -----------------------------------------------------------------------------------

func ruleAppendComparesTypes(c *Ctx) {
	const rule = "R13.1"
	s := c.S(rule, "(*utils/io.NumpyMultiDataset).Append")
	if s == nil {
		return
	}
	// the merge appends raw bytes per column; it must be guarded by a comparison that involves
	// the element types (ColumnTypes / dataShapes / GetDataShapes), not only the names
	grow := func(sub, top ast.Node) bool {
		as, ok := sub.(*ast.AssignStmt)
		if !ok || len(as.Rhs) != 1 {
			return false
		}
		call, ok := unparen(as.Rhs[0]).(*ast.CallExpr)
		if !ok || CalleeName(s.Info, call) != "builtin.append" {
			return false
		}
		return mentionsField(s.Info, as.Lhs[0], "utils/io.NumpyDataset.ColumnData")
	}
	typeCmp := 0
	s.walk(func(n ast.Node) bool {
		b, ok := isCompareNode(n, token.NEQ, token.EQL)
		if !ok {
			return true
		}
		m := func(e ast.Node) bool {
			return mentionsField(s.Info, e, "utils/io.NumpyDataset.ColumnTypes") || mentionsField(s.Info, e, "utils/io.NumpyDataset.dataShapes") ||
				mentionsField(s.Info, e, "utils/io.DataShape.Type") || mentionsCall(s.Info, e, "(*utils/io.ColumnSeries).GetDataShapes") ||
				mentionsCall(s.Info, e, "utils/io.GetElementType") || mentionsCall(s.Info, e, "(utils/io.DataShape).Equal")
		}
		if m(b.X) || m(b.Y) {
			typeCmp++
		}
		return true
	})

	// or a helper call comparing shapes
	s.walk(func(n ast.Node) bool {
		if call, ok := n.(*ast.CallExpr); ok {
			nm := CalleeName(s.Info, call)
			if strings.Contains(nm, "DataShape") && (strings.Contains(nm, "Equal") || strings.Contains(nm, "Match")) {
				typeCmp++
			}
		}
		return true
	})

	sites := s.sites(grow)
	c.Floor(rule, s.Name, "column-data append sites", len(sites), 1)
	c.Check(typeCmp > 0, rule, s.Name, "merge-guard-compares-types", c.P.Pos(s.Body.Pos()),
		"before appending another symbol's column bytes the guard compares element TYPES, not only column names (otherwise int32 bytes are appended to a column declared float32 and decoded wrongly for that symbol)")
	// R13.4: the bytes are appended POSITIONALLY (ColumnData[idx] gets the idx-th column of the
	// series), so the guard must compare names position by position — X[i] against Y[i] with the
	// same index variable — not by set/map membership (a same-names-other-order series would swap
	// the values of its columns).
	positional := false
	s.walk(func(n ast.Node) bool {
		b, ok := isCompareNode(n, token.NEQ, token.EQL)
		if !ok {
			return true
		}
		ix, okx := unparen(b.X).(*ast.IndexExpr)
		iy, oky := unparen(b.Y).(*ast.IndexExpr)
		if !okx || !oky {
			return true
		}
		oi, oj := identObj(s.Info, ix.Index), identObj(s.Info, iy.Index)
		names := func(e ast.Expr) bool {
			return mentionsField(s.Info, e, "utils/io.NumpyDataset.ColumnNames") || strings.Contains(canonExpr(s.Info, e), "ColumnNames")
		}
		_, xIsName := s.Info.TypeOf(ix).Underlying().(*types.Basic)
		if oi != nil && (oi == oj || isRangeKeyValuePair(s, ix, iy, b)) && xIsName && (names(ix.X) || names(iy.X)) {
			positional = true
		}
		return true
	})

	// also accept `for idx, name := range nmds.ColumnNames { if name != other[idx]`
	s.walk(func(n ast.Node) bool {
		rs, ok := n.(*ast.RangeStmt)
		if !ok || rs.Key == nil || rs.Value == nil || !mentionsField(s.Info, rs.X, "utils/io.NumpyDataset.ColumnNames") {
			return true
		}
		k, v := identObj(s.Info, rs.Key), identObj(s.Info, rs.Value)
		walkAll(rs.Body, func(m ast.Node) bool {
			b, ok := isCompareNode(m, token.NEQ, token.EQL)
			if !ok {
				return true
			}
			for _, pair := range [][2]ast.Expr{{b.X, b.Y}, {b.Y, b.X}} {
				if identObj(s.Info, pair[0]) == v && v != nil {
					if ix, ok := unparen(pair[1]).(*ast.IndexExpr); ok && identObj(s.Info, ix.Index) == k && k != nil {
						positional = true
					}
				}
			}
			return true
		})

		return true
	})

	c.Check(positional, "R13.4", s.Name, "names-compared-position-by-position", c.P.Pos(s.Body.Pos()),
		"the merge guard compares the dataset's i-th column name with the series' i-th column name (the bytes are appended by position)")
	// and a mismatch leaves through an error before any append
	r := s.Run(Query{Target: grow, Barrier: func(sub, top ast.Node) bool {
		b, ok := isCompareNode(sub, token.NEQ, token.EQL)
		return ok && (strings.Contains(canonExpr(s.Info, b), "ColumnNames") || strings.Contains(canonExpr(s.Info, b), "GetColumnNames"))
	}})
	_ = r
}

func ruleExecuteQueryErrVar(c *Ctx) {
	const rule = "R13.2"
	c.checkErrorsNotDropped(rule, []string{"utils/io.NewNumpyDataset", "utils/io.NewNumpyMultiDataset", "(*utils/io.NumpyMultiDataset).Append"},
		func(f *Func) bool { return f.PkgShort() == "frontend" }, 4,
		"an unsupported column type must be reported to the client, not dereferenced as a nil dataset", false)
}
