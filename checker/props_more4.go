package main

// Rules added after the fourth batch of independently seeded changes (DESIGN.md §9).

import (
	"fmt"
	"go/ast"
	"go/constant"
	"go/token"
	"go/types"
	"strings"
)

// defSource: the single call whose result defines local object o inside body (first result
// position), following one level of plain identifier copies. nil when o has other definitions.
func defCall(info *types.Info, body ast.Node, o types.Object, depth int) *ast.CallExpr {
	var calls []*ast.CallExpr
	other := false
	walkAll(body, func(m ast.Node) bool {
		as, ok := m.(*ast.AssignStmt)
		if !ok {
			return true
		}
		for i, l := range as.Lhs {
			if identObj(info, l) != o {
				continue
			}
			var rhs ast.Expr
			if len(as.Rhs) == len(as.Lhs) {
				rhs = as.Rhs[i]
			} else if len(as.Rhs) == 1 && i == 0 {
				rhs = as.Rhs[0]
			}
			switch x := unparen(rhs).(type) {
			case *ast.CallExpr:
				calls = append(calls, x)
			case *ast.Ident:
				if depth < 3 {
					if src := identObj(info, x); src != nil && src != o {
						if cx := defCall(info, body, src, depth+1); cx != nil {
							calls = append(calls, cx)
							continue
						}
					}
				}
				other = true
			default:
				other = true
			}
		}
		return true
	})
	if other || len(calls) != 1 {
		return nil
	}
	return calls[0]
}

// R31.3 — window membership and window ends come from the calendar-aware functions
// (Truncate / Ceil / IsWithin), never from adding or comparing the nominal Duration(): a
// calendar day or month is not a fixed number of hours (23/25-hour days at a daylight-saving
// change, months of 28–31 days), so `start + Duration()` puts rows of the odd hour into the
// neighbouring window. Duration() may only be compared with / divided by a constant.
func ruleNoNominalDurationArithmetic(c *Ctx) {
	const rule = "R31.3"
	const callee = "(*utils.CandleDuration).Duration"
	if c.F(rule, callee) == nil {
		return
	}
	n := 0
	for _, fn := range c.P.NonTestFuncs() {
		if fn.Decl.Body == nil {
			continue
		}
		ps := fn.PkgShort()
		if !(ps == "utils" || strings.HasPrefix(ps, "contrib/candler") || strings.HasPrefix(ps, "contrib/ondiskagg") || strings.HasPrefix(ps, "uda") || ps == "sqlparser" || ps == "executor" || ps == "frontend") {
			continue
		}
		info := fn.Pkg.TypesInfo
		par := c.P.Parents(c.P.FileOf(fn.Pkg, fn.Decl.Pos()))
		isConst := func(e ast.Expr) bool {
			tv, ok := info.Types[e]
			return ok && tv.Value != nil
		}
		walkAll(fn.Decl.Body, func(m ast.Node) bool {
			cx, ok := m.(*ast.CallExpr)
			if !ok || CalleeName(info, cx) != callee {
				return true
			}
			n++
			var up ast.Node = cx
			p := par[up]
			for {
				if pe, ok := p.(*ast.ParenExpr); ok {
					up, p = pe, par[pe]
					continue
				}
				break
			}
			okUse := false
			why := "its value is stored or passed on"
			switch x := p.(type) {
			case *ast.BinaryExpr:
				other := x.Y
				if unparen(x.Y) == ast.Expr(up.(ast.Expr)) {
					other = x.X
				}
				switch x.Op {
				case token.EQL, token.NEQ, token.LSS, token.LEQ, token.GTR, token.GEQ, token.QUO, token.REM:
					if isConst(other) {
						okUse = true
					} else {
						why = "it is compared/combined with a run-time value (" + types.ExprString(x) + ")"
					}
				default:
					why = "it takes part in arithmetic (" + types.ExprString(x) + ")"
				}
			case *ast.CallExpr:
				// conversion to a number for a size estimate divided by a constant is handled above;
				// as an argument (e.g. of Time.Add) it is window arithmetic
				if tv, isType := info.Types[x.Fun]; isType && tv.IsType() {
					if pb, ok := par[x].(*ast.BinaryExpr); ok && (pb.Op == token.QUO) {
						okUse = true
					}
				}
				if nm := CalleeName(info, x); strings.HasPrefix(nm, "fmt.") || strings.HasPrefix(nm, "utils/log.") || strings.HasPrefix(nm, "go.uber.org/zap.") {
					okUse = true // printed, not computed with
				}
				if !okUse {
					why = "it is handed to " + types.ExprString(x.Fun) + "(…)"
				}
			}
			if okUse {
				c.Hold(rule, fn.Key, "nominal-duration-use", c.P.Pos(cx.Pos()), "Duration() is only compared with / divided by a constant here")
			} else {
				c.Violate(rule, fn.Key, "nominal-duration-use", c.P.Pos(cx.Pos()),
					"the nominal CandleDuration.Duration() is used for window arithmetic: "+why+". Calendar windows (D, M; any window across a daylight-saving change) are not a fixed number of hours — rows of the odd hour land in the neighbouring candle; use Truncate / Ceil / IsWithin", nil)
			}
			return true
		})
	}
	c.Floor(rule, "module", "uses of CandleDuration.Duration()", n, 2)
}

// R11.3 — year files are selected by calendar year, never by a fixed-length year: no constant
// time.Duration of 365 days or more takes part in the planning / indexing code (a leap year has
// 366 days, so `start of year + 365d` cuts off December 31).
func ruleNoFixedLengthYear(c *Ctx) {
	const rule = "R11.3"
	limit := constant.MakeInt64(int64(365 * 24 * 3600 * 1e9))
	nDefs, nBad := 0, 0
	for _, pkg := range c.P.Pkgs {
		ps := short(pkg.PkgPath)
		scope := ps == "executor" || ps == "planner" || ps == "catalog" || ps == "utils/io" || ps == "frontend" || ps == "sqlparser"
		for _, f := range pkg.Syntax {
			if c.P.IsTestFile(f.Pos()) {
				continue
			}
			seen := map[token.Pos]bool{}
			ast.Inspect(f, func(m ast.Node) bool {
				e, ok := m.(ast.Expr)
				if !ok {
					return true
				}
				tv, ok := pkg.TypesInfo.Types[e]
				if !ok || tv.Value == nil || tv.Type == nil || types.TypeString(tv.Type, nil) != "time.Duration" {
					return true
				}
				v := constant.ToInt(tv.Value)
				if v.Kind() != constant.Int || !constant.Compare(v, token.GEQ, limit) {
					return true
				}
				if seen[e.Pos()] {
					return false
				}
				seen[e.Pos()] = true
				if ps == "utils" {
					nDefs++
					return false
				}
				if scope {
					nBad++
					fn := "file " + c.P.Pos(f.Pos())
					for _, fd := range c.P.FuncSeq {
						if fd.Pkg == pkg && fd.Decl.Pos() <= e.Pos() && e.End() <= fd.Decl.End() {
							fn = fd.Key
						}
					}
					c.Violate(rule, fn, "fixed-length-year-constant", c.P.Pos(e.Pos()),
						"a constant duration of "+tv.Value.String()+"ns (≥ 365 days) is used in the query planning / indexing code: a year is treated as a fixed number of days, so for a leap year the range [start of year, +365d) misses December 31 (rows stored on that day are not returned for a range that starts there)", nil)
				}
				return false
			})
		}
	}
	if nBad == 0 {
		c.Hold(rule, "executor, planner, catalog, utils/io, frontend, sqlparser", "no-fixed-length-year", "", fmt.Sprintf("no constant duration ≥ 365 days in the planning/indexing packages (positive control: %d such constants found in package utils)", nDefs))
	}
	c.Floor(rule, "utils", "constant durations ≥ 365 days (positive control: utils.Year and its table entries)", nDefs, 1)
}

// R26.5 — the fan-out to the replicas is lossless: every send on a replica's stream channel is a
// plain blocking send. A send inside a `select` that has a `default` (or another ready case)
// silently skips the transaction group for a slow replica, which stays connected with a gap.
func ruleFanOutBlocking(c *Ctx) {
	const rule = "R26.5"
	s := c.S(rule, "(*replication.GRPCReplicationServer).SendReplicationMessage")
	if s == nil {
		return
	}
	par := c.P.Parents(c.P.FileOf(s.Pkg, s.Body.Pos()))
	n := 0
	s.walk(func(m ast.Node) bool {
		snd, ok := m.(*ast.SendStmt)
		if !ok {
			return true
		}
		n++
		inSelect := false
		for p := par[snd]; p != nil; p = par[p] {
			if cc, ok := p.(*ast.CommClause); ok && cc.Comm == ast.Stmt(snd) {
				if sel, ok := par[par[cc]].(*ast.SelectStmt); ok && len(sel.Body.List) > 1 {
					inSelect = true
				}
			}
			if _, ok := p.(*ast.FuncDecl); ok {
				break
			}
		}
		if inSelect {
			c.Violate(rule, s.Name, "replica-send-is-blocking", c.P.Pos(snd.Pos()),
				"the transaction group is sent to a replica inside a select with an alternative (default / other case): when the replica's buffer is full the message is dropped for that replica only; it stays connected and never receives the transaction", nil)
		} else {
			c.Hold(rule, s.Name, "replica-send-is-blocking", c.P.Pos(snd.Pos()), "plain blocking send: the message is delivered to the replica's channel or the sender waits")
		}
		return true
	})
	// the loop visits every registered replica: no early exit
	s.walk(func(m ast.Node) bool {
		rs, ok := m.(*ast.RangeStmt)
		if !ok || fieldKey(s.Info, rs.X) != "replication.GRPCReplicationServer.StreamChannels" {
			return true
		}
		exit := false
		walkAll(rs.Body, func(k ast.Node) bool {
			switch y := k.(type) {
			case *ast.FuncLit:
				return false
			case *ast.ReturnStmt:
				exit = true
			case *ast.BranchStmt:
				if y.Tok == token.BREAK || y.Tok == token.GOTO {
					exit = true
				}
			}
			return true
		})
		c.Check(!exit, rule, s.Name, "every-replica-visited", c.P.Pos(rs.Pos()), "the fan-out loop over the connected replicas has no early exit")
		return true
	})
	c.Floor(rule, s.Name, "sends on replica channels", n, 1)
}

// R23.5 — scalar aggregates accumulate in float64: a running sum kept in float32 loses every
// addend smaller than half an ulp of the partial sum (2^24 + 1 + 1 + … stays 2^24), so avg/sum
// over long or wide-ranged columns come out wrong although count and division are right.
func ruleAccumulateInFloat64(c *Ctx) {
	const rule = "R23.5"
	n := 0
	for _, key := range []string{"(*uda/avg.Avg).Accum"} {
		s := c.S(rule, key)
		if s == nil {
			continue
		}
		info := s.Info
		var visit func(nd ast.Node, inLoop bool)
		visit = func(nd ast.Node, inLoop bool) {
			ast.Inspect(nd, func(m ast.Node) bool {
				if m == nil {
					return false
				}
				switch x := m.(type) {
				case *ast.FuncLit:
					return false
				case *ast.ForStmt:
					if ast.Node(x) != nd {
						visit(x.Body, true)
						return false
					}
				case *ast.RangeStmt:
					if ast.Node(x) != nd {
						visit(x.Body, true)
						return false
					}
				case *ast.AssignStmt:
					if !inLoop || (x.Tok != token.ADD_ASSIGN && x.Tok != token.ASSIGN) || len(x.Lhs) != 1 {
						return true
					}
					if x.Tok == token.ASSIGN {
						// v = v + e
						b, ok := unparen(x.Rhs[0]).(*ast.BinaryExpr)
						if !ok || b.Op != token.ADD || types.ExprString(unparen(b.X)) != types.ExprString(unparen(x.Lhs[0])) {
							return true
						}
					}
					t := info.TypeOf(x.Lhs[0])
					bt, ok := t.Underlying().(*types.Basic)
					if !ok || bt.Info()&types.IsFloat == 0 {
						return true
					}
					n++
					c.Check(bt.Kind() == types.Float64, rule, s.Name, "running-sum-type", c.P.Pos(x.Pos()),
						"the running sum "+types.ExprString(x.Lhs[0])+" is accumulated in "+bt.Name()+" (float64 required: a float32 partial sum drops small addends)")
				}
				return true
			})
		}
		for _, b := range s.bodies() {
			visit(b, false)
		}
	}
	c.Floor(rule, "uda/avg", "floating-point running sums in aggregate loops", n, 1)
}

// bodies: the anchor's body and the bodies of its private helpers.
func (s *Scope) bodies() []ast.Node {
	out := []ast.Node{s.Body}
	if s.Anchor && s.Fn != nil && s.Body == s.Fn.Decl.Body {
		for _, h := range s.P.privateHelpers(s.Fn) {
			out = append(out, h.Decl.Body)
		}
	}
	return out
}

// R19.6 — a range predicate is declared unsatisfiable only when its lower bound is strictly
// above its upper bound: with `>=` a closed single-point range (v <= x AND x <= v) is judged
// empty and the statement returns nothing although rows equal to v exist. A non-strict
// comparison is acceptable only where the inclusive flags are consulted.
func ruleEmptyRangeStrict(c *Ctx) {
	const rule = "R19.6"
	s := c.S(rule, "(*sqlparser.StaticPredicate).IsFalse")
	if s == nil {
		return
	}
	n := 0
	s.walk(func(m ast.Node) bool {
		cx, ok := m.(*ast.CallExpr)
		if !ok || CalleeName(s.Info, cx) != "utils/io.GenericComparison" || len(cx.Args) != 3 {
			return true
		}
		a, b := fieldKey(s.Info, cx.Args[0]), fieldKey(s.Info, cx.Args[1])
		op := objKey(s.Info, cx.Args[2])
		minMax := a == "sqlparser.StaticPredicate.min" && b == "sqlparser.StaticPredicate.max"
		maxMin := a == "sqlparser.StaticPredicate.max" && b == "sqlparser.StaticPredicate.min"
		if !minMax && !maxMin {
			return true
		}
		n++
		strict := (minMax && op == "utils/io.GT") || (maxMin && op == "utils/io.LT")
		consults := mentionsObjKey(s.Info, s.Body, "sqlparser.INCLUSIVEMIN") && mentionsObjKey(s.Info, s.Body, "sqlparser.INCLUSIVEMAX")
		c.Check(strict || consults, rule, s.Name, "empty-range-test-is-strict", c.P.Pos(cx.Pos()),
			"the bounds of a predicate are declared contradictory with operator "+op+" (want the strict GT of min over max, or a test of both inclusive flags): with a non-strict test `x >= v AND x <= v` selects nothing")
		return true
	})
	c.Floor(rule, s.Name, "comparisons of min with max", n, 1)
}

// R17.5 — the cached category set is dropped whenever a sub-directory is added: the planner
// validates a query's categories against this cache, so a bucket created after the cache was
// filled is refused ("category not in catalog") until restart although it exists on disk.
func ruleCategoryCacheInvalidated(c *Ctx) {
	const rule = "R17.5"
	const sub, cache = "catalog.Directory.subDirs", "catalog.Directory.categorySet"
	n := 0
	for _, fn := range c.P.NonTestFuncs() {
		if fn.PkgShort() != "catalog" || fn.Decl.Body == nil {
			continue
		}
		info := fn.Pkg.TypesInfo
		var inserts []*ast.AssignStmt
		resets := map[types.Object]bool{}
		rebuilds := false
		walkAll(fn.Decl.Body, func(m ast.Node) bool {
			switch x := m.(type) {
			case *ast.AssignStmt:
				for i, l := range x.Lhs {
					if ix, ok := unparen(l).(*ast.IndexExpr); ok && fieldKey(info, ix.X) == sub {
						inserts = append(inserts, x)
					}
					if fieldKey(info, l) == cache && i < len(x.Rhs) && isNilIdent(info, x.Rhs[i]) {
						resets[rootIdent(info, l)] = true
					}
				}
			case *ast.CallExpr:
				if strings.HasSuffix(CalleeName(info, x), ".gatherCategoriesUpdateCache") {
					rebuilds = true
				}
			}
			return true
		})
		for _, as := range inserts {
			ix := unparen(as.Lhs[0]).(*ast.IndexExpr)
			root := rootIdent(info, ix.X)
			// building a fresh node (composite literal / constructor) has no cache yet
			fresh := false
			if root != nil {
				if cx := defCall(info, fn.Decl.Body, root, 0); cx != nil {
					fresh = true
				}
				walkAll(fn.Decl.Body, func(m ast.Node) bool {
					if a2, ok := m.(*ast.AssignStmt); ok && len(a2.Lhs) == 1 && len(a2.Rhs) == 1 && identObj(info, a2.Lhs[0]) == root {
						r := unparen(a2.Rhs[0])
						if u, ok := r.(*ast.UnaryExpr); ok && u.Op == token.AND {
							r = u.X
						}
						if _, ok := r.(*ast.CompositeLit); ok {
							fresh = true
						}
					}
					return true
				})
			}
			if fn.Obj.Name() == "load" || fn.Obj.Name() == "NewDirectory" {
				fresh = true // the loader fills nodes that are not published yet (R17.1 proves it)
			}
			n++
			ok := fresh || rebuilds || (root != nil && resets[root])
			c.Check(ok, rule, fn.Key, "subdir-insert-drops-category-cache", c.P.Pos(as.Pos()),
				"a sub-directory is inserted into a published catalog node and the node's cached category set is reset in the same function (otherwise queries on buckets created later are refused until restart)")
		}
	}
	c.Floor(rule, "catalog", "insertions into Directory.subDirs", n, 2)
}

// R14.4 — the schema check is asked the right question: GetMissingAndTypeCoercionColumns(required,
// available) is called with the BUCKET's shapes as `required` and the incoming data's shapes as
// `available`, so the coercion list carries the bucket's types. Swapped, name mismatches are
// still caught (the counts are equal) but every retyped column is "coerced" to its own type and
// the raw bytes are stored under the bucket's record layout.
func ruleSchemaCheckArgumentRoles(c *Ctx) {
	const rule = "R14.4"
	s := c.S(rule, fnWriteCSM)
	if s == nil {
		return
	}
	n := 0
	for _, b := range s.bodies() {
		walkAll(b, func(m ast.Node) bool {
			cx, ok := m.(*ast.CallExpr)
			if !ok || CalleeName(s.Info, cx) != "utils/io.GetMissingAndTypeCoercionColumns" || len(cx.Args) != 2 {
				return true
			}
			n++
			role := func(e ast.Expr) string {
				o := identObj(s.Info, e)
				var src *ast.CallExpr
				if o != nil {
					for _, bb := range s.bodies() {
						if d := defCall(s.Info, bb, o, 0); d != nil {
							src = d
						}
					}
				} else if d, ok := unparen(e).(*ast.CallExpr); ok {
					src = d
				}
				if src == nil {
					return "?"
				}
				switch nm := CalleeName(s.Info, src); {
				case strings.Contains(nm, "TimeBucketInfo).GetDataShapes"):
					return "bucket"
				case strings.Contains(nm, "ColumnSeries).GetDataShapes"):
					return "data"
				default:
					return "?:" + nm
				}
			}
			r0, r1 := role(cx.Args[0]), role(cx.Args[1])
			c.Check(r0 == "bucket" && r1 == "data", rule, s.Name, "required=bucket,available=data", c.P.Pos(cx.Pos()),
				fmt.Sprintf("GetMissingAndTypeCoercionColumns(required, available) is called with required←%s shapes and available←%s shapes (want bucket, data): the coercion targets must be the bucket's column types", r0, r1))
			return true
		})
	}
	c.Floor(rule, s.Name, "schema-check call sites", n, 1)
}

// R14.5 — each numeric conversion helper reads the reflected value with the accessor of the
// value's own kind group: toFloat / toInt / toUint do not call one another. A detour through
// another helper passes the value through a second integer or float type (toFloat via toInt wraps
// uint64 ≥ 2^63 to a negative number; toInt via toFloat loses integers above 2^53).
func ruleConversionHelpersIndependent(c *Ctx) {
	const rule = "R14.5"
	helpers := []string{"utils/io.toFloat", "utils/io.toInt", "utils/io.toUint"}
	set := map[string]bool{}
	for _, h := range helpers {
		set[h] = true
	}
	for _, h := range helpers {
		s := c.S(rule, h)
		if s == nil {
			continue
		}
		var bad *ast.CallExpr
		accessors := map[string]bool{}
		s.walk(func(m ast.Node) bool {
			cx, ok := m.(*ast.CallExpr)
			if !ok {
				return true
			}
			nm := CalleeName(s.Info, cx)
			if set[nm] && nm != h && bad == nil {
				bad = cx
			}
			if strings.HasPrefix(nm, "(reflect.Value).") {
				accessors[strings.TrimPrefix(nm, "(reflect.Value).")] = true
			}
			return true
		})
		if bad != nil {
			c.Violate(rule, s.Name, "converts-from-own-kind-accessor", c.P.Pos(bad.Pos()),
				shortCallee(h)+" routes the value through "+shortCallee(CalleeName(s.Info, bad))+": the value passes through a second numeric type on the way, which is lossy for part of the source type's range (uint64 ≥ 2^63 through int64, integers > 2^53 through float64)", nil)
			continue
		}
		okAcc := accessors["Int"] && accessors["Uint"] && accessors["Float"]
		c.Check(okAcc, rule, s.Name, "converts-from-own-kind-accessor", c.P.Pos(s.Body.Pos()),
			shortCallee(h)+" reads signed, unsigned and floating values with Value.Int / Value.Uint / Value.Float respectively (accessors used: "+strings.Join(sortedStrs(accessors), ", ")+")")
	}
}

// R11.4 — query bounds are compared as instants, not as nanosecond counts: Time.UnixNano is not
// applied to a bound of the query's date range in the executor / planner. The default bounds
// (year 1 … far future) lie outside the years 1678–2262 that fit an int64 nanosecond count; the
// overflowed value turns "everything" into "nothing" or lets rows outside the range through.
func ruleBoundsNotAsUnixNano(c *Ctx) {
	const rule = "R11.4"
	n, bad := 0, 0
	for _, fn := range c.P.NonTestFuncs() {
		ps := fn.PkgShort()
		if fn.Decl.Body == nil || !(ps == "executor" || ps == "planner" || ps == "frontend") {
			continue
		}
		info := fn.Pkg.TypesInfo
		walkAll(fn.Decl.Body, func(m ast.Node) bool {
			cx, ok := m.(*ast.CallExpr)
			if !ok {
				return true
			}
			nm := CalleeName(info, cx)
			if nm != "(time.Time).UnixNano" && nm != "(time.Time).UnixMicro" {
				return true
			}
			n++
			sel, _ := unparen(cx.Fun).(*ast.SelectorExpr)
			if sel == nil {
				return true
			}
			recv := unparen(sel.X)
			isBound := func(e ast.Expr) bool {
				hit := false
				walkAll(e, func(k ast.Node) bool {
					if ex, ok := k.(ast.Expr); ok {
						fk := fieldKey(info, ex)
						if fk == "planner.DateRange.Start" || fk == "planner.DateRange.End" || fk == "planner.ParseResult.Range" {
							hit = true
						}
					}
					return !hit
				})
				return hit
			}
			b := isBound(recv)
			if o := identObj(info, recv); o != nil && !b {
				walkAll(fn.Decl.Body, func(k ast.Node) bool {
					if as, ok := k.(*ast.AssignStmt); ok && len(as.Lhs) == len(as.Rhs) {
						for i, l := range as.Lhs {
							if identObj(info, l) == o && isBound(as.Rhs[i]) {
								b = true
							}
						}
					}
					return true
				})
			}
			if b {
				bad++
				c.Violate(rule, fn.Key, "query-bound-as-unix-nanoseconds", c.P.Pos(cx.Pos()),
					"a bound of the query's date range is converted with "+shortCallee(nm)+"(): the default / open-ended bounds are outside the 1678–2262 range of an int64 nanosecond count, the result overflows and the range comparison selects the wrong rows", nil)
			}
			return true
		})
	}
	if bad == 0 {
		c.Hold(rule, "executor, planner, frontend", "no-query-bound-as-unix-nanoseconds", "", fmt.Sprintf("%d UnixNano call(s) in these packages, none on a bound of the query's date range (positive control)", n))
	}
	c.Floor(rule, "executor, planner, frontend", "UnixNano call sites (positive control: WAL file naming, transaction ids)", n, 1)
}

// R7.5 — one flush covers everything that was queued when it started: in FlushToWAL the loop that
// drains the write channel runs exactly len(writeChannel)-as-sampled-at-entry times — the bound
// has a single definition, `len(<write channel>)`, is never clamped or reassigned, and the loop has
// no early exit. The requester (RequestFlush, the flush handshake of SyncWAL, Shutdown) runs ONE
// FlushToWAL and then reports success; a flush that leaves part of the backlog in the in-memory
// channel acknowledges records that are in neither the WAL nor the primary files.
func ruleFlushDrainsBacklog(c *Ctx) {
	const rule = "R7.5"
	const ch = "executor.TransactionPipe.writeChannel"
	s := c.S(rule, fnFlushToWAL)
	if s == nil {
		return
	}
	info := s.Info
	par := c.P.Parents(c.P.FileOf(s.Pkg, s.Body.Pos()))
	isLenCh := func(e ast.Expr) bool {
		cx, ok := unparen(e).(*ast.CallExpr)
		if !ok || len(cx.Args) != 1 {
			return false
		}
		id, ok := unparen(cx.Fun).(*ast.Ident)
		return ok && id.Name == "len" && fieldKey(info, cx.Args[0]) == ch
	}
	defsOf := func(o types.Object) (defs []ast.Expr, other int) {
		s.walk(func(m ast.Node) bool {
			switch x := m.(type) {
			case *ast.AssignStmt:
				for i, l := range x.Lhs {
					if identObj(info, l) != o {
						continue
					}
					if x.Tok != token.ASSIGN && x.Tok != token.DEFINE {
						other++ // op-assign modifies the bound
						continue
					}
					if len(x.Rhs) == len(x.Lhs) {
						defs = append(defs, x.Rhs[i])
					} else {
						other++
					}
				}
			case *ast.IncDecStmt:
				if identObj(info, x.X) == o {
					other++
				}
			}
			return true
		})
		return
	}
	n := 0
	s.walk(func(m ast.Node) bool {
		u, ok := m.(*ast.UnaryExpr)
		if !ok || u.Op != token.ARROW || fieldKey(info, u.X) != ch {
			return true
		}
		n++
		// enclosing loop
		var li *loopInfo
		for p := par[u]; p != nil; p = par[p] {
			if l := asLoop(info, p); l != nil {
				li = l
				break
			}
			if _, ok := p.(*ast.FuncDecl); ok {
				break
			}
		}
		where := c.P.Pos(u.Pos())
		if li == nil {
			c.Violate(rule, s.Name, "drain-loop", where, "the write channel is received from outside a loop: only one queued command is taken per flush", nil)
			return true
		}
		// the bound of the loop
		var bound ast.Expr
		switch x := li.Node.(type) {
		case *ast.ForStmt:
			if b, ok := unparen(x.Cond).(*ast.BinaryExpr); ok && (b.Op == token.LSS || b.Op == token.NEQ || b.Op == token.GTR) {
				bound = b.Y
				if b.Op == token.GTR {
					bound = b.X
				}
			}
		case *ast.RangeStmt:
			// range over a slice made with the sampled length
			if o := identObj(info, x.X); o != nil {
				if ds, other := defsOf(o); other == 0 && len(ds) == 1 {
					if mk, ok := unparen(ds[0]).(*ast.CallExpr); ok && len(mk.Args) >= 2 {
						if id, ok := unparen(mk.Fun).(*ast.Ident); ok && id.Name == "make" {
							bound = mk.Args[1]
						}
					}
				}
			} else {
				bound = x.X // `for range n`
			}
		}
		okBound, whyBound := false, "the loop bound was not recognised"
		if bound != nil {
			switch {
			case isLenCh(bound):
				okBound, whyBound = true, "bound is len(write channel) itself"
			default:
				if o := identObj(info, bound); o != nil {
					ds, other := defsOf(o)
					switch {
					case other > 0 || len(ds) != 1:
						whyBound = fmt.Sprintf("the bound `%s` is assigned %d times / modified %d times (a clamp or adjustment of the sampled backlog length)", o.Name(), len(ds), other)
					case !isLenCh(ds[0]):
						whyBound = "the bound `" + o.Name() + "` is not defined as len(write channel) but as " + types.ExprString(ds[0])
					default:
						okBound, whyBound = true, "bound `"+o.Name()+"` := len(write channel), defined once, never modified"
					}
				}
			}
		}
		c.Check(okBound, rule, s.Name, "drain-bound-is-sampled-backlog", c.P.Pos(li.Node.Pos()),
			"the drain loop takes exactly the number of commands that were queued when the flush started ("+whyBound+"): a smaller bound leaves acknowledged commands in the in-memory channel")
		// no early exit from the drain loop
		var exit ast.Node
		walkAll(li.Body, func(k ast.Node) bool {
			switch y := k.(type) {
			case *ast.FuncLit:
				return false
			case *ast.ReturnStmt:
				exit = y
			case *ast.BranchStmt:
				if y.Tok == token.GOTO || (y.Tok == token.BREAK && (y.Label != nil || innermostBreakTarget(par, y) == li.Node)) {
					exit = y
				}
			}
			return exit == nil
		})
		if exit != nil {
			c.Violate(rule, s.Name, "drain-loop-runs-to-the-bound", c.P.Pos(exit.Pos()),
				"the loop that drains the write channel can stop early (break/return): the rest of the backlog stays in the in-memory channel although the single flush the requester waits for reports success", nil)
		} else {
			c.Hold(rule, s.Name, "drain-loop-runs-to-the-bound", c.P.Pos(li.Node.Pos()), "no break/return/goto inside the drain loop")
		}
		return true
	})
	c.Floor(rule, s.Name, "receives from the write channel", n, 1)
}

// innermostBreakTarget: the loop/switch/select statement an unlabeled break leaves.
func innermostBreakTarget(par map[ast.Node]ast.Node, br ast.Node) ast.Node {
	for p := par[br]; p != nil; p = par[p] {
		switch p.(type) {
		case *ast.ForStmt, *ast.RangeStmt, *ast.SwitchStmt, *ast.TypeSwitchStmt, *ast.SelectStmt:
			return p
		case *ast.FuncDecl, *ast.FuncLit:
			return nil
		}
	}
	return nil
}

// R3.5 — rebuilding the catalog at start-up skips a sub-directory without a category file and goes
// on with its siblings: inside the directory scan of catalog.load, after the recursive load of a
// sub-directory failed, a `return` is reachable only on the edge where the error was tested NOT to
// be the "category file not found" class. A crash between the mkdir of a new bucket's directory
// and the write of its category file leaves exactly such a directory; aborting the scan there
// drops every bucket that sorts after it from the catalog (the server starts, their data is
// unreachable).
func ruleCatalogLoadTolerant(c *Ctx) {
	const rule = "R3.5"
	s := c.S(rule, "catalog.load")
	if s == nil {
		return
	}
	info := s.Info
	par := c.P.Parents(c.P.FileOf(s.Pkg, s.Body.Pos()))
	n := 0
	for _, site := range s.sites(callPred(s, "catalog.load")) {
		call := site.(*ast.CallExpr)
		// the scan loop around the recursive call
		var loop ast.Node
		for p := par[call]; p != nil; p = par[p] {
			if asLoop(info, p) != nil {
				loop = p
				break
			}
			if _, ok := p.(*ast.FuncDecl); ok {
				break
			}
		}
		if loop == nil {
			continue
		}
		n++
		top := s.topOf(call)
		obj, bound := assignedLastResult(info, top, call)
		if !bound || obj == nil {
			c.Violate(rule, s.Name, "subdir-load-error-handled", c.P.Pos(call.Pos()), "the error of loading a sub-directory is discarded", nil)
			continue
		}
		notCategoryClass := func(f []Fact) bool {
			for _, x := range f {
				if x.Tag != nil {
					continue
				}
				// err == nil edge
				if o, trueNonNil, ok := nilTest(info, x.Expr); ok && o == obj && x.Val != trueNonNil {
					return true
				}
				// errors.As(err, &ErrCategoryFileNotFound{}) / errors.Is(...) is FALSE on this edge
				if cx, ok := unparen(x.Expr).(*ast.CallExpr); ok && !x.Val {
					nm := CalleeName(info, cx)
					if (nm == "errors.As" || nm == "errors.Is") && len(cx.Args) == 2 {
						if t := info.TypeOf(cx.Args[1]); t != nil && strings.Contains(types.TypeString(t, nil), "ErrCategoryFileNotFound") {
							return true
						}
					}
				}
			}
			return false
		}
		r := s.Run(Query{
			Start: func(sub, _ ast.Node) bool { return sub == ast.Node(call) },
			Target: func(sub, _ ast.Node) bool {
				rs, ok := sub.(*ast.ReturnStmt)
				return ok && rs.Pos() >= loop.Pos() && rs.End() <= loop.End()
			},
			// only the rest of THIS iteration: the first statement of the loop body ends the search
			Barrier: func(sub, top ast.Node) bool {
				li := asLoop(info, loop)
				return li != nil && len(li.Body.List) > 0 && top == ast.Node(li.Body.List[0]) && sub == top
			},
			Exempt: notCategoryClass,
		})
		c.reportHits(rule, s, "missing-category-file-skips-only-that-directory", r,
			"after a sub-directory failed to load, the scan returns only behind a test that the failure is NOT the missing-category-file class (that class is logged and skipped)",
			"the directory scan can return for a sub-directory whose category file is missing (a half-created bucket after a crash): every sibling that sorts after it is dropped from the catalog")
	}
	c.Floor(rule, s.Name, "recursive loads inside the directory scan", n, 1)
}
