package main

import (
	"go/ast"
	"go/types"
	"strings"
)

// R30.2 — one time-zone source for every year origin used by the slot mapping.
func ruleOneTimezoneSource(c *Ctx) {
	const rule = "R30.2"
	exceptions := map[string]string{
		"utils/io.nanosecondsInYear": "only the LENGTH of the year is computed (end − start in the same zone); it does not place an instant",
	}
	// locOK: the location expression denotes the configured zone — directly, as the Location()
	// of a time converted with ToSystemTimezone, or as a parameter whose every caller passes
	// such an expression (a start-of-year helper that takes the zone as an argument).
	var locOK func(fn *Func, loc ast.Expr, depth int) bool
	locOK = func(fn *Func, loc ast.Expr, depth int) bool {
		info := fn.Pkg.TypesInfo
		loc = unparen(loc)
		if strings.HasSuffix(fieldKey(info, loc), ".Timezone") && mentionsObjKey(info, loc, "utils.InstanceConfig") {
			return true
		}
		if lc, ok := loc.(*ast.CallExpr); ok && CalleeName(info, lc) == "(time.Time).Location" {
			sel, _ := unparen(lc.Fun).(*ast.SelectorExpr)
			if sel == nil {
				return false
			}
			o := identObj(info, sel.X)
			if o == nil {
				return false
			}
			ok := false
			walkAll(fn.Decl.Body, func(k ast.Node) bool {
				if as, isAs := k.(*ast.AssignStmt); isAs && len(as.Lhs) == 1 && len(as.Rhs) == 1 && identObj(info, as.Lhs[0]) == o {
					if cx, isC := unparen(as.Rhs[0]).(*ast.CallExpr); isC && CalleeName(info, cx) == "utils/io.ToSystemTimezone" {
						ok = true
					}
				}
				return true
			})
			return ok
		}
		if depth >= 3 {
			return false
		}
		// a parameter: every caller must pass the configured zone
		if id, ok := loc.(*ast.Ident); ok {
			raw := info.ObjectOf(id)
			sig := fn.Obj.Type().(*types.Signature)
			for i := 0; i < sig.Params().Len(); i++ {
				if paramObj(fn, i) != raw {
					continue
				}
				sites := 0
				for _, e := range c.P.CG().In[fn.Key] {
					if c.P.IsTestFile(e.From.Decl.Pos()) {
						continue
					}
					if e.Kind != "static" || e.Site == nil || i >= len(e.Site.Args) {
						return false
					}
					sites++
					if !locOK(e.From, e.Site.Args[i], depth+1) {
						return false
					}
				}
				return sites > 0
			}
		}
		return false
	}
	n, conform := 0, 0
	for _, fn := range c.P.NonTestFuncs() {
		ps := fn.PkgShort()
		if ps != "utils/io" && ps != "executor" && ps != "planner" && ps != "catalog" {
			continue
		}
		if fn.Decl.Body == nil {
			continue
		}
		info := fn.Pkg.TypesInfo
		walkAll(fn.Decl.Body, func(m ast.Node) bool {
			call, ok := m.(*ast.CallExpr)
			if !ok || CalleeName(info, call) != "time.Date" || len(call.Args) != 8 {
				return true
			}

			if objKey(info, call.Args[1]) != "time.January" {
				return true
			}
			for i, a := range call.Args[2:7] {
				v, isC := constInt(info, a)
				if !isC || (i == 0 && v != 1) || (i > 0 && v != 0) {
					return true
				}
			}
			n++
			loc := unparen(call.Args[7])
			canon := canonExpr(info, loc)
			construct := "year-origin-location:" + canon
			pos := c.P.Pos(call.Pos())
			switch {
			case strings.HasSuffix(fieldKey(info, loc), ".Timezone") && mentionsObjKey(info, loc, "utils.InstanceConfig"):
				conform++
				c.Hold(rule, fn.Key, construct, pos, "year origin in the configured zone (utils.InstanceConfig.Timezone)")
			case func() bool {
				lc, ok := loc.(*ast.CallExpr)
				return ok && CalleeName(info, lc) == "(time.Time).Location"
			}():

				lc := loc.(*ast.CallExpr)
				sel, _ := unparen(lc.Fun).(*ast.SelectorExpr)
				ok := false
				if sel != nil {
					if o := identObj(info, sel.X); o != nil {
						walkAll(fn.Decl.Body, func(k ast.Node) bool {
							if as, isAs := k.(*ast.AssignStmt); isAs && len(as.Lhs) == 1 && len(as.Rhs) == 1 && identObj(info, as.Lhs[0]) == o {
								if cx, isC := unparen(as.Rhs[0]).(*ast.CallExpr); isC && CalleeName(info, cx) == "utils/io.ToSystemTimezone" {
									ok = true
								}
							}
							return true
						})

					}
				}
				if ok {
					conform++
				}
				c.Check(ok, rule, fn.Key, construct, pos, "year origin in the Location() of a time converted with ToSystemTimezone")
			case exceptions[fn.Key] != "":
				c.Hold(rule, fn.Key, construct, pos, "listed exception: "+exceptions[fn.Key])
			case locOK(fn, loc, 0):
				conform++
				c.Hold(rule, fn.Key, construct, pos, "year origin in a zone parameter; every caller passes the configured zone")
			default:
				c.Violate(rule, fn.Key, construct, pos,
					"a year origin of the slot mapping is computed in "+canon+" instead of the configured time zone: with a non-UTC configuration the instant it denotes differs from the one the index was computed from (variable-length timestamps are shifted by the zone offset)", nil)
			}
			return true
		})

	}
	// floors kept low on purpose: a refactor may legitimately compute fewer year origins
	c.Floor(rule, "utils/io, executor, planner", "year-origin time.Date sites", n, 2)
	c.Floor(rule, "utils/io, executor, planner", "conforming year-origin sites", conform, 1)
}
