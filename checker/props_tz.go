package main

import (
	"go/ast"
	"strings"
)

// R30.2 — one time-zone source for every year origin used by the slot mapping.
func ruleOneTimezoneSource(c *Ctx) {
	const rule = "R30.2"
	exceptions := map[string]string{
		"utils/io.nanosecondsInYear": "only the LENGTH of the year is computed (end − start in the same zone); it does not place an instant",
	}
	n, conform := 0, 0
	for _, fn := range c.P.NonTestFuncs() {
		ps := fn.PkgShort()
		if ps != "utils/io" && ps != "executor" && ps != "planner" && ps != "catalog" {
			continue
		}
		if fn.Decl.Body == nil {
			continue
		}
		info := fn.Pkg.TypesInfo
		walkAll(fn.Decl.Body, func(m ast.Node) bool {
			call, ok := m.(*ast.CallExpr)
			if !ok || CalleeName(info, call) != "time.Date" || len(call.Args) != 8 {
				return true
			}

			if objKey(info, call.Args[1]) != "time.January" {
				return true
			}
			for i, a := range call.Args[2:7] {
				v, isC := constInt(info, a)
				if !isC || (i == 0 && v != 1) || (i > 0 && v != 0) {
					return true
				}
			}
			n++
			loc := unparen(call.Args[7])
			canon := canonExpr(info, loc)
			construct := "year-origin-location:" + canon
			pos := c.P.Pos(call.Pos())
			switch {
			case strings.HasSuffix(fieldKey(info, loc), ".Timezone") && mentionsObjKey(info, loc, "utils.InstanceConfig"):
				conform++
				c.Hold(rule, fn.Key, construct, pos, "year origin in the configured zone (utils.InstanceConfig.Timezone)")
			case func() bool {
				lc, ok := loc.(*ast.CallExpr)
				return ok && CalleeName(info, lc) == "(time.Time).Location"
			}():

				lc := loc.(*ast.CallExpr)
				sel, _ := unparen(lc.Fun).(*ast.SelectorExpr)
				ok := false
				if sel != nil {
					if o := identObj(info, sel.X); o != nil {
						walkAll(fn.Decl.Body, func(k ast.Node) bool {
							if as, isAs := k.(*ast.AssignStmt); isAs && len(as.Lhs) == 1 && len(as.Rhs) == 1 && identObj(info, as.Lhs[0]) == o {
								if cx, isC := unparen(as.Rhs[0]).(*ast.CallExpr); isC && CalleeName(info, cx) == "utils/io.ToSystemTimezone" {
									ok = true
								}
							}
							return true
						})

					}
				}
				if ok {
					conform++
				}
				c.Check(ok, rule, fn.Key, construct, pos, "year origin in the Location() of a time converted with ToSystemTimezone")
			case exceptions[fn.Key] != "":
				c.Hold(rule, fn.Key, construct, pos, "listed exception: "+exceptions[fn.Key])
			default:
				c.Violate(rule, fn.Key, construct, pos,
					"a year origin of the slot mapping is computed in "+canon+" instead of the configured time zone: with a non-UTC configuration the instant it denotes differs from the one the index was computed from (variable-length timestamps are shifted by the zone offset)", nil)
			}
			return true
		})

	}
	// floors kept low on purpose: a refactor may legitimately compute fewer year origins
	c.Floor(rule, "utils/io, executor, planner", "year-origin time.Date sites", n, 2)
	c.Floor(rule, "utils/io, executor, planner", "conforming year-origin sites", conform, 1)
}
