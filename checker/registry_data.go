package main

func init() {
	register(&Property{
		ID: "C08",
		Explanation: "Structural necessary conditions of the last-writer-wins interval map: (R8.1) interval analysis of TimeToIndex — the slot index is ≥ 1 on every return path (0 is the empty-slot marker and maps into the header; known finding: the 1D branch yields 0 on January 1); " +
			"(R8.2) the loop-carried previous-row variables that are compared together in WriteRecords are updated together in every block; (R8.3) per-file write lists are slices filled and applied in request order (no map order, no re-sorting); " +
			"(R8.4) every WriteCommand's index is io.TimeToIndex(row time) and its offset is io.IndexToOffset of that same value.",
		NotCovered: "numeric agreement of the mapping across year boundaries, DST and timeframes (C30), column type fidelity (C29), the query side's ordering.",
		Rules: []Rule{
			{"R8.1", "slot index ≥ 1 on every path", ruleSlotIndexPositive},
			{"R8.2", "paired previous-row state is updated together", rulePairedPrevState},
			{"R8.3", "per-file write order is request order", ruleWriteOrderPreserved},
			{"R8.4", "offset and index come from the one slot mapping", ruleSlotMappingUsed},
			{"R30.4", "slot → offset arithmetic is 64-bit", ruleOffsetArithmetic64},
			{"R13.5", "the chunk buffer of the scanner holds whole records", ruleReadBufferWholeRecords},
		},
	})
	register(&Property{
		ID: "C09",
		Explanation: "Structural necessary conditions for variable-length buckets: (R9.1) the result assembly in readSecondStage cannot overrun an estimated buffer (cursor copies only behind a bound established on every path, or append); " +
			"(R9.2) merged data is stably sorted by interval ticks before every write and the sorted buffer is what is written; (R9.3) every decoder of the ticks trailer uses the unsigned 32-bit primitive and Less compares uint32 < uint32; " +
			"(R9.4) framing constants agree (epoch 8, ticks/nanoseconds 4, variable record length adds 4); (R8.2) multi-year grouping state.",
		NotCovered: "timestamp precision (C10), exactly-once under crashes (C02), value fidelity.",
		Rules: []Rule{
			{"R9.1", "bounded assembly of decompressed records", ruleBoundedAssembly},
			{"R9.2", "sort before write", ruleSortBeforeWrite},
			{"R9.3", "ticks codec agreement + framing constants", ruleTicksCodecAgreement},
			{"R9.5", "the sort covers the merged buffer", ruleSortCoversMergedData},
			{"R9.6", "the per-file result buffer is emptied for every file", rulePerFileBufferReset},
			{"R8.2", "paired previous-row state is updated together", rulePairedPrevState},
		},
	})
	register(&Property{
		ID: "C10",
		Explanation: "Thin: the round-trip error bound is numeric and NOT decided. Decided are the agreement conditions without which no bound can hold: (R10.1) encoder and decoder use the same exact scale constant; (R10.2) encoder result / decoder parameter are uint32 and the encoder truncates (no rounding call); " +
			"(R10.3) GetTimeFromTicks is the single decoder and every caller consumes both seconds and nanoseconds; (R9.3) all readers decode the trailer unsigned; (R30.2) encoder/reader year origin use one time-zone source.",
		NotCovered: "the float64 rounding error bound over 2^32 offsets; monotonicity; exactness for 1-second intervals.",
		Rules: []Rule{
			{"R10.1", "scale constants, types, single decoder", ruleTicksScaleAgreement},
			{"R10.4", "integer-valued float64 arithmetic of the encoder stays below 2^53", ruleFloatExactness},
			{"R10.5", "the decoder uses the ticks for every supported timeframe", ruleDecoderUsesTicksForEveryTimeframe},
			{"R9.3", "ticks codec agreement", ruleTicksCodecAgreement},
			{"R30.2", "one time-zone source", ruleOneTimezoneSource},
		},
	})
	register(&Property{
		ID:          "C11",
		Explanation: "Structural slice: (R11.1) in trimResultsToRange no search-and-slice loop can fall through on 'no row satisfies the bound' while still holding the rows it had before the loop; (R11.2) on the VARIABLE edge of Reader.Read the row series is built only from a buffer that passed trimResultsToRange.",
		NotCovered:  "the fixed-length offset arithmetic of NewIOPlan, cross-year planning, inverted ranges, the single-record shortcut's value semantics.",
		Rules: []Rule{
			{"R11.1", "not-found edge of the trimming loops", ruleSearchLoopNotFound},
			{"R11.2", "variable results are always trimmed; limit after range", ruleTrimOrder},
			{"R11.3", "year files are selected by calendar year (no fixed-length year)", ruleNoFixedLengthYear},
			{"R11.4", "query bounds are never converted to nanosecond counts", ruleBoundsNotAsUnixNano},
			{"R9.2", "variable-length intervals are stored sorted (the range trim searches from both ends)", ruleSortBeforeWrite},
			{"R13.5", "the chunk buffer of the scanner holds whole records", ruleReadBufferWholeRecords},
		},
	})
	register(&Property{
		ID:          "C12",
		Explanation: "Thin: (R12.1) trimResultsToLimit is applied to the result of trimResultsToRange, never before it; (R12.2) a LAST-direction scan without a row limit is refused before scanning; (R12.3) the per-file byte count of the backward scan is accumulated over all read chunks and Reader.read shrinks what is left to fill by exactly that count (an under-count cuts the oldest rows of LAST N). NOT decided and known to be false on today's tree: for variable-length buckets the interval-level limit is applied before the range trim, so fewer than N rows can be returned.",
		NotCovered:  "row counts (arithmetic over N); the interval-level pre-limit for variable-length buckets.",
		Rules: []Rule{
			{"R12.1", "limit after range; unlimited reverse scan refused", ruleTrimOrder},
			{"R12.3", "the backward scan reports every byte it copied (count accumulates over chunks)", ruleBackwardScanAccounting},
			{"R19.3", "SQL LIMIT reaches the scan only when the statement has no predicates", rulePushdownGuarded},
			{"R13.5", "the chunk buffer of the scanner holds whole records", ruleReadBufferWholeRecords},
		},
	})
}
