package main

import (
	"fmt"
	"go/ast"
	"go/constant"
	"go/token"
	"go/types"
	"sort"
	"strings"
)

// width terms: n > 0 fixed bytes, 0 = variable-length part
type wseq []int64

func (w wseq) norm() wseq {
	var out wseq
	for _, t := range w {
		if t > 0 && len(out) > 0 && out[len(out)-1] > 0 {
			out[len(out)-1] += t
			continue
		}
		out = append(out, t)
	}
	return out
}

// sameTotals: equal sum of fixed bytes and equal number of variable parts (used when a parser
// advances its cursor with one combined increment per record, which hides the field order).
func (w wseq) sameTotals(o wseq) bool {
	tot := func(x wseq) (int64, int) {
		var f int64
		v := 0
		for _, t := range x {
			if t == 0 {
				v++
			} else {
				f += t
			}
		}
		return f, v
	}
	af, av := tot(w)
	bf, bv := tot(o)
	return af == bf && av == bv
}

func (w wseq) String() string {
	var parts []string
	for _, t := range w {
		if t == 0 {
			parts = append(parts, "var")
		} else {
			parts = append(parts, fmt.Sprint(t))
		}
	}
	return "[" + strings.Join(parts, " ") + "]"
}

func fixedWidth(sizes types.Sizes, t types.Type) int64 {
	switch u := t.Underlying().(type) {
	case *types.Basic:
		if u.Info()&(types.IsInteger|types.IsFloat|types.IsBoolean) != 0 && u.Kind() != types.Int && u.Kind() != types.Uint && u.Kind() != types.Uintptr {
			return sizes.Sizeof(t)
		}
	}
	return 0
}

// serializerSeq: widths appended to a buffer inside node, in source order.
func serializerSeq(s *Scope, node ast.Node) wseq {
	return serializerSeqDepth(s, node, 0)
}

func serializerSeqDepth(s *Scope, node ast.Node, depth int) wseq {
	var out wseq
	sizes := s.Pkg.TypesSizes
	type ev struct {
		pos token.Pos
		ws  wseq
	}
	helpers := map[*Func]bool{}
	if s.Anchor && s.Fn != nil {
		for _, h := range s.P.privateHelpers(s.Fn) {
			helpers[h] = true
		}
	}
	var evs []ev
	walkAll(node, func(n ast.Node) bool {
		call, ok := n.(*ast.CallExpr)
		if !ok {
			return true
		}
		switch CalleeName(s.Info, call) {
		case "utils/io.Serialize":
			if len(call.Args) == 2 {
				evs = append(evs, ev{call.Pos(), wseq{fixedWidth(sizes, s.Info.TypeOf(call.Args[1]))}})
			}
		case "builtin.append":
			if call.Ellipsis.IsValid() {
				evs = append(evs, ev{call.Pos(), wseq{0}})
			}
		default:
			// an encoding step that was extracted into a helper contributes its own sequence
			if f := Callee(s.Info, call); f != nil && depth < inlineDepth {
				if h := s.P.ByObj[f]; h != nil && helpers[h] && h.Decl.Body != nil {
					evs = append(evs, ev{call.Pos(), serializerSeqDepth(s, h.Decl.Body, depth+1)})
				}
			}
		}
		return true
	})
	sort.Slice(evs, func(i, j int) bool { return evs[i].pos < evs[j].pos })
	for _, e := range evs {
		out = append(out, e.ws...)
	}
	return out
}

// parserSeq: cursor increments inside node, in source order.
func parserSeq(s *Scope, node ast.Node, cursor types.Object) wseq {
	var out wseq
	type ev struct {
		pos token.Pos
		ws  wseq
	}
	var evs []ev
	termsOf := func(e ast.Expr) wseq {
		var fixed int64
		vars := 0
		var rec func(ast.Expr)
		rec = func(e ast.Expr) {
			e = unparen(e)
			if v, ok := constInt(s.Info, e); ok {
				fixed += v
				return
			}
			if b, ok := e.(*ast.BinaryExpr); ok && b.Op == token.ADD {
				rec(b.X)
				rec(b.Y)
				return
			}
			vars++
		}
		rec(e)
		var w wseq
		if fixed > 0 {
			w = append(w, fixed)
		}
		for i := 0; i < vars; i++ {
			w = append(w, 0)
		}
		return w
	}
	// traversal order = source order; the body of an extracted private helper is visited where
	// it is called (its cursor parameter is the caller's cursor through the object aliases)
	s.walkDeep(node, func(n ast.Node) bool {
		switch x := n.(type) {
		case *ast.AssignStmt:
			if x.Tok == token.ADD_ASSIGN && len(x.Lhs) == 1 && identObj(s.Info, x.Lhs[0]) == cursor {
				evs = append(evs, ev{x.Pos(), termsOf(x.Rhs[0])})
			}
		case *ast.IncDecStmt:
			if x.Tok == token.INC && identObj(s.Info, x.X) == cursor {
				evs = append(evs, ev{x.Pos(), wseq{1}})
			}
		}
		return true
	})
	for _, e := range evs {
		out = append(out, e.ws...)
	}
	return out
}

var primWidth = map[string]int64{"ToInt8": 1, "ToInt16": 2, "ToInt32": 4, "ToInt64": 8, "ToUInt8": 1, "ToUint8": 1, "ToUInt16": 2, "ToUInt32": 4, "ToUint32": 4, "ToUInt64": 8, "ToFloat32": 4, "ToFloat64": 8}

// decodeWidthsAgree: every io.ToXxx(buf[lo:lo+K]) in s decodes exactly K bytes.
func (c *Ctx) decodeWidthsAgree(rule string, s *Scope) int {
	n := 0
	s.walk(func(m ast.Node) bool {
		call, ok := m.(*ast.CallExpr)
		if !ok || len(call.Args) != 1 {
			return true
		}
		nm := CalleeName(s.Info, call)
		if !strings.HasPrefix(nm, "utils/io.To") {
			return true
		}
		w, known := primWidth[strings.TrimPrefix(nm, "utils/io.")]
		se, isSl := unparen(call.Args[0]).(*ast.SliceExpr)
		if !known || !isSl || se.High == nil {
			return true
		}
		var k int64 = -1
		if se.Low == nil {
			if v, ok := constInt(s.Info, se.High); ok {
				k = v
			}
		} else if b, ok := unparen(se.High).(*ast.BinaryExpr); ok && b.Op == token.ADD && canonExpr(s.Info, b.X) == canonExpr(s.Info, se.Low) {
			if v, ok := constInt(s.Info, b.Y); ok {
				k = v
			}
		} else if lo, ok1 := constInt(s.Info, se.Low); ok1 {
			if hi, ok2 := constInt(s.Info, se.High); ok2 {
				k = hi - lo
			}
		}
		if k < 0 {
			return true
		}
		n++
		c.Check(k == w, rule, s.Name, fmt.Sprintf("decode-width:%s#%d", strings.TrimPrefix(nm, "utils/io."), n), c.P.Pos(call.Pos()),
			fmt.Sprintf("%s decodes %d bytes and is given a %d-byte slice", nm, w, k))
		return true
	})

	return n
}

func ruleWALRecordLayoutAgreement(c *Ctx) {
	const rule = "R28.1"
	ser := c.S(rule, fnSerializeTG)
	par := c.S(rule, fnParseTGData)
	if ser == nil || par == nil {
		return
	}
	// the per-command loop, in either loop form
	type loopT struct {
		Body *ast.BlockStmt
		pos  token.Pos
	}
	firstLoop := func(s *Scope) *loopT {
		var l *loopT
		s.walk(func(n ast.Node) bool {
			if l != nil {
				return false
			}
			switch fs := n.(type) {
			case *ast.ForStmt:
				l = &loopT{fs.Body, fs.Pos()}
			case *ast.RangeStmt:
				l = &loopT{fs.Body, fs.Pos()}
			}
			return l == nil
		})
		return l
	}
	sl, pl := firstLoop(ser), firstLoop(par)
	if sl == nil || pl == nil {
		c.Undecided(rule, ser.Name, "command-loop", "per-command loop not found in serializer or parser")
		return
	}
	var cursor types.Object
	par.walk(func(n ast.Node) bool {
		if as, ok := n.(*ast.AssignStmt); ok && as.Tok == token.ADD_ASSIGN && cursor == nil {
			cursor = identObj(par.Info, as.Lhs[0])
		}
		return true
	})

	if cursor == nil {
		c.Undecided(rule, par.Name, "cursor", "parser cursor variable not found")
		return
	}
	sseq := serializerSeq(ser, sl.Body).norm()
	pseq := parserSeq(par, pl.Body, cursor).norm()
	c.Check(sseq.String() == pseq.String() && len(sseq) >= 4, rule, par.Name, "per-command-field-widths", c.P.Pos(pl.pos),
		"serializeTG emits per command "+sseq.String()+"; ParseTGData consumes "+pseq.String()+" (fixed byte runs / variable parts, in order)")
	// header: tgID + count
	var hdrSer wseq
	ser.walk(func(n ast.Node) bool {
		if call, ok := n.(*ast.CallExpr); ok && call.Pos() < sl.pos && CalleeName(ser.Info, call) == "utils/io.Serialize" && len(call.Args) == 2 {
			hdrSer = append(hdrSer, fixedWidth(ser.Pkg.TypesSizes, ser.Info.TypeOf(call.Args[1])))
		}
		return true
	})

	var hdrPar int64 = -1
	par.walk(func(n ast.Node) bool {
		if as, ok := n.(*ast.AssignStmt); ok && as.Tok == token.DEFINE && len(as.Lhs) == 1 && identObj(par.Info, as.Lhs[0]) == cursor {
			if v, ok := constInt(par.Info, as.Rhs[0]); ok {
				hdrPar = v
			}
		}
		return true
	})

	hs := hdrSer.norm()
	c.Check(len(hs) == 1 && hs[0] == hdrPar, rule, par.Name, "tg-header-width", c.P.Pos(par.Body.Pos()), fmt.Sprintf("TG header: serializer %s bytes, parser starts its cursor at %d", hs.String(), hdrPar))
	n := c.decodeWidthsAgree(rule, par)
	c.Floor(rule, par.Name, "decode sites with constant slice width", n, 5)
	// data shapes
	// the cursor of a decoder: the local that is advanced (`x++` / `x += …`) most often
	cursorOf := func(fb *Scope) types.Object {
		cnt := map[types.Object]int{}
		var order []types.Object
		note := func(o types.Object) {
			if o == nil {
				return
			}
			if cnt[o] == 0 {
				order = append(order, o)
			}
			cnt[o]++
		}
		fb.walk(func(n ast.Node) bool {
			switch x := n.(type) {
			case *ast.IncDecStmt:
				if x.Tok == token.INC {
					note(identObj(fb.Info, x.X))
				}
			case *ast.AssignStmt:
				if x.Tok == token.ADD_ASSIGN && len(x.Lhs) == 1 {
					note(identObj(fb.Info, x.Lhs[0]))
				}
			}
			return true
		})
		var cur types.Object
		for _, o := range order {
			if cur == nil || cnt[o] > cnt[cur] {
				cur = o
			}
		}
		return cur
	}
	tbShape := c.S(rule, "(*utils/io.DataShape).toBytes")
	tbDSV, fbDSV := c.S(rule, "utils/io.DSVToBytes"), c.S(rule, "utils/io.DSVFromBytes")
	if c.P.Funcs["utils/io.dsFromBytes"] != nil {
		if fb := c.S(rule, "utils/io.dsFromBytes"); tbShape != nil && fb != nil {
			a, b := serializerSeq(tbShape, tbShape.Body).norm(), parserSeq(fb, fb.Body, cursorOf(fb)).norm()
			c.Check(a.String() == b.String() && len(a) == 3, rule, fb.Name, "datashape-field-widths", c.P.Pos(fb.Body.Pos()), "DataShape.toBytes emits "+a.String()+"; dsFromBytes consumes "+b.String())
			c.decodeWidthsAgree(rule, fb)
		}
		if tbDSV != nil && fbDSV != nil {
			a, b := serializerSeq(tbDSV, tbDSV.Body).norm(), parserSeq(fbDSV, fbDSV.Body, cursorOf(fbDSV)).norm()
			c.Check(a.String() == b.String() && len(a) == 2, rule, fbDSV.Name, "dsv-field-widths", c.P.Pos(fbDSV.Body.Pos()), "DSVToBytes emits "+a.String()+"; DSVFromBytes consumes "+b.String())
			c.decodeWidthsAgree(rule, fbDSV)
		}
	} else if tbShape != nil && tbDSV != nil && fbDSV != nil {
		// the per-shape decoder was inlined into DSVFromBytes: its loop body is the shape decoder,
		// the statements before the loop are the vector header
		var loop *loopInfo
		var before []ast.Stmt
		for _, st := range fbDSV.Body.List {
			if li := asLoop(fbDSV.Info, st); li != nil && loop == nil {
				loop = li
				break
			}
			before = append(before, st)
		}
		if loop == nil {
			c.Undecided(rule, fbDSV.Name, "datashape-field-widths", "utils/io.dsFromBytes does not exist and DSVFromBytes has no per-shape loop: the shape decoder was not found")
		} else {
			cur := cursorOf(fbDSV)
			a, b := serializerSeq(tbShape, tbShape.Body).norm(), parserSeq(fbDSV, loop.Body, cur).norm()
			okW := a.String() == b.String() || (len(b) < len(a) && a.sameTotals(b)) // one combined cursor increment per shape
			c.Check(okW && len(a) == 3, rule, fbDSV.Name, "datashape-field-widths", c.P.Pos(loop.Node.Pos()), "DataShape.toBytes emits "+a.String()+"; the per-shape loop of DSVFromBytes consumes "+b.String())
			ha := serializerSeq(tbDSV, tbDSV.Body).norm()
			hb := append(parserSeq(fbDSV, &ast.BlockStmt{List: before}, cur), 0).norm()
			c.Check(ha.String() == hb.String() && len(ha) == 2, rule, fbDSV.Name, "dsv-field-widths", c.P.Pos(fbDSV.Body.Pos()), "DSVToBytes emits "+ha.String()+"; DSVFromBytes consumes "+hb.String()+" (header, then the shapes)")
			c.decodeWidthsAgree(rule, fbDSV)
		}
	}
	// fixed-size records: transaction info and status
	recordBytes := func(s *Scope) int64 {
		var total int64
		for _, w := range serializerSeq(s, s.Body) {
			total += w
		}
		return total
	}
	arrayLen := func(s *Scope) int64 {
		var n int64 = -1
		s.walk(func(m ast.Node) bool {
			if vs, ok := m.(*ast.ValueSpec); ok && len(vs.Names) == 1 {
				if arr, ok := s.Info.TypeOf(vs.Names[0]).(*types.Array); ok {
					n = arr.Len()
				}
			}
			return true
		})

		return n
	}
	if w, r := c.S(rule, fnWTI), c.S(rule, "(*executor.WALFileType).readTransactionInfo"); w != nil && r != nil {
		wb, rb := recordBytes(w), arrayLen(r)
		c.Check(wb == rb && wb == 10, rule, r.Name, "txninfo-record-width", c.P.Pos(r.Body.Pos()), fmt.Sprintf("WriteTransactionInfo serializes %d bytes after the message id; readTransactionInfo reads a [%d]byte buffer", wb, rb))
		// field positions: id at 0 (8 bytes), destination at 8, status at 9
		pos := map[string]int64{}
		r.walk(func(m ast.Node) bool {
			if call, ok := m.(*ast.CallExpr); ok && len(call.Args) == 1 {
				if tv, ok := r.Info.Types[call.Fun]; ok && tv.IsType() {
					if ix, ok := unparen(call.Args[0]).(*ast.IndexExpr); ok {
						if v, ok := constInt(r.Info, ix.Index); ok {
							pos[types.TypeString(tv.Type, nil)] = v
						}
					}
				}
			}
			return true
		})

		c.Check(pos[modPrefix+"executor.DestEnum"] == 8 && pos[modPrefix+"executor.TxnStatusEnum"] == 9, rule, r.Name, "txninfo-field-offsets", c.P.Pos(r.Body.Pos()),
			fmt.Sprintf("destination read at byte %d, status at byte %d (written as id:8, destination:1, status:1)", pos[modPrefix+"executor.DestEnum"], pos[modPrefix+"executor.TxnStatusEnum"]))
		// argument order in the writer: tid, did, txnStatus
		var order []string
		for _, n := range w.sites(callPred(w, "utils/io.Serialize")) {
			call := n.(*ast.CallExpr)
			order = append(order, types.TypeString(w.Info.TypeOf(call.Args[1]), nil))
		}
		want := []string{"int64", modPrefix + "executor.DestEnum", modPrefix + "executor.TxnStatusEnum"}
		c.Check(strings.Join(order, ",") == strings.Join(want, ","), rule, w.Name, "txninfo-field-order", c.P.Pos(w.Body.Pos()), "WriteTransactionInfo serializes "+short(strings.Join(order, ", ")))
	}
	if w, r := c.S(rule, fnWriteStatus), c.S(rule, "executor/wal.ReadStatus"); w != nil && r != nil {
		wb, rb := recordBytes(w), arrayLen(r)
		c.Check(wb == rb && wb == 10, rule, r.Name, "status-record-width", c.P.Pos(r.Body.Pos()), fmt.Sprintf("WriteStatus serializes %d bytes after the message id; wal.ReadStatus reads a [%d]byte buffer", wb, rb))
	}
	// TG framing constants
	if pkg := c.P.ByPath["executor"]; pkg != nil {
		for name, want := range map[string]int64{"tgLenBytes": 8, "tgIDBytes": 8, "checkSumBytes": 16} {
			if o, ok := pkg.Types.Scope().Lookup(name).(*types.Const); ok {
				v, _ := constant.Int64Val(constant.ToInt(o.Val()))
				c.Check(v == want, rule, "executor."+name, "value", c.P.Pos(o.Pos()), fmt.Sprintf("%s = %d (int64 length prefix 8, TG id 8, md5.Size 16)", name, v))
			} else {
				c.Undecided(rule, "executor."+name, "anchor", "constant not found")
			}
		}
	}
	// R28.4 OffsetIndexBuffer accessors
	const r4 = "R28.4"
	acc := map[string][2]int64{"Offset": {0, 8}, "Index": {8, 16}, "IndexAndPayload": {8, -1}, "Payload": {16, -1}}
	for name, want := range acc {
		s := c.S(r4, "(executor/wal.OffsetIndexBuffer)."+name)
		if s == nil {
			continue
		}
		ok := false
		s.walk(func(m ast.Node) bool {
			if se, isSl := m.(*ast.SliceExpr); isSl {
				lo, hi := int64(0), int64(-1)
				if se.Low != nil {
					lo, _ = constInt(s.Info, se.Low)
				}
				if se.High != nil {
					hi, _ = constInt(s.Info, se.High)
				}
				ok = lo == want[0] && hi == want[1]
			}
			return true
		})

		c.Check(ok, r4, s.Name, "slice-bounds", c.P.Pos(s.Body.Pos()), fmt.Sprintf("%s = buffer[%d:%d] (layout offset:8 index:8 payload)", name, want[0], want[1]))
	}
	// bufferSize = 8 + 8 + len(Data) in serializeTG
	okSize := false
	ser.walk(func(m ast.Node) bool {
		if as, ok := m.(*ast.AssignStmt); ok && len(as.Lhs) == 1 && len(as.Rhs) == 1 {
			if id, ok := as.Lhs[0].(*ast.Ident); ok && id.Name == "bufferSize" {
				w := parserTerms(ser, as.Rhs[0])
				okSize = len(w) == 2 && w[0] == 16 && w[1] == 0
			}
		}
		return true
	})

	c.Check(okSize, r4, ser.Name, "buffer-size", c.P.Pos(ser.Body.Pos()), "the per-command primary-write buffer spans offset(8)+index(8)+len(Data)")
}

func parserTerms(s *Scope, e ast.Expr) wseq {
	var fixed int64
	vars := 0
	var rec func(ast.Expr)
	rec = func(e ast.Expr) {
		e = unparen(e)
		if v, ok := constInt(s.Info, e); ok {
			fixed += v
			return
		}
		if b, ok := e.(*ast.BinaryExpr); ok && b.Op == token.ADD {
			rec(b.X)
			rec(b.Y)
			return
		}
		vars++
	}
	rec(e)
	var w wseq
	if fixed > 0 {
		w = append(w, fixed)
	}
	for i := 0; i < vars; i++ {
		w = append(w, 0)
	}
	return w
}

// R28.2 — lengths are not narrowed without a bound.
func ruleNoLossyNarrowing(c *Ctx) {
	const rule = "R28.2"
	exceptions := map[string]string{
		"executor.serializeTG|int16(len(executor/wal.WriteCommand.WALKeyPath))": "the key path is relative to the root and its file has been opened successfully: ≤ PATH_MAX (4096) < 2^15",
		"executor.serializeTG|int32(executor/wal.WriteCommand.VarRecLen)":       "bounded by 1024 columns × 64 bytes per element",
		"executor.serializeTG|int32(len(executor/wal.WriteCommand.Data))":       "accepted risk: the payload of ONE interval of ONE request would have to exceed 2 GiB",
	}
	n := 0
	for _, key := range []string{fnSerializeTG, "(*utils/io.DataShape).toBytes", "utils/io.DSVToBytes"} {
		s := c.S(rule, key)
		if s == nil {
			continue
		}
		sizes := s.Pkg.TypesSizes
		s.walk(func(m ast.Node) bool {
			call, ok := m.(*ast.CallExpr)
			if !ok || len(call.Args) != 1 {
				return true
			}
			tv, isConv := s.Info.Types[call.Fun]
			if !isConv || !tv.IsType() {
				return true
			}
			dst, ok := tv.Type.Underlying().(*types.Basic)
			if !ok || dst.Info()&types.IsInteger == 0 {
				return true
			}
			srcT := s.Info.TypeOf(call.Args[0])
			src, ok := srcT.Underlying().(*types.Basic)
			if !ok || src.Info()&types.IsInteger == 0 {
				return true
			}
			if _, isConst := constInt(s.Info, call.Args[0]); isConst {
				return true
			}
			if sizes.Sizeof(tv.Type) >= sizes.Sizeof(srcT) {
				return true
			}
			n++
			canon := canonTypeName(tv.Type) + "(" + canonExprIndexFree(s.Info, call.Args[0]) + ")"
			construct := "narrowing:" + canon
			if why, ok := exceptions[s.Name+"|"+canon]; ok {
				c.Hold(rule, s.Name, construct, c.P.Pos(call.Pos()), "listed exception: "+why)
				return true
			}

			operand := call.Args[0]
			guard := func(f []Fact) bool {
				for _, x := range f {
					b, ok := unparen(x.Expr).(*ast.BinaryExpr)
					if !ok {
						continue
					}
					if canonExpr(s.Info, b.X) == canonExpr(s.Info, operand) || canonExpr(s.Info, b.Y) == canonExpr(s.Info, operand) {
						return true
					}
				}
				return false
			}
			r := s.Run(Query{Target: func(sub, _ ast.Node) bool { return sub == ast.Node(call) }, Exempt: guard})
			if len(r.Hits) == 0 {
				c.Hold(rule, s.Name, construct, c.P.Pos(call.Pos()), "the narrowed value is compared against a bound on every path")
			} else {
				c.Violate(rule, s.Name, construct, c.P.Pos(call.Pos()),
					fmt.Sprintf("a length is narrowed to %s without any bound check: a larger value wraps silently and every following field of the WAL record is parsed at the wrong offset", canonTypeName(tv.Type)), nil)
			}
			return true
		})

	}
	c.Floor(rule, "WAL serializers", "narrowing conversions of lengths", n, 5)
}

func canonTypeName(t types.Type) string { return short(types.TypeString(t, nil)) }

// canonExprIndexFree renders x[i].F as the field key only.
func canonExprIndexFree(info *types.Info, e ast.Expr) string { return canonExpr(info, e) }
