package main

// Refactor-stable descriptions of constructs, used as known-finding keys: identifiers are
// replaced by what they resolve to (fields -> Type.Field, package-level objects -> pkg.Name,
// locals -> "·"), so renaming a local or moving a line does not change the key.

import (
	"go/ast"
	"go/token"
	"go/types"
	"strings"
)

func canonExpr(info *types.Info, e ast.Expr) string {
	var b strings.Builder
	var rec func(ast.Expr)
	rec = func(e ast.Expr) {
		switch x := e.(type) {
		case nil:
		case *ast.ParenExpr:
			rec(x.X)
		case *ast.Ident:
			o := info.ObjectOf(x)
			switch o := o.(type) {
			case *types.Nil:
				b.WriteString("nil")
			case *types.Const:
				if o.Pkg() != nil && o.Parent() == o.Pkg().Scope() {
					b.WriteString(short(o.Pkg().Path()) + "." + o.Name())
				} else {
					b.WriteString(o.Val().String())
				}
			case *types.Builtin:
				b.WriteString(o.Name())
			case *types.Func:
				b.WriteString(short(o.FullName()))
			case *types.Var:
				if o.Pkg() != nil && o.Parent() == o.Pkg().Scope() {
					b.WriteString(short(o.Pkg().Path()) + "." + o.Name())
				} else {
					b.WriteString("·")
				}
			case *types.TypeName:
				b.WriteString(o.Name())
			default:
				b.WriteString("·")
			}
		case *ast.SelectorExpr:
			if k := fieldKey(info, x); k != "" {
				b.WriteString(k)
				return
			}
			if f, ok := info.Uses[x.Sel].(*types.Func); ok {
				b.WriteString(short(f.FullName()))
				return
			}
			if k := objKey(info, x); k != "" {
				b.WriteString(k)
				return
			}
			rec(x.X)
			b.WriteString("." + x.Sel.Name)
		case *ast.CallExpr:
			rec(x.Fun)
			b.WriteString("(")
			for i, a := range x.Args {
				if i > 0 {
					b.WriteString(",")
				}
				rec(a)
			}
			b.WriteString(")")
		case *ast.UnaryExpr:
			b.WriteString(x.Op.String())
			rec(x.X)
		case *ast.StarExpr:
			b.WriteString("*")
			rec(x.X)
		case *ast.BinaryExpr:
			rec(x.X)
			b.WriteString(x.Op.String())
			rec(x.Y)
		case *ast.BasicLit:
			b.WriteString(x.Value)
		case *ast.IndexExpr:
			rec(x.X)
			b.WriteString("[")
			rec(x.Index)
			b.WriteString("]")
		case *ast.SliceExpr:
			rec(x.X)
			b.WriteString("[:]")
		case *ast.CompositeLit:
			if tv, ok := info.Types[x]; ok {
				b.WriteString(short(types.TypeString(tv.Type, nil)) + "{}")
			} else {
				b.WriteString("{}")
			}
		case *ast.TypeAssertExpr:
			rec(x.X)
			b.WriteString(".(T)")
		default:
			b.WriteString("?")
		}
	}
	rec(e)
	return b.String()
}

// guardDesc describes the innermost enclosing branch of a node: "if[<canon cond>]" /
// "else[<canon cond>]" / "case[...]" / "top" (unconditional in the function body).
func (s *Scope) guardDesc(n ast.Node) string {
	file := s.P.FileOf(s.Pkg, n.Pos())
	if file == nil {
		return "?"
	}
	par := s.P.Parents(file)
	child := n
	for m := par[n]; m != nil; child, m = m, par[m] {
		switch x := m.(type) {
		case *ast.FuncLit, *ast.FuncDecl:
			return "top"
		case *ast.IfStmt:
			if child == ast.Node(x.Body) {
				return "if[" + canonExpr(s.Info, x.Cond) + "]"
			}
			if x.Else != nil && child == ast.Node(x.Else) {
				return "else[" + canonExpr(s.Info, x.Cond) + "]"
			}
		case *ast.CaseClause:
			var parts []string
			for _, e := range x.List {
				parts = append(parts, canonExpr(s.Info, e))
			}
			if len(parts) == 0 {
				return "case[default]"
			}
			return "case[" + strings.Join(parts, ",") + "]"
		case *ast.CommClause:
			if x.Comm == nil {
				return "select[default]"
			}
			switch c := x.Comm.(type) {
			case *ast.ExprStmt:
				return "select[" + canonExpr(s.Info, c.X) + "]"
			case *ast.AssignStmt:
				if len(c.Rhs) == 1 {
					return "select[" + canonExpr(s.Info, c.Rhs[0]) + "]"
				}
			case *ast.SendStmt:
				return "select[send " + canonExpr(s.Info, c.Chan) + "]"
			}
			return "select[?]"
		}
	}
	return "top"
}

// mentionsField reports whether expression e contains a selector of the given struct field.
func mentionsField(info *types.Info, e ast.Node, key string) bool {
	found := false
	walkAll(e, func(m ast.Node) bool {
		if sel, ok := m.(*ast.SelectorExpr); ok && fieldKey(info, sel) == key {
			found = true
		}
		return !found
	})
	return found
}

// mentionsObjKey reports whether e refers to the package-level object pkg.Name.
func mentionsObjKey(info *types.Info, e ast.Node, key string) bool {
	found := false
	walkAll(e, func(m ast.Node) bool {
		if id, ok := m.(*ast.Ident); ok {
			if o := info.ObjectOf(id); o != nil && o.Pkg() != nil && o.Parent() == o.Pkg().Scope() &&
				short(o.Pkg().Path())+"."+o.Name() == key {
				found = true
			}
		}
		return !found
	})
	return found
}

// boolFlagFact: facts contain a "flag-like" atom mentioning field/object key with the value.
// A flag-like atom is the field itself, its dereference, or a niladic method call on it
// (e.g. x.flag.Load()), i.e. an expression whose truth is the flag's truth.
func flagFact(info *types.Info, facts []Fact, key string, isField bool, val bool) bool {
	for _, f := range facts {
		if f.Tag != nil {
			continue
		}
		e := unparen(f.Expr)
		fv := f.Val
		// integer flags: `X == 0` / `X != 0` / `X == 1`
		if b, ok := e.(*ast.BinaryExpr); ok && (b.Op == token.EQL || b.Op == token.NEQ) {
			other, konst := b.X, b.Y
			if _, isC := constInt(info, konst); !isC {
				other, konst = b.Y, b.X
			}
			if k, isC := constInt(info, konst); isC && (k == 0 || k == 1) {
				// truth of "flag is set" implied by this fact
				set := (k == 1) == (b.Op == token.EQL)
				if !f.Val {
					set = !set
				}
				e, fv = unparen(other), set
			}
		}
		if fv != val {
			continue
		}
		for {
			switch x := e.(type) {
			case *ast.StarExpr:
				e = unparen(x.X)
				continue
			case *ast.CallExpr:
				if sel, ok := unparen(x.Fun).(*ast.SelectorExpr); ok && len(x.Args) == 0 && sel.Sel.Name == "Load" {
					e = unparen(sel.X)
					continue
				}
				if strings.HasPrefix(CalleeName(info, x), "sync/atomic.Load") && len(x.Args) == 1 {
					e = unparen(x.Args[0])
					continue
				}
			case *ast.UnaryExpr:
				if x.Op == token.AND {
					e = unparen(x.X)
					continue
				}
			}
			break
		}
		if isField {
			if fieldKey(info, e) == key {
				return true
			}
		} else if objKey(info, e) == key {
			return true
		}
	}
	return false
}

// cmpConstFact: facts contain `<expr mentioning field key> op const` for one of ops with val.
func isCompare(e ast.Expr, ops ...token.Token) (*ast.BinaryExpr, bool) {
	b, ok := unparen(e).(*ast.BinaryExpr)
	if !ok {
		return nil, false
	}
	for _, op := range ops {
		if b.Op == op {
			return b, true
		}
	}
	return nil, false
}
