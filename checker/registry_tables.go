package main

func init() {
	register(&Property{
		ID:          "C13",
		Explanation: "Structural slice: (R13.1) NumpyMultiDataset.Append guards the byte-wise merge of another symbol's columns with a comparison that involves the element TYPES, not only the names.",
		NotCovered:  "row equality between the multi-symbol and the single-symbol query, duplicate/unknown column semantics.",
		Rules: []Rule{
			{"R13.1", "datasets are merged only when names and types agree", ruleAppendComparesTypes},
			{"R13.3", "every listed symbol of a query is visited", ruleRestrictionListFullyVisited},
			{"R13.5", "the chunk buffer holds whole records of the bucket being scanned", ruleReadBufferWholeRecords},
			{"R13.6", "projection does not write through the shared column-name list", ruleNameListParameterNotMutated},
			{"R13.7", "every bucket of a query is described by its own file header", ruleShapesFromOwnFile},
			// R13.2 (wrong error variable tested in executeQuery) was removed: the flagged branch is
			// unreachable for every bucket the server can hold, so no failing input exists — by the
			// task's definition a false alarm, not a finding (DESIGN.md §7).
		},
	})
	register(&Property{
		ID:          "C14",
		Explanation: "Structural necessary conditions of schema validation on every path of WriteCSM: (R14.1) WriteRecords is reachable only behind a result-checked GetMissingAndTypeCoercionColumns, the `no column missing` edge and the `same column count` edge, and a failing coercion aborts; (R14.2) no validation-error return is reachable after records were already queued (known finding: one loop validates and queues); (R14.3) the coercion switch has a case for every numeric element type of attributeMap and the conversion groups cover every numeric kind.",
		NotCovered:  "the set algebra of GetMissingAndTypeCoercionColumns on every schema pair; numeric results of conversions.",
		Rules: []Rule{
			{"R14.1", "guarded write", ruleGuardedWrite},
			{"R14.2", "validate everything before queueing anything", ruleValidateBeforeQueue},
			{"R14.3", "coercion is total over the numeric types", ruleCoercionTotal},
			{"R14.4", "the schema check gets (bucket shapes, data shapes) in that order", ruleSchemaCheckArgumentRoles},
			{"R14.5", "numeric conversion helpers read the value with its own kind's accessor", ruleConversionHelpersIndependent},
			{"R14.6", "coercion keeps the column's position", ruleCoercionKeepsColumnOrder},
		},
	})
	register(&Property{
		ID:          "C15",
		Explanation: "Structural conditions of header fidelity: (R15.1) sizeof(Header) == Headersize, headerPart1Bytes == offsetof(ElementNames), array dimensions == their constants (types.Sizes); (R15.2) every header field written by Header.Load is read by TimeBucketInfo.load and vice versa; (R15.3) bucket creation is dominated by a result-checked validation of the header's limits (name ≤ 32 bytes, ≤ 1024 elements) so nothing is silently truncated; (R8.1) no slot index maps into the header.",
		NotCovered:  "faithfulness of every field value, description strings, timeframe round trip.",
		Rules: []Rule{
			{"R15.1", "header layout constants and encoder/decoder field agreement", ruleHeaderLayout},
			{"R15.3", "schema limits validated before creation", ruleCreationValidated("schema")},
			{"R15.5", "header text is copied into the whole slot", ruleHeaderFullSlotCopy},
			{"R8.1", "no data write can land in the header", ruleSlotIndexPositive},
			{"R30.4", "slot → offset arithmetic is 64-bit", ruleOffsetArithmetic64},
			{"R18.8", "the header reader shares no package-level scratch state", ruleNoNewSharedPackageState},
			{"R18.9", "the write-back buffer of batched writes only holds bytes read from the file (it covers the header)", ruleWriteBackBufferIsRead},
		},
	})
	register(&Property{
		ID:          "C16",
		Explanation: "Structural necessary conditions of root confinement: (R16.1) every directory/file creation in AddTimeBucket — the single choke point of Create and WriteCSM — is dominated by a result-checked validator that rejects the key items \"\", \".\", \"..\" and items containing a path separator; (R16.2) deletion removes only the pathToItemName of catalog nodes found by walking the catalog, and that field is set only while loading from disk; (R16.3) no other file-mutating primitive exists outside the frozen gate table.",
		NotCovered:  "symlinks already present under the root, unusual characters that are legal component names, read-side path construction.",
		Rules: []Rule{
			{"R16.1", "key items validated before any file-system mutation", ruleCreationValidated("key")},
			{"R16.2", "deletion follows catalog nodes", ruleDeletionFollowsCatalog},
			{"R16.3", "no file mutation outside the owning gates", ruleNoForeignWriter("R16.3")},
			{"R16.4", "an uncatalogued bucket is written only after AddTimeBucket validated its key", ruleUncataloguedWriteValidated},
			{"R17.6", "path prefixes are compared at a separator", rulePathPrefixAtSeparator},
		},
	})
	register(&Property{
		ID:          "C17",
		Explanation: "Decides the locking discipline consistency rests on (not the equality catalog == disk): (R17.1) every access to Directory.subDirs/datafile/category/categorySet/itemName in package catalog holds a mutex of the same object on every path (write lock for writes), with a table of justified caller-holds exceptions that are themselves verified; (R17.2) every tree-changing step of AddTimeBucket / GetSubDirectoryAndAddFile / RemoveTimeBucket runs under the root's write lock; (R17.4) a year file is registered iff it was created.",
		NotCovered:  "equality of listings with disk after arbitrary histories; restart equivalence.",
		Rules: []Rule{
			{"R17.1", "Directory state is accessed under its lock", ruleCatalogLocking},
			{"R17.2", "structural changes are serialised by the root lock; creation and registration stay together", ruleStructuralChangesSerialised},
			{"R17.5", "adding a sub-directory drops the cached category set", ruleCategoryCacheInvalidated},
			{"R17.6", "path prefixes are compared at a separator", rulePathPrefixAtSeparator},
			{"R3.5", "the catalog scan skips a half-created bucket directory and keeps its siblings", ruleCatalogLoadTolerant},
		},
	})
	register(&Property{
		ID:          "C18",
		Explanation: "Decides race-freedom clauses for a frozen list of shared state only: (R18.1) haveWALWriter, shutdownPending, frontend.Queryable, TimeBucketInfo.variableRecordLength are atomic types or accessed only through sync/atomic; (R5.1) the WAL structures are reachable only from the WAL goroutine / inline flush; (R3.1) variable-length data is append-only until the index moves (known finding) and the index is written after the data; (R17.1/R17.2) catalog locking; (R18.5) a fixed slot is written by one positional write of index+payload.",
		NotCovered:  "absence of all data races (only the listed shared state), torn reads inside one WriteAt, goroutine scheduling.",
		Rules: []Rule{
			{"R18.1", "shared flags are synchronised", ruleSharedFlags},
			{"R5.1", "WAL structures confined to the WAL goroutine", ruleSingleWALWriter},
			{"R3.1", "readers never see a half-updated variable-length interval", ruleIndirectAppendOnly},
			{"R17.1", "catalog lock discipline", ruleCatalogLocking},
			{"R17.2", "structural changes serialised", ruleStructuralChangesSerialised},
			{"R18.5", "fixed-length slot visibility", ruleFixedSlotSingleWrite},
			{"R18.6", "lazy header load runs only under its sync.Once", ruleLazyLoadOnce},
			{"R18.7", "a buffered record write is not torn by a flush", ruleBufferedWriteNotTorn},
			{"R18.9", "the write-back buffer only holds bytes read from the file", ruleWriteBackBufferIsRead},
			{"R18.10", "a write command is queued only when it is complete", ruleQueuedCommandImmutable},
			{"R24.4", "no pointer to a range variable outlives its iteration", ruleNoEscapingRangeVarAddress},
			{"R18.8", "no new shared mutable package-level state in the request path", ruleNoNewSharedPackageState},
			{"R28.6", "long-lived byte buffers do not escape", ruleScratchBufferDoesNotEscape},
		},
	})
	register(&Property{
		ID:          "C19",
		Explanation: "Thin: row-selection semantics (bound arithmetic, tightening, Epoch units) are value-level and NOT decided. Decided: (R19.1) the WHERE post-filter has a case for every numeric column type a bucket can produce (known findings); (R19.2) errors of AddComparison are not dropped (known findings); (R19.3) the scan-level LIMIT is pushed down only on the edge where the statement has no predicates at all (the post-filter can only remove rows after the cut); (R19.5) float32 columns are compared in float32 (the literal is rounded to the column type, the element is never widened); (R19.4) BETWEEN adds (GT, LT) and NOT BETWEEN (LTE, GTE) on the lower/upper bound.",
		NotCovered:  "the inverted tightening in AddComparison, the ±1 push-down adjustment, integer-Epoch handling.",
		Rules: []Rule{
			{"R19.1", "post-filter handles every numeric column type", rulePostFilterTotal},
			{"R19.2", "a rejected comparison is not silently dropped", ruleComparisonErrors},
			{"R19.3", "push-down only narrows", rulePushdownGuarded},
			{"R19.4", "BETWEEN maps to one lower and one upper comparison", ruleBetweenMapping},
			{"R19.5", "float32 columns are compared in their own precision", ruleFilterComparesInColumnPrecision},
			{"R19.6", "a predicate is unsatisfiable only when min is strictly above max", ruleEmptyRangeStrict},
			{"R18.8", "statements share no mutable package-level state (pools, memos, scratch buffers)", ruleNoNewSharedPackageState},
		},
	})
	register(&Property{
		ID:          "C20",
		Explanation: "Thin: (R20.1) in Materialize nothing filters/projects after the final RestrictLength and the WHERE filter never runs after projection; the scan-level limit is guarded (R19.3); (R20.2) errors of RestrictLength/RestrictViaBitmap/Project/Rename are not dropped (known findings); (R20.3) INSERT INTO writes the SelectRelation result, projected onto the target's columns, and returns WriteCSM's error.",
		NotCovered:  "the relational equalities themselves.",
		Rules: []Rule{
			{"R20.1", "filter → project/alias → LIMIT; errors; INSERT writes what was selected", ruleRelationalOrder},
			{"R20.4", "every select item is bound with its own alias", ruleAliasPerSelectItem},
			{"R18.8", "statements share no mutable package-level state (pools, memos, scratch buffers)", ruleNoNewSharedPackageState},
			{"R19.3", "scan-level limit guarded", rulePushdownGuarded},
		},
	})
	register(&Property{
		ID:          "C23",
		Explanation: "Thin: (R23.1) uda.ColumnToFloat32/64 convert every numeric column slice type a bucket can produce and reject anything else with an error (a missing case returns (nil, nil) and min/max index element 0); (R23.2) every aggregate registered in NewDefaultAggRunner implements uda.AggInterface and its New returns a fresh accumulator; (R23.3) min/max read element 0 only behind the non-empty edge.",
		NotCovered:  "arithmetic results, gap threshold semantics.",
		Rules: []Rule{
			{"R23.1", "column conversion is total over the numeric column types", ruleAggregateInputTotal},
			{"R23.2", "aggregate registry is total and stateless", ruleAggRegistry},
			{"R23.3", "empty input is handled before indexing", ruleEmptyInputHandled},
			{"R23.4", "extremum accumulators are seeded from the input or the correct bound", ruleExtremumSeed},
			{"R23.5", "running sums are kept in float64", ruleAccumulateInFloat64},
			{"R23.6", "gap returns only after a scan when there are two or more rows", ruleGapScanNotBypassed},
		},
	})
	register(&Property{
		ID:          "C24",
		Explanation: "Thin: (R24.1) ColumnSeriesUnion's contract (right operand wins, verified from its body) is used in the trigger with the series built from the just-written records on the RIGHT and the cached series on the left; (R24.3) the error of the aggregate write is logged or propagated, not dropped.",
		NotCovered:  "cache validity for writes spanning an earlier window; OHLCV arithmetic.",
		Rules: []Rule{
			{"R24.1", "fresh records win over cached ones; aggregate write errors", ruleFreshWinsOverCache},
			{"R24.2", "destination windows are aggregated from the whole window's base data", ruleAggregateFromWholeWindow},
			{"R24.4", "no pointer to a range variable outlives its iteration (timeframe bounds)", ruleNoEscapingRangeVarAddress},
			{"R31.3", "window ends come from the calendar-aware functions, never from start + nominal duration", ruleNoNominalDurationArithmetic},
		},
	})
	register(&Property{
		ID:          "C25",
		Explanation: "Structural necessary conditions of replica convergence: (R25.1) the record type passed to the replica's write derives from the write set of the current loop iteration; (R10.3) every caller of GetTimeFromTicks consumes seconds and nanoseconds; (R25.3) ReplicationSender.Send is dominated by the result-checked WAL fsync and sends the same serialized TG that was logged; (R25.4) the replica is wired with executor.ParseTGData and rebuilds times with io.IndexToTime.",
		NotCovered:  "equality of query results; ordering of TGs on the replica.",
		Rules: []Rule{
			{"R25.1", "each write set is replayed with its own record type", ruleReplicaRecordType},
			{"R10.1", "ticks decode keeps the seconds (R10.3) and codec agreement", ruleTicksScaleAgreement},
			{"R25.3", "replicate exactly what was logged, after it is durable; replica decode = WAL decode", ruleReplicateWhatWasLogged},
			{"R25.5", "each write set is placed with the year of its own file path", ruleReplicaYearFromOwnPath},
			{"R28.6", "the bytes queued for the replicas are not backed by a reusable buffer", ruleScratchBufferDoesNotEscape},
			{"R30.5", "the replica rebuilds daily epochs with calendar arithmetic", ruleDailyIndexToTimeOnCalendar},
		},
	})
	register(&Property{
		ID:          "C26",
		Explanation: "Decides the safety clauses only: (R26.1) every access to GRPCReplicationServer.StreamChannels holds a mutex of the server on every path (known findings: there is no mutex at all — concurrent map write/iteration is a fatal runtime error); (R26.2) a channel published in that map is closed only under the lock that excludes the sender (known finding); (R26.3) observation on the blocking fan-out send.",
		NotCovered:  "delivery completeness and order per replica; whether the blocking send is reachable.",
		Rules: []Rule{
			{"R26.1", "the stream map is guarded; published channels are closed safely", ruleStreamMapGuarded},
			{"R26.4", "the stream map key identifies one stream", ruleStreamKeyLossless},
			{"R26.5", "the fan-out to the replicas is a blocking send to every replica", ruleFanOutBlocking},
			{"R26.6", "a replica that goes away is always deregistered", ruleReplicaDeregistered},
		},
	})
	register(&Property{
		ID:          "C27",
		Explanation: "Table agreement decided exhaustively over the finite type tables: (R27.1) typeMap's wire strings are pairwise distinct and typeStrMap is its inverse; (R27.2) every wire type has a decode case in ConvertByteSliceInto whose Go element type has the size and reflect kind attributeMap lists for it (the kind is what maps back to the enum); (R27.3) attributeMap's kinds are pairwise distinct (kindMap is filled by map iteration); (R13.1) merge guard compares types.",
		NotCovered:  "msgpack library behaviour, value equality.",
		Rules: []Rule{
			{"R27.1", "wire type tables are bijective and agree with the decoders", ruleWireTypeTables},
			{"R27.5", "the wire type string is looked up as received", ruleTypeStringLookedUpVerbatim},
			{"R18.8", "the codec keeps no package-level memo between datasets", ruleNoNewSharedPackageState},
			{"R13.1", "merge guard compares types", ruleAppendComparesTypes},
		},
	})
	register(&Property{
		ID:          "C28",
		Explanation: "Serializer/parser agreement decided over the finite field layout: (R28.1) the sequence of fixed byte runs and variable parts emitted per command by serializeTG equals the sequence of cursor increments of ParseTGData, every decode primitive is given a slice of exactly its width, and the same holds for DataShape/DSV, transaction-info and status records and the TG framing constants; (R28.2) no length is narrowed without a bound or a listed justification (known findings: uint8 widths of data shapes); (R28.4) OffsetIndexBuffer accessors match offset:8 index:8 payload.",
		NotCovered:  "equality of decoded content for every command.",
		Rules: []Rule{
			{"R28.1", "serializer and parser agree on field order and widths; buffer accessors", ruleWALRecordLayoutAgreement},
			{"R28.2", "no length is narrowed without a bound", ruleNoLossyNarrowing},
			{"R28.5", "the schema encoding does not shorten names", ruleSchemaEncodingLossless},
			{"R28.6", "TG bytes kept for decoding are not backed by a reusable read buffer", ruleScratchBufferDoesNotEscape},
			{"R28.7", "a write command with an empty payload is decoded", ruleEmptyPayloadDecodes},
			// R28.3 (DSVToBytes error swallowed in serializeTG) removed: DSVToBytes cannot fail for
			// the operand types it is given, so no failing input exists (DESIGN.md §7).
		},
	})
	register(&Property{
		ID:          "C29",
		Explanation: "Row layout agreement decided over the finite type tables: (R29.1) GetColumn has a case for every element type with a non-zero size, the helper it selects returns elements of exactly that size and decodes that many bytes per row, offsets advance by Type.Size(); (R29.2) every serialized row starts with the int64 Epoch, padding is appended once per row after the last column, record lengths use the same AlignedSize on both sides; (R29.4) in the row→column helpers (and the helpers they hand their parameters to) the column offset and the record length reach the buffer only through additions — a division, shift or mask of the offset needs a test on the path that this very value is a multiple.",
		NotCovered:  "value equality, float bit patterns.",
		Rules: []Rule{
			{"R29.1", "column extraction is total and width-correct", ruleColumnExtraction},
			{"R29.2", "writer and reader agree on the row layout; coercion errors", ruleRowLayoutAgreement},
			{"R29.4", "column offsets and strides reach the row buffer exactly (no division/shift/mask without an alignment test)", ruleOffsetsExact},
			{"R18.8", "row → column conversion keeps no package-level memo between schemas", ruleNoNewSharedPackageState},
		},
	})
	register(&Property{
		ID:          "C30",
		Explanation: "Thin: the arithmetic bijection is NOT decided. Decided: (R8.1) the slot index is ≥ 1 on every path, i.e. every slot lies in the data area (known finding: 1D on January 1); (R30.2) every year origin used by the slot mapping is computed in the configured zone (known finding: the ticks encoder uses time.UTC); (R30.3) outside the daily branch TimeToIndex/IndexToTime compute the position in the year as an absolute duration (Sub/Add), never from wall-clock accessors, which are not injective across daylight-saving transitions.",
		NotCovered:  "distinct intervals ↔ distinct slots as arithmetic, leap years, upper bound of the slot range.",
		Rules: []Rule{
			{"R8.1", "slot index ≥ 1", ruleSlotIndexPositive},
			{"R30.2", "one time-zone source", ruleOneTimezoneSource},
			{"R30.3", "intraday slots are a function of absolute time (no wall-clock fields)", ruleIndexFromAbsoluteTime},
			{"R30.4", "slot → offset arithmetic is 64-bit and never narrows", ruleOffsetArithmetic64},
			{"R30.5", "the daily slot → time mapping is calendar arithmetic", ruleDailyIndexToTimeOnCalendar},
		},
	})
	register(&Property{
		ID:          "C32",
		Explanation: "Decides the dispatch plumbing on every path: (R32.1) every element of the slice handed to writePrimary is passed unconditionally to AppendRecord with its index+payload, and DispatchRecords is deferred before any return of the flush; (R32.2) DispatchRecords resets the pending map on every exit and only the flush feeds/dispatches; (R32.3) a trigger goroutine is started only on the Match == true edge, for every matcher, after triggerWg.Add; (R32.4) the trigger pattern is matched anchored and escaped (known finding).",
		NotCovered:  "exactly-once under concurrent writers; payload equality.",
		Rules: []Rule{
			{"R32.1", "every applied write is recorded and dispatched once; matching", ruleTriggerDispatch},
			{"R18.8", "trigger matching keeps no package-level memo shared between matchers", ruleNoNewSharedPackageState},
			{"R32.5", "the per-file write list is not filtered before the triggers see it", ruleTriggerListUnfiltered},
			{"R28.6", "records handed to the asynchronous triggers are not backed by a reusable buffer", ruleScratchBufferDoesNotEscape},
		},
	})
	register(&Property{
		ID:          "C33",
		Explanation: "Error-discipline decided on every path of the CSV import: (R33.1) after csv.Reader.Read fails, a successful return is reachable only through an io.EOF test; (R33.2) when the time columns cannot be built convertCSVtoCSM returns a non-nil error; (R33.3) strconv/time parse errors in the loader are tested; (R33.4) errors of chunk conversion and chunk writing are propagated.",
		NotCovered:  "parsed values, time-zone conversion results.",
		Rules: []Rule{
			{"R33.1", "only EOF ends the read loop; parse failures are errors; chunk errors propagate", ruleCSVImport},
			{"R33.5", "the loader's csv.Reader stays strict (no LazyQuotes, field count enforced)", ruleCSVReaderStrict},
			{"R33.6", "CSV integers are parsed with the width of their column", ruleParseWidthMatchesColumn},
		},
	})
}

// R28.3 — serialization errors are not swallowed.
func ruleSerializeErrors(c *Ctx) {
	c.checkErrorsNotDropped("R28.3", []string{"utils/io.DSVToBytes", "(*utils/io.DataShape).toBytes"},
		func(f *Func) bool { return f.PkgShort() == "executor" || f.PkgShort() == "utils/io" }, 2,
		"a data shape vector that cannot be serialized leaves a WAL record whose parser then reads the next command's bytes as a schema", false)
}
