package main

import (
	"fmt"
	"go/ast"
	"go/token"
	"go/types"
	"strings"
)

// chain checks an ordered sequence of events inside one function: every occurrence of
// step[i+1] is preceded on all paths by step[i] (result-checked when needOK), and every
// possibly-successful exit is preceded by the last step.
type step struct {
	name string
	pred EvPred
}

func (c *Ctx) chain(rule string, s *Scope, steps []step, needOK bool, exitToo bool, exempt func([]Fact) bool, why string) {
	for i := 0; i+1 < len(steps); i++ {
		r := s.Run(Query{Target: steps[i+1].pred, Barrier: steps[i].pred, NeedOK: needOK, Exempt: exempt})
		c.Floor(rule, s.Name, steps[i].name+" sites", r.BarrierSites, 1)
		c.Floor(rule, s.Name, steps[i+1].name+" sites", r.TargetSites, 1)
		c.reportHits(rule, s, "order:"+steps[i].name+"→"+steps[i+1].name, r,
			steps[i+1].name+" is dominated by "+steps[i].name, why+": "+steps[i+1].name+" reachable without "+steps[i].name)
	}
	if exitToo {
		last := steps[len(steps)-1]
		r := s.Run(Query{Barrier: last.pred, NeedOK: needOK, ExitIsTarget: true, OnlyNilErrorReturns: true, Exempt: exempt})
		c.reportHits(rule, s, "order:"+last.name+"→success-exit", r,
			"every possibly-successful exit is dominated by "+last.name, why+": success exit reachable without "+last.name)
	}
}

func callPred(s *Scope, names ...string) EvPred {
	return func(sub, top ast.Node) bool { return isCall(s.Info, sub, names...) }
}

// ---- C04 -----------------------------------------------------------------------------------

// R4.2 — CreateCheckpoint = PREPARING → Syncfs → COMMITCOMPLETE; lastCommittedTGID is cleared
// only after the global sync (bypass branch included).
func ruleCheckpointBrackets(c *Ctx) {
	const rule = "R4.2"
	s := c.S(rule, fnCreateCheckpoint)
	if s == nil {
		return
	}
	c.F(rule, fnSyncfs)
	bypass := func(f []Fact) bool { return factField(s.Info, f, fldWALBypass, true) }
	c.chain(rule, s, []step{
		{"WTI(CHECKPOINT,PREPARING)", func(sub, top ast.Node) bool { return isWTI(s.Info, sub, "CHECKPOINT", "PREPARING") }},
		{"Syncfs", callPred(s, fnSyncfs)},
		{"WTI(CHECKPOINT,COMMITCOMPLETE)", func(sub, top ast.Node) bool { return isWTI(s.Info, sub, "CHECKPOINT", "COMMITCOMPLETE") }},
	}, true, false, bypass, "checkpoint record does not bracket the global sync")
	// clearing the checkpoint candidate and every success exit (except "nothing to checkpoint") is after Syncfs
	clear := func(sub, top ast.Node) bool {
		as, ok := sub.(*ast.AssignStmt)
		if !ok {
			return false
		}
		for _, l := range as.Lhs {
			if fieldKey(s.Info, l) == fldLastCommitted {
				return true
			}
		}
		return false
	}
	r := s.Run(Query{Target: clear, Barrier: callPred(s, fnSyncfs)})
	c.Floor(rule, s.Name, "assignments to lastCommittedTGID", r.TargetSites, 1)
	c.reportHits(rule, s, "clear-candidate-after-Syncfs", r, "lastCommittedTGID is reset only after Syncfs", "checkpoint candidate cleared before the file system was synced")
	nothing := func(f []Fact) bool {
		for _, x := range f {
			if b, ok := isCompare(x.Expr, token.EQL); ok && x.Val && x.Tag == nil {
				if fieldKey(s.Info, b.X) == fldLastCommitted || fieldKey(s.Info, b.Y) == fldLastCommitted {
					return true
				}
			}
		}
		return false
	}
	r2 := s.Run(Query{Barrier: callPred(s, fnSyncfs), ExitIsTarget: true, OnlyNilErrorReturns: true, Exempt: nothing})
	c.reportHits(rule, s, "success-exit-after-Syncfs", r2, "every successful exit with a pending candidate passed Syncfs", "CreateCheckpoint can succeed without syncing the file system")
}

// R4.3 — the WAL is truncated only behind a successful checkpoint, with no flush in between.
func ruleTruncateBehindCheckpoint(c *Ctx) {
	const rule = "R4.3"
	s := c.S(rule, fnSyncWAL)
	if s == nil {
		return
	}
	trunc := func(sub, top ast.Node) bool { return isFileMethodOn(s.Info, sub, fldFilePtr, "Truncate") }
	ck := callPred(s, fnCreateCheckpoint)
	r := s.Run(Query{Target: trunc, Barrier: ck, NeedOK: true})
	c.Floor(rule, s.Name, "WAL truncate sites", r.TargetSites, 1)
	c.Floor(rule, s.Name, "CreateCheckpoint sites", r.BarrierSites, 1)
	for _, h := range r.Hits {
		c.Violate(rule, s.Name, "truncate-after-successful-checkpoint", h.Pos,
			"WAL truncated on a path where CreateCheckpoint did not succeed (its error is not tested, or the failure edge still reaches Truncate): the only durable copy of acknowledged transactions is discarded while Syncfs may not have run", h.Path)
	}
	if len(r.Hits) == 0 {
		c.Hold(rule, s.Name, "truncate-after-successful-checkpoint", c.P.Pos(s.Body.Pos()), "Truncate is dominated by the nil-error edge of CreateCheckpoint")
	}
	r2 := s.Run(Query{Start: callPred(s, fnFlushToWAL), Target: trunc, Barrier: ck})
	c.reportHits(rule, s, "no-flush-between-checkpoint-and-truncate", r2,
		"after any FlushToWAL a Truncate is reachable only through a new CreateCheckpoint", "a flush can slip between checkpoint and truncate: its transactions are discarded un-checkpointed")
}

// R4.4 — WriteStatus rewrites the header in place, fsyncs it, and returns to the end of file.
func ruleWriteStatus(c *Ctx) {
	const rule = "R4.4"
	s := c.S(rule, fnWriteStatus)
	if s == nil {
		return
	}
	seek := func(whence string) EvPred {
		return func(sub, top ast.Node) bool {
			if !isFileMethodOn(s.Info, sub, fldFilePtr, "Seek") {
				return false
			}
			call := sub.(*ast.CallExpr)
			if len(call.Args) != 2 {
				return false
			}
			v, ok := constInt(s.Info, call.Args[0])
			return ok && v == 0 && objKey(s.Info, call.Args[1]) == "io."+whence
		}
	}
	c.chain(rule, s, []step{
		{"Seek(0,SeekStart)", seek("SeekStart")},
		{"Write(status)", func(sub, top ast.Node) bool { return isFileMethodOn(s.Info, sub, fldFilePtr, "Write") }},
		{"Sync", walSyncPred(s)},
		{"Seek(0,SeekEnd)", seek("SeekEnd")},
	}, true, true, nil, "status header update")
}

// ---- C05 -----------------------------------------------------------------------------------

func fieldWriteSites(p *Prog, key string) (out []struct {
	Fn  *Func
	Pos token.Pos
}) {
	for _, fn := range p.NonTestFuncs() {
		if fn.Decl.Body == nil {
			continue
		}
		info := fn.Pkg.TypesInfo
		walkAll(fn.Decl.Body, func(n ast.Node) bool {
			switch x := n.(type) {
			case *ast.AssignStmt:
				for _, l := range x.Lhs {
					if fieldKey(info, l) == key {
						out = append(out, struct {
							Fn  *Func
							Pos token.Pos
						}{fn, l.Pos()})
					}
				}
			case *ast.IncDecStmt:
				if fieldKey(info, x.X) == key {
					out = append(out, struct {
						Fn  *Func
						Pos token.Pos
					}{fn, x.Pos()})
				}
			case *ast.KeyValueExpr:
				if id, ok := x.Key.(*ast.Ident); ok {
					if v, ok := objOf(info, id).(*types.Var); ok && v.IsField() {

						parts := strings.Split(key, ".")
						if v.Name() == parts[len(parts)-1] && v.Pkg() != nil && strings.HasPrefix(key, short(v.Pkg().Path())+".") {
							out = append(out, struct {
								Fn  *Func
								Pos token.Pos
							}{fn, x.Pos()})
						}
					}
				}
			case *ast.UnaryExpr:
				if x.Op == token.AND && fieldKey(info, x.X) == key {
					out = append(out, struct {
						Fn  *Func
						Pos token.Pos
					}{fn, x.Pos()})
				}
			}
			return true
		})

	}
	return out
}

// R5.1 — single writer of the WAL state.
func ruleSingleWALWriter(c *Ctx) {
	const rule = "R5.1"
	c.checkDominated(rule, fnFlushToWAL, map[string]string{fnSyncWAL: "WAL goroutine", fnRequestFlush: "inline flush when no WAL goroutine"}, "WAL flush")
	c.checkDominated(rule, fnFlushCommandsToWAL, map[string]string{fnFlushToWAL: "commit"}, "WAL flush body")
	c.checkDominated(rule, fnCreateCheckpoint, map[string]string{fnSyncWAL: "WAL goroutine", fnReplayTGData: "startup replay"}, "checkpoint")
	c.checkDominated(rule, "(*executor.TransactionPipe).IncrementTGID", map[string]string{fnFlushToWAL: "commit", fnFlushCommandsToWAL: "commit"}, "TGID counter")
	allowed := map[string]bool{"executor.NewWALFile": true, fnTakeOver: true, fnFlushCommandsToWAL: true, fnCreateCheckpoint: true, fnReplayTGData: true}
	sites := fieldWriteSites(c.P, fldLastCommitted)
	c.Floor(rule, "module", "writes of lastCommittedTGID", len(sites), 5)
	allowedDom := c.P.GateDominated(allowed) // helpers reachable only through the allowed writers
	for _, st := range sites {
		c.Check(allowedDom[st.Fn.Key], rule, st.Fn.Key, "write:lastCommittedTGID", c.P.Pos(st.Pos),
			"lastCommittedTGID may be written only by "+fmt.Sprint(sortedKeys(allowed)))
	}
	// tgID field of the pipe: only through atomic helpers / constructor
	tg := fieldWriteSites(c.P, "executor.TransactionPipe.tgID")
	tgAllowed := map[string]bool{"executor.NewTransactionPipe": true, "(*executor.TransactionPipe).IncrementTGID": true, "(*executor.TransactionPipe).TGID": true}
	c.Floor(rule, "module", "writes/address-takes of TransactionPipe.tgID", len(tg), 2)
	for _, st := range tg {
		c.Check(tgAllowed[st.Fn.Key], rule, st.Fn.Key, "write:TransactionPipe.tgID", c.P.Pos(st.Pos), "tgID is modified only by the constructor and the atomic helpers")
	}
	// in RequestFlush the inline FlushToWAL is only on the "no WAL writer" edge
	if s := c.S(rule, fnRequestFlush); s != nil {
		r := s.Run(Query{Target: callPred(s, fnFlushToWAL),
			Exempt: func(f []Fact) bool { return flagFact(s.Info, f, "executor.haveWALWriter", false, false) }})
		c.Floor(rule, s.Name, "inline FlushToWAL sites", r.TargetSites, 1)
		c.reportHits(rule, s, "inline-flush-only-without-WAL-goroutine", r,
			"the direct FlushToWAL call is reachable only on the !haveWALWriter edge", "RequestFlush flushes inline while the WAL goroutine may be flushing too")
	}
}

// R5.2 — one transaction id per commit.
func ruleOneIDPerCommit(c *Ctx) {
	const rule = "R5.2"
	s := c.S(rule, fnFlushCommandsToWAL)
	if s == nil {
		return
	}
	inc := callPred(s, "(*executor.TransactionPipe).IncrementTGID")
	commit := func(sub, top ast.Node) bool { return isWTI(s.Info, sub, "WAL", "COMMITCOMPLETE") }
	r := s.Run(Query{Target: inc, Barrier: commit, Exempt: func(f []Fact) bool { return factField(s.Info, f, fldWALBypass, true) }})
	c.Floor(rule, s.Name, "IncrementTGID sites", r.TargetSites, 1)
	c.reportHits(rule, s, "no-id-change-before-commit-record", r,
		"IncrementTGID is reachable (non-bypass) only after the COMMITCOMPLETE record", "the transaction id changes between serializeTG and the commit record")
	// lastCommittedTGID := id used in COMMITCOMPLETE, before the increment
	setLC := func(sub, top ast.Node) bool {
		as, ok := sub.(*ast.AssignStmt)
		if !ok {
			return false
		}
		for _, l := range as.Lhs {
			if fieldKey(s.Info, l) == fldLastCommitted {
				return true
			}
		}
		return false
	}
	r2 := s.Run(Query{Start: commit, Target: inc, Barrier: setLC})
	c.reportHits(rule, s, "candidate-recorded-before-increment", r2,
		"after COMMITCOMPLETE, lastCommittedTGID is recorded before the id is incremented", "id incremented before the checkpoint candidate is recorded")
	// same value: RHS of the assignment is the object passed as tid to WTI(COMMITCOMPLETE)
	var tidObj types.Object
	var tidCanon string
	for _, n := range s.sites(commit) {
		call := n.(*ast.CallExpr)
		tidObj = identObj(s.Info, call.Args[0])
		tidCanon = canonExpr(s.Info, call.Args[0])
	}
	for _, n := range s.sites(setLC) {
		as := n.(*ast.AssignStmt)
		ok := false
		for i, l := range as.Lhs {
			if fieldKey(s.Info, l) == fldLastCommitted && i < len(as.Rhs) {
				if tidObj != nil && identObj(s.Info, as.Rhs[i]) == tidObj {
					ok = true
				} else if tidObj == nil && canonExpr(s.Info, as.Rhs[i]) == tidCanon {
					ok = true
				}
			}
		}
		c.Check(ok, rule, s.Name, "candidate-is-committed-id", c.P.Pos(as.Pos()), "lastCommittedTGID receives the id written in the COMMITCOMPLETE record")
	}
	if s2 := c.S(rule, fnFlushToWAL); s2 != nil {
		r3 := s2.Run(Query{Start: func(sub, top ast.Node) bool { return isWTI(s2.Info, sub, "WAL", "PREPARING") },
			Target: callPred(s2, "(*executor.TransactionPipe).IncrementTGID")})
		c.reportHits(rule, s2, "no-id-change-after-PREPARING", r3, "no IncrementTGID between the PREPARING record and the hand-over", "id changes between PREPARING and the TG data")
	}
}

// R5.3 — replay applies transaction groups in sorted id order (never in map order).
func ruleReplaySorted(c *Ctx) {
	const rule = "R5.3"
	s := c.S(rule, fnReplay)
	if s == nil {
		return
	}
	file := c.P.FileOf(s.Pkg, s.Body.Pos())
	par := c.P.Parents(file)
	calls := s.sites(callPred(s, fnReplayTGData))
	c.Floor(rule, s.Name, "replayTGData call sites", len(calls), 1)
	for _, n := range calls {
		var loop ast.Node
		for m := par[n]; m != nil; m = par[m] {
			if _, ok := m.(*ast.RangeStmt); ok {
				loop = m
				break
			}
			if _, ok := m.(*ast.ForStmt); ok {
				loop = m
				break
			}
			if _, ok := m.(*ast.FuncDecl); ok {
				break
			}
		}
		// a range loop, or the indexed form `for i := 0; i < len(list); i++` (ascending, step 1)
		var rs *ast.RangeStmt
		if li := asLoop(s.Info, loop); li != nil && li.Over != nil {
			switch x := loop.(type) {
			case *ast.RangeStmt:
				rs = x
			case *ast.ForStmt:
				inc, isInc := x.Post.(*ast.IncDecStmt)
				as, isAs := x.Init.(*ast.AssignStmt)
				zero := false
				if isAs && len(as.Rhs) == 1 {
					v, isC := constInt(s.Info, as.Rhs[0])
					zero = isC && v == 0
				}
				if isInc && inc.Tok == token.INC && identObj(s.Info, inc.X) == li.Index && zero {
					rs = &ast.RangeStmt{For: x.For, X: li.Over, Body: x.Body}
				}
			}
		}
		if rs == nil {
			c.Violate(rule, s.Name, "apply-loop", c.P.Pos(n.Pos()), "replayTGData is not called from a range loop (or an ascending indexed loop) over a sorted slice (cannot establish commit order)", nil)
			continue
		}
		t := s.Info.TypeOf(rs.X)
		if _, isMap := t.Underlying().(*types.Map); isMap {
			c.Violate(rule, s.Name, "apply-loop", c.P.Pos(rs.Pos()), "transaction groups are applied while ranging over a map: Go map order is random, two TGs writing the same slot are applied in arbitrary order", nil)
			continue
		}
		// sc/o/listReady: the scope in which the list is built, the list variable, and the event at
		// which it must be sorted — the range statement itself, or, when the operand is a call of a
		// module function that returns one local list on every path, that function's returns
		sc := s
		o := identObj(s.Info, rs.X)
		listReady := func(sub, top ast.Node) bool { return sub == ast.Node(rs.X) }
		if cx, isCall := unparen(rs.X).(*ast.CallExpr); isCall && o == nil {
			if h := c.P.Funcs[CalleeName(s.Info, cx)]; h != nil && h.Decl.Body != nil && h.Decl.Type.Results != nil && h.Decl.Type.Results.NumFields() == 1 {
				hinfo := h.Pkg.TypesInfo
				var src types.Object
				same := true
				walkAll(h.Decl.Body, func(m ast.Node) bool {
					if _, isLit := m.(*ast.FuncLit); isLit {
						return false
					}
					if ret, ok := m.(*ast.ReturnStmt); ok {
						var ro types.Object
						if len(ret.Results) == 1 {
							ro = identObj(hinfo, ret.Results[0])
						} else if len(ret.Results) == 0 && len(h.Decl.Type.Results.List[0].Names) == 1 {
							ro = hinfo.ObjectOf(h.Decl.Type.Results.List[0].Names[0])
						}
						if ro == nil || (src != nil && ro != src) {
							same = false
						}
						src = ro
					}
					return true
				})
				if same && src != nil {
					sc = c.P.ScopeOf(h)
					o = src
					listReady = func(sub, top ast.Node) bool { _, ok := sub.(*ast.ReturnStmt); return ok }
				}
			}
		}
		if o == nil {
			c.Violate(rule, s.Name, "apply-loop", c.P.Pos(rs.Pos()), "range operand is not a local slice variable; cannot establish that it was sorted", nil)
			continue
		}
		s := sc
		sorted := func(sub, top ast.Node) bool {
			call, ok := sub.(*ast.CallExpr)
			if !ok {
				return false
			}
			switch CalleeName(s.Info, call) {
			case "sort.Sort", "sort.Stable", "sort.Slice", "sort.SliceStable", "slices.Sort", "slices.SortFunc", "slices.SortStableFunc", "sort.Ints":
				if len(call.Args) == 0 || !mentions(s.Info, call.Args[0], o) {
					return false
				}
				// a reversed / wrapped ordering is not the commit order
				rev := false
				walkAll(call.Args[0], func(m ast.Node) bool {
					if cx, ok := m.(*ast.CallExpr); ok && CalleeName(s.Info, cx) == "sort.Reverse" {
						rev = true
					}
					return !rev
				})
				if rev {
					return false
				}
				// sort.Slice with a one-expression less function: it must be ascending
				if len(call.Args) == 2 {
					if lit, ok := unparen(call.Args[1]).(*ast.FuncLit); ok && len(lit.Body.List) == 1 && lit.Type.Params != nil {
						if ret, ok := lit.Body.List[0].(*ast.ReturnStmt); ok && len(ret.Results) == 1 {
							var names []string
							for _, f := range lit.Type.Params.List {
								for _, nm := range f.Names {
									names = append(names, nm.Name)
								}
							}
							if b, ok := unparen(ret.Results[0]).(*ast.BinaryExpr); ok && len(names) == 2 {
								xi, yi := indexVarName(b.X), indexVarName(b.Y)
								switch b.Op {
								case token.LSS, token.LEQ:
									return xi == names[0] && yi == names[1]
								case token.GTR, token.GEQ:
									return xi == names[1] && yi == names[0]
								}
							}
						}
					}
				}
				return true
			}
			return false
		}
		r := s.Run(Query{Target: listReady, Barrier: sorted})
		c.Floor(rule, s.Name, "sort calls on the replay list", r.BarrierSites, 1)
		// no append to the list between sort and loop
		r2 := s.Run(Query{Start: sorted, Target: func(sub, top ast.Node) bool {
			as, ok := sub.(*ast.AssignStmt)
			if !ok {
				return false
			}
			for _, l := range as.Lhs {
				if identObj(s.Info, l) == o {
					return true
				}
			}
			return false
		}})
		c.reportHits(rule, s, "apply-loop-sorted", r, "the apply loop ranges over a slice that was sorted on every path", "the apply loop can run over an unsorted list")
		c.reportHits(rule, s, "apply-list-not-modified-after-sort", r2, "the sorted list is not reassigned after sorting", "the list is modified after it was sorted")
		// the sort order is ascending on the id: Less of the slice type compares with <
		if nt, ok := t.(*types.Named); ok {
			lessKey := "(" + short(nt.Obj().Pkg().Path()) + "." + nt.Obj().Name() + ").Less"
			if lf := c.P.Funcs[lessKey]; lf != nil && lf.Decl.Body != nil && len(lf.Decl.Body.List) == 1 {
				if ret, ok := lf.Decl.Body.List[0].(*ast.ReturnStmt); ok && len(ret.Results) == 1 {
					b, isb := unparen(ret.Results[0]).(*ast.BinaryExpr)
					asc := false
					if isb && (b.Op == token.LSS || b.Op == token.GTR) {
						// tgl[i] < tgl[j]  (or tgl[j] > tgl[i])
						xi := indexVarName(b.X)
						yi := indexVarName(b.Y)
						params := lf.Decl.Type.Params.List
						var names []string
						for _, f := range params {
							for _, nm := range f.Names {
								names = append(names, nm.Name)
							}
						}
						if len(names) == 2 {
							if b.Op == token.LSS {
								asc = xi == names[0] && yi == names[1]
							} else {
								asc = xi == names[1] && yi == names[0]
							}
						}
					}
					c.Check(asc, rule, lessKey, "ascending-order", c.P.Pos(lf.Decl.Pos()), "the replay list's Less orders ids ascending (commit order)")
				}
			}
		}
	}
}

func indexVarName(e ast.Expr) string {
	ix, ok := unparen(e).(*ast.IndexExpr)
	if !ok {
		return ""
	}
	if id, ok := unparen(ix.Index).(*ast.Ident); ok {
		return id.Name
	}
	return ""
}

// ---- C02 / C06 shared ----------------------------------------------------------------------

// R2.1 — a replayed TG is checkpointed before replayTGData reports success.
func ruleReplayCheckpointed(c *Ctx) {
	const rule = "R2.1"
	s := c.S(rule, fnReplayTGData)
	if s == nil {
		return
	}
	r := s.Run(Query{Start: callPred(s, fnWBTF, fnWBTFI), Barrier: callPred(s, fnCreateCheckpoint), NeedOK: true, ExitIsTarget: true, OnlyNilErrorReturns: true})
	c.Floor(rule, s.Name, "primary write sites in replay", r.StartSites, 2)
	c.Floor(rule, s.Name, "CreateCheckpoint sites", r.BarrierSites, 1)
	c.reportHits(rule, s, "checkpoint-after-replayed-writes", r,
		"every successful return after a replayed write passes a result-checked CreateCheckpoint", "replayed data is reported applied without a checkpoint (a crash re-applies it; the WAL file may be deleted before Syncfs)")
	// the checkpoint candidate is set to this TG before the checkpoint
	setLC := func(sub, top ast.Node) bool {
		as, ok := sub.(*ast.AssignStmt)
		if !ok {
			return false
		}
		for _, l := range as.Lhs {
			if fieldKey(s.Info, l) == fldLastCommitted {
				return true
			}
		}
		return false
	}
	r2 := s.Run(Query{Target: callPred(s, fnCreateCheckpoint), Barrier: setLC})
	c.reportHits(rule, s, "candidate-set-before-checkpoint", r2, "lastCommittedTGID is set before CreateCheckpoint (otherwise it returns early without Syncfs)", "CreateCheckpoint runs with no candidate and skips the sync")
}

// R2.2 — readTGData hands out bytes only behind a successful checksum validation, and the
// buffers given to ParseTGData in Replay come only from readTGData.
func ruleChecksumGate(c *Ctx) {
	const rule = "R2.2"
	s := c.S(rule, fnReadTGData)
	if s == nil {
		return
	}
	dataReturn := func(sub, top ast.Node) bool {
		r, ok := sub.(*ast.ReturnStmt)
		if !ok {
			return false
		}
		if len(r.Results) < 2 {
			return len(r.Results) == 0 // bare return with named results: treat as data return
		}
		return !isNilIdent(s.Info, r.Results[1])
	}
	r := s.Run(Query{Target: dataReturn, Barrier: callPred(s, "executor.validateCheckSum"), NeedOK: true, StrictOK: true})
	c.Floor(rule, s.Name, "returns carrying TG bytes", r.TargetSites, 1)
	c.Floor(rule, s.Name, "validateCheckSum sites", r.BarrierSites, 1)
	c.reportHits(rule, s, "bytes-only-behind-checksum", r,
		"every return with non-nil TG bytes is dominated by the nil edge of validateCheckSum", "TG bytes are returned without a successful checksum validation (a torn record would be applied)")
	// validateCheckSum itself: compares with bytes.Equal and returns non-nil on mismatch
	if v := c.S(rule, "executor.validateCheckSum"); v != nil {
		eq := callPred(v, "bytes.Equal", "crypto/subtle.ConstantTimeCompare")
		rv := v.Run(Query{Barrier: eq, ExitIsTarget: true, OnlyNilErrorReturns: true})
		c.Floor(rule, v.Name, "checksum comparisons", rv.BarrierSites, 1)
		c.reportHits(rule, v, "nil-only-after-compare", rv, "validateCheckSum returns nil only after comparing the checksums", "validateCheckSum can accept without comparing")
		// the nil return must be on the equal edge
		rv2 := v.Run(Query{ExitIsTarget: true, OnlyNilErrorReturns: true, Exempt: func(f []Fact) bool {
			for _, x := range f {
				if call, ok := unparen(x.Expr).(*ast.CallExpr); ok && x.Val && CalleeName(v.Info, call) == "bytes.Equal" {
					return true
				}
			}
			return false
		}})
		c.reportHits(rule, v, "nil-only-on-equal-edge", rv2, "a nil result is reachable only through the bytes.Equal == true edge", "validateCheckSum returns nil on a mismatch path")
	}
	// Replay: ParseTGData's argument comes from the map filled by readTGData
	rp := c.S(rule, fnReplay)
	if rp == nil {
		return
	}
	parse := rp.sites(callPred(rp, fnParseTGData))
	c.Floor(rule, rp.Name, "ParseTGData call sites in Replay", len(parse), 1)
	for _, n := range parse {
		call := n.(*ast.CallExpr)
		ok, why := rp.derivesFromReadTGData(call.Args[0], 0)
		c.Check(ok, rule, rp.Name, "ParseTGData-argument-source", c.P.Pos(call.Pos()), "the buffer parsed and applied in Replay derives only from readTGData's checksum-validated result: "+why)
	}
	c.checkDominated(rule, fnParseTGData, map[string]string{fnReplay: "WAL replay", "(*replication.ReplayerImpl).Replay": "replica applies master's TG",
		"cmd/tool/wal.executeWAL": "offline WAL dump tool", "(*internal/di.Container).GetReplicationClientWithRetry": "wires ParseTGData into the replica replayer (received TGs were checksum-validated by the master)"}, "TG parser (trusts every length field)")
}

// derivesFromReadTGData: flow-insensitive definition check.
func (s *Scope) derivesFromReadTGData(e ast.Expr, depth int) (bool, string) {
	if depth > 4 {
		return false, "definition chain too deep"
	}
	e = unparen(e)
	if isNilIdent(s.Info, e) {
		return true, "nil"
	}
	switch x := e.(type) {
	case *ast.Ident:
		o := objOf(s.Info, x)
		if o == nil {
			return false, "unresolved identifier"
		}
		defs := 0
		okAll := true
		why := ""
		s.walk(func(n ast.Node) bool {
			as, ok := n.(*ast.AssignStmt)
			if !ok {
				return true
			}
			for i, l := range as.Lhs {
				if identObj(s.Info, l) != o {
					continue
				}
				defs++
				if len(as.Rhs) == 1 && len(as.Lhs) > 1 {
					if call, ok := unparen(as.Rhs[0]).(*ast.CallExpr); ok && CalleeName(s.Info, call) == fnReadTGData && i == 1 {
						continue
					}
					okAll, why = false, "assigned from a multi-value expression other than readTGData at "+s.P.Pos(as.Pos())
					continue
				}
				if i < len(as.Rhs) {
					if ok2, w := s.derivesFromReadTGData(as.Rhs[i], depth+1); !ok2 {
						okAll, why = false, w
					}
				}
			}
			return true
		})

		if defs == 0 {
			return false, "no definition found for " + x.Name
		}
		if !okAll {
			return false, why
		}
		return true, fmt.Sprintf("%s: %d definition(s) all from readTGData", x.Name, defs)
	case *ast.IndexExpr:
		// element of a map/slice variable: every store into it must derive from readTGData
		o := identObj(s.Info, x.X)
		if o == nil {
			return false, "indexed container is not a local variable"
		}
		stores := 0
		okAll := true
		why := ""
		s.walk(func(n ast.Node) bool {
			as, ok := n.(*ast.AssignStmt)
			if !ok {
				return true
			}
			for i, l := range as.Lhs {
				ix, ok := unparen(l).(*ast.IndexExpr)
				if !ok || identObj(s.Info, ix.X) != o || i >= len(as.Rhs) {
					continue
				}
				stores++
				if ok2, w := s.derivesFromReadTGData(as.Rhs[i], depth+1); !ok2 {
					okAll, why = false, w
				}
			}
			return true
		})

		if stores == 0 {
			return false, "no store into the container found"
		}
		if !okAll {
			return false, why
		}
		return true, fmt.Sprintf("container %s: %d store(s) all from readTGData", o.Name(), stores)
	case *ast.SliceExpr:
		return s.derivesFromReadTGData(x.X, depth+1)
	}
	return false, "expression form not recognised: " + exprString(e)
}

// ---- C07 -----------------------------------------------------------------------------------

// R7.1 — RequestFlush returns only after a flush happened on its behalf.
func ruleRequesterWaits(c *Ctx) {
	const rule = "R7.1"
	s := c.S(rule, fnRequestFlush)
	if s == nil {
		return
	}
	// channels sent on txnPipe.flushChannel
	sent := map[types.Object]bool{}
	s.walk(func(n ast.Node) bool {
		if ss, ok := n.(*ast.SendStmt); ok && fieldKey(s.Info, ss.Chan) == "executor.TransactionPipe.flushChannel" {
			if o := identObj(s.Info, ss.Value); o != nil {
				sent[o] = true
			}
		}
		return true
	})

	waited := func(sub, top ast.Node) bool {
		if isCall(s.Info, sub, fnFlushToWAL) {
			return true
		}
		if u, ok := sub.(*ast.UnaryExpr); ok && u.Op == token.ARROW {
			if o := identObj(s.Info, u.X); o != nil && sent[o] {
				return true
			}
		}
		return false
	}
	r := s.Run(Query{Barrier: waited, ExitIsTarget: true})
	c.Floor(rule, s.Name, "flush/wait sites", r.BarrierSites, 2)
	if len(r.Hits) == 0 {
		c.Hold(rule, s.Name, "every-exit-flushed-or-waited", c.P.Pos(s.Body.Pos()), "every exit passes a direct FlushToWAL or a receive on a channel handed to the WAL goroutine")
	}
	for _, h := range r.Hits {
		// named by the last decision on the path to the exit (the same for an if-chain with
		// early returns and for a switch whose case falls through to the end of the function)
		guard := s.guardDesc(h.Node)
		if h.LastCond != nil {
			if h.LastVal {
				guard = "if[" + canonExpr(s.Info, h.LastCond) + "]"
			} else {
				guard = "else[" + canonExpr(s.Info, h.LastCond) + "]"
			}
		}
		c.Violate(rule, s.Name, "exit-without-flush:"+guard, h.Pos,
			"RequestFlush returns without having flushed or waited for the WAL goroutine: the caller is acknowledged while its commands may still be queued", h.Path)
	}
	// the handed-over channel must be sent before it is waited on
	send := func(sub, top ast.Node) bool {
		ss, ok := sub.(*ast.SendStmt)
		return ok && fieldKey(s.Info, ss.Chan) == "executor.TransactionPipe.flushChannel"
	}
	recv := func(sub, top ast.Node) bool {
		u, ok := sub.(*ast.UnaryExpr)
		if !ok || u.Op != token.ARROW {
			return false
		}
		o := identObj(s.Info, u.X)
		return o != nil && sent[o]
	}
	r2 := s.Run(Query{Target: recv, Barrier: send})
	c.reportHits(rule, s, "send-before-wait", r2, "the wait is preceded by the hand-over of the reply channel", "waits on a channel that was never handed over (deadlock)")
}

// R7.2 — the WAL goroutine acknowledges a flush request only after flushing.
func ruleAckAfterFlushInSyncWAL(c *Ctx) {
	const rule = "R7.2"
	s := c.S(rule, fnSyncWAL)
	if s == nil {
		return
	}
	// variables bound to a value received from flushChannel
	reply := map[types.Object]bool{}
	s.walk(func(n ast.Node) bool {
		if as, ok := n.(*ast.AssignStmt); ok && len(as.Rhs) == 1 && len(as.Lhs) >= 1 {
			if u, ok := unparen(as.Rhs[0]).(*ast.UnaryExpr); ok && u.Op == token.ARROW && fieldKey(s.Info, u.X) == "executor.TransactionPipe.flushChannel" {
				if o := identObj(s.Info, as.Lhs[0]); o != nil {
					reply[o] = true
				}
			}
		}
		return true
	})

	c.Floor(rule, s.Name, "receives from flushChannel", len(reply), 1)
	ack := func(sub, top ast.Node) bool {
		ss, ok := sub.(*ast.SendStmt)
		if ok {
			o := identObj(s.Info, ss.Chan)
			return o != nil && reply[o]
		}
		if call, ok := sub.(*ast.CallExpr); ok && CalleeName(s.Info, call) == "builtin.close" && len(call.Args) == 1 {
			o := identObj(s.Info, call.Args[0])
			return o != nil && reply[o]
		}
		return false
	}
	recvEv := func(sub, top ast.Node) bool {
		u, ok := sub.(*ast.UnaryExpr)
		return ok && u.Op == token.ARROW && fieldKey(s.Info, u.X) == "executor.TransactionPipe.flushChannel"
	}
	r := s.Run(Query{Start: recvEv, Target: ack, Barrier: callPred(s, fnFlushToWAL)})
	c.Floor(rule, s.Name, "acknowledgement sends", r.TargetSites, 1)
	c.reportHits(rule, s, "ack-after-flush", r, "the reply to a flush request is sent only after FlushToWAL ran", "the requester is released before its commands were flushed")
	// every received request is eventually answered on the normal path: from the select case, the ack is reached before the next loop iteration
	// (checked as: inside the comm clause body there is an ack statement not nested in a conditional)
	found := false
	s.walk(func(n ast.Node) bool {
		cc, ok := n.(*ast.CommClause)
		if !ok || cc.Comm == nil {
			return true
		}
		isReq := false
		walkAll(cc.Comm, func(m ast.Node) bool {
			if u, ok := m.(*ast.UnaryExpr); ok && u.Op == token.ARROW && fieldKey(s.Info, u.X) == "executor.TransactionPipe.flushChannel" {
				isReq = true
			}
			return true
		})
		if !isReq {
			return true
		}
		for _, st := range cc.Body {
			if ack(st, st) {
				found = true
			}
			if es, ok := st.(*ast.ExprStmt); ok && ack(es.X, st) {
				found = true
			}
		}
		return true
	})

	c.Check(found, rule, s.Name, "request-always-answered", c.P.Pos(s.Body.Pos()), "the flush-request case answers unconditionally (a requester is never left blocked)")
}

// R7.4 — a successful non-bypass FlushCommandsToWAL has fsynced the WAL.
func ruleFlushSuccessImpliesSync(c *Ctx) {
	const rule = "R7.4"
	s := c.S(rule, fnFlushCommandsToWAL)
	if s == nil {
		return
	}
	r := s.Run(Query{Barrier: walSyncPred(s), NeedOK: true, ExitIsTarget: true, OnlyNilErrorReturns: true,
		Exempt: func(f []Fact) bool { return factField(s.Info, f, fldWALBypass, true) }})
	c.reportHits(rule, s, "success-implies-fsync", r, "every successful non-bypass return passed a result-checked WAL fsync", "FlushCommandsToWAL can report success without a WAL fsync")
}
