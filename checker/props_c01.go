package main

import (
	"fmt"
	"go/ast"
)

// ---- C01: acknowledged writes survive a process crash --------------------------------------

// R1.1 — in FlushCommandsToWAL every call that can reach a primary-file write is preceded, on
// every non-bypass path, by a successful fsync of the WAL file.
func ruleWALSyncBeforePrimary(c *Ctx) {
	const rule = "R1.1"
	s := c.S(rule, fnFlushCommandsToWAL)
	if s == nil {
		return
	}
	for _, k := range []string{fnWBTF, fnWBTFI, fnWritePrimary} {
		c.F(rule, k)
	}
	reach := c.P.primaryReachers()
	syncWr := c.P.wrapperSet(walSyncPred, true, 4)
	barrier := withWrappers(s, walSyncPred(s), syncWr)
	q := Query{
		Target:  callReaches(s, reach),
		Barrier: barrier,
		NeedOK:  true,
		Exempt:  func(f []Fact) bool { return factField(s.Info, f, fldWALBypass, true) },
	}
	r := s.Run(q)
	c.Floor(rule, s.Name, "calls reaching a primary write", r.TargetSites, 1)
	c.Floor(rule, s.Name, "WAL fsync sites", r.BarrierSites, 1)
	c.reportHits(rule, s, "primary-write-after-WAL-fsync", r,
		fmt.Sprintf("%d primary-write call(s) all dominated by a result-checked WAL Sync on the non-bypass path (%d sync site(s), wrappers: %v)", r.TargetSites, r.BarrierSites, sortedKeys(syncWr)),
		"primary file write reachable before the WAL is fsynced")
	// the callers of FlushCommandsToWAL that pass queued commands: FlushToWAL only hands over, no primary write of its own
	if s2 := c.S(rule, fnFlushToWAL); s2 != nil {
		tgt := func(sub, top ast.Node) bool {
			if isCall(s2.Info, sub, fnFlushCommandsToWAL) {
				return false
			}
			return callReaches(s2, reach)(sub, top)
		}
		r2 := s2.Run(Query{Target: tgt})
		c.reportHits(rule, s2, "no-primary-write-outside-FlushCommandsToWAL", r2,
			"FlushToWAL reaches primary writes only through FlushCommandsToWAL", "primary write in FlushToWAL bypasses the WAL fsync")
	}
}

// R1.2 — commit record and TG data precede the fsync; failing WAL writes leave through an error.
func ruleCommitBeforeSync(c *Ctx) {
	const rule = "R1.2"
	s := c.S(rule, fnFlushCommandsToWAL)
	if s == nil {
		return
	}
	c.F(rule, fnSerializeTG)
	syncP := walSyncPred(s)
	commit := func(sub, top ast.Node) bool { return isWTI(s.Info, sub, "WAL", "COMMITCOMPLETE") }
	// (a) Sync only after the COMMITCOMPLETE record was written successfully
	ra := s.Run(Query{Target: syncP, Barrier: commit, NeedOK: true})
	c.Floor(rule, s.Name, "COMMITCOMPLETE writes", ra.BarrierSites, 1)
	c.Floor(rule, s.Name, "WAL fsync sites", ra.TargetSites, 1)
	c.reportHits(rule, s, "commit-record-before-fsync", ra,
		"WAL fsync is dominated by a successful WriteTransactionInfo(_, WAL, COMMITCOMPLETE)", "WAL fsync reachable before the commit record is written")
	// (b) the commit record only after the serialized TG bytes were written successfully
	var tgObjs []string
	tgWrite := func(sub, top ast.Node) bool {
		if !isFileMethodOn(s.Info, sub, fldFilePtr, "Write") {
			return false
		}
		call := sub.(*ast.CallExpr)
		if len(call.Args) != 1 {
			return false
		}
		o := identObj(s.Info, call.Args[0])
		if o == nil {
			return false
		}
		// the object must be defined from serializeTG's result
		def := false
		s.walk(func(n ast.Node) bool {
			if as, ok := n.(*ast.AssignStmt); ok && len(as.Rhs) == 1 {
				if cx, ok := unparen(as.Rhs[0]).(*ast.CallExpr); ok && CalleeName(s.Info, cx) == fnSerializeTG {
					if len(as.Lhs) > 0 && identObj(s.Info, as.Lhs[0]) == o {
						def = true
					}
				}
			}
			return true
		})

		if def {
			tgObjs = append(tgObjs, o.Name())
		}
		return def
	}
	rb := s.Run(Query{Target: commit, Barrier: tgWrite, NeedOK: true})
	c.Floor(rule, s.Name, "writes of the serialized TG", rb.BarrierSites, 1)
	c.reportHits(rule, s, "tg-data-before-commit-record", rb,
		"COMMITCOMPLETE is dominated by a successful write of serializeTG's output to the WAL", "commit record reachable before the transaction data is in the WAL")
	// (c) every WAL write in the function: on its failure edge neither a primary write nor a nil return is reachable
	reach := c.P.primaryReachers()
	walWrite := func(sub, top ast.Node) bool {
		return isFileMethodOn(s.Info, sub, fldFilePtr, "Write", "Sync") || isCall(s.Info, sub, fnWTI)
	}
	sites := s.sites(walWrite)
	c.Floor(rule, s.Name, "WAL write/sync call sites", len(sites), 6)
	for i, n := range sites {
		call := n.(*ast.CallExpr)
		top := s.topOf(call)
		construct := fmt.Sprintf("wal-write-failure-edge[%s#%d]", exprString(call.Fun), i)
		r, ok := errEdgeQuery(s, call, top, callReaches(s, reach), true)
		if !ok {
			c.Violate(rule, s.Name, construct, c.P.Pos(call.Pos()), "error result of a WAL write is discarded", nil)
			continue
		}
		c.reportHits(rule, s, construct, r,
			"failure edge of the WAL write leads only to non-nil error returns", "after a failed WAL write the function still reaches a primary write or returns nil")
	}
	// (d) no WAL record is written after the fsync inside the same flush
	rd := s.Run(Query{Start: syncP, Target: func(sub, top ast.Node) bool {
		return isFileMethodOn(s.Info, sub, fldFilePtr, "Write", "WriteAt", "WriteString") || isCall(s.Info, sub, fnWTI, fnWriteStatus)
	}})
	c.reportHits(rule, s, "no-wal-write-after-fsync", rd, "no WAL write follows the fsync within the flush", "a WAL write follows the fsync and is not covered by it")
}

// R1.3 — WriteCSM acknowledges (returns a possibly-nil error) after queueing records only
// through RequestFlush.
func ruleAckAfterFlush(c *Ctx) {
	const rule = "R1.3"
	s := c.S(rule, fnWriteCSM)
	if s == nil {
		return
	}
	c.F(rule, fnRequestFlush)
	flushWr := c.P.wrapperSet(func(s *Scope) EvPred {
		return func(sub, top ast.Node) bool { return isCall(s.Info, sub, fnRequestFlush) }
	}, false, 4)
	barrier := withWrappers(s, func(sub, top ast.Node) bool { return isCall(s.Info, sub, fnRequestFlush) }, flushWr)
	start := func(sub, top ast.Node) bool { return isCall(s.Info, sub, fnWriteRecords, fnQueueWriteCommand) }
	r := s.Run(Query{Start: start, Barrier: barrier, ExitIsTarget: true, OnlyNilErrorReturns: true})
	c.Floor(rule, s.Name, "WriteRecords call sites", r.StartSites, 1)
	c.Floor(rule, s.Name, "RequestFlush call sites", r.BarrierSites, 1)
	c.reportHits(rule, s, "success-return-after-queue-passes-RequestFlush", r,
		"every possibly-successful return reachable after WriteRecords passes RequestFlush", "WriteCSM can acknowledge queued records without requesting a flush")
	// the package-level WriteCSM and the frontend writer interface delegate to (*Writer).WriteCSM
	if s2 := c.S(rule, "executor.WriteCSM"); s2 != nil {
		r2 := s2.Run(Query{ExitIsTarget: true, OnlyNilErrorReturns: true,
			Barrier: func(sub, top ast.Node) bool { return isCall(s2.Info, sub, fnWriteCSM) }})
		c.reportHits(rule, s2, "delegates-to-Writer.WriteCSM", r2, "package-level WriteCSM succeeds only through (*Writer).WriteCSM", "package-level WriteCSM can succeed without writing")
	}
}

// R1.5 — startup replays left-over WAL files before the WAL goroutine starts / the WAL is published.
func ruleReplayBeforeServing(c *Ctx) {
	const rule = "R1.5"
	s := c.S(rule, fnGetInitWALFile)
	if s == nil {
		return
	}
	c.F(rule, fnCleanup)
	publish := func(sub, top ast.Node) bool {
		if g, ok := sub.(*ast.GoStmt); ok {
			return CalleeName(s.Info, g.Call) == fnSyncWAL
		}
		if as, ok := sub.(*ast.AssignStmt); ok {
			for _, l := range as.Lhs {
				if fieldKey(s.Info, l) == "internal/di.Container.wal" {
					return true
				}
			}
		}
		return false
	}
	cleanup := func(sub, top ast.Node) bool { return isCall(s.Info, sub, fnCleanup) }
	r := s.Run(Query{Target: publish, Barrier: cleanup, NeedOK: true,
		Exempt: func(f []Fact) bool { return factField(s.Info, f, fldWALBypass, true) }})
	c.Floor(rule, s.Name, "publication sites (go SyncWAL / c.wal = ...)", r.TargetSites, 2)
	c.Floor(rule, s.Name, "CleanupOldWALFiles call sites", r.BarrierSites, 1)
	c.reportHits(rule, s, "replay-before-publish", r,
		"go SyncWAL and the publication of c.wal are dominated by a result-checked CleanupOldWALFiles on the non-bypass path",
		"the WAL is put in service before left-over WAL files were replayed (or the replay error is ignored)")
}

// Table T-FS (DESIGN §3): the functions that own file-system mutation in the server packages.
var fsGates = map[string]string{
	"(*executor.WALFileType).open":              "creates/opens a WAL file",
	"(*executor.WALFileType).SyncWAL":           "WAL rotation truncate (guarded by C04 R4.3)",
	"(*executor.WALFileType).Delete":            "removes a replayed WAL file (guarded by C34 R34.1)",
	"(*executor.WALCleaner).CleanupOldWALFiles": "removes a header-only WAL file (guarded by C34 R34.2)",
	"executor/wal.Move":                         "moves an unreplayable WAL file aside",
	"executor.writeFixedBuffer":                 "primary write after the WAL fsync",
	"executor.writeVariableLengthBuffer":        "primary write after the WAL fsync",
	"executor/buffile.New":                      "batching wrapper of the fixed primary write",
	"(*executor.CachedFP).GetFP":                "replay-only file handle cache",
	"executor.deleteInner":                      "explicit range delete (not WAL-logged by design)",
	"catalog.writeCategoryNameFile":             "catalog metadata file",
	"(*catalog.Directory).AddTimeBucket":        "bucket directory creation",
	"catalog.newTimeBucketInfoFromTemplate":     "new year file creation + header",
	"catalog.removeDirFiles":                    "bucket destruction",
	"(*internal/di.Container).GetAbsRootDir":    "creates the data root itself",
}

// R1.4 — nobody outside the owning gates mutates files; primary-file writers run only below
// the WAL flush (after the fsync, R1.1) or startup replay; commands enter the queue only
// through WriteRecords.
func ruleNoForeignWriter(rule string) RuleFn {
	return func(c *Ctx) {
		sites := c.P.fsSinkSites(inServerScope)
		c.Floor(rule, "server packages", "file-mutating call sites", len(sites), 16)
		c.checkGateDominance(rule, sites, fsGates, "file-system mutation")
		for k := range fsGates {
			if c.P.Funcs[k] == nil {
				c.Undecided(rule, k, "gate", "unresolved gate function "+k+" of table T-FS")
			}
		}
		flushOrReplay := map[string]string{fnFlushCommandsToWAL: "flush after WAL fsync", fnReplayTGData: "startup replay"}
		for _, f := range []string{fnWBTF, fnWBTFI, "executor.writeFixedBuffer", "executor.writeVariableLengthBuffer", "executor/buffile.New", "(*executor.CachedFP).GetFP"} {
			c.checkDominated(rule, f, flushOrReplay, "primary-file writer")
		}
		c.checkDominated(rule, fnQueueWriteCommand, map[string]string{fnWriteRecords: "the writer"}, "write-command queue")
		// the WAL file handle is written only by the WAL owner functions
		walOwners := map[string]bool{fnFlushCommandsToWAL: true, fnWTI: true, fnWriteStatus: true, fnSyncWAL: true}
		// a helper extracted from an owner (reachable only through owners) belongs to the owner
		walOwned := c.P.GateDominated(walOwners)
		n := 0
		for _, fn := range c.P.NonTestFuncs() {
			if fn.Decl.Body == nil {
				continue
			}
			info := fn.Pkg.TypesInfo
			walkAll(fn.Decl.Body, func(nd ast.Node) bool {
				if isFileMethodOn(info, nd, fldFilePtr, "Write", "WriteAt", "WriteString", "Truncate") {
					n++
					c.Check(walOwned[fn.Key], rule, fn.Key, "wal-handle-write", c.P.Pos(nd.Pos()),
						"write/truncate on WALFileType.FilePtr must be in "+fmt.Sprint(sortedKeys(walOwners)))
				}
				return true
			})

		}
		c.Floor(rule, "module", "writes through WALFileType.FilePtr", n, 7)
	}
}
