package main

func init() {
	register(&Property{
		ID: "C01",
		Explanation: "Decides the write-ahead SHAPE that crash recovery rests on, on every control-flow path of the current source: " +
			"(R1.1) in FlushCommandsToWAL every call that can reach a primary-file write is dominated, on the non-bypass path, by a result-checked fsync of the WAL file; " +
			"(R1.2) the serialized TG and the COMMITCOMPLETE record are written, with their errors checked, before that fsync, a failed WAL write never reaches a primary write or a nil return, and nothing is appended to the WAL after the fsync; " +
			"(R1.3) WriteCSM cannot return success after queueing records without passing RequestFlush; " +
			"(R1.4) every file-mutating primitive in the server packages lies below the frozen table of owning gates (no un-logged writer); " +
			"(R1.5) startup replays left-over WAL files (error checked) before the WAL goroutine starts and before the WAL is published.",
		NotCovered: "that replay reconstructs the right bytes; behaviour at each syscall boundary; kernel ordering guarantees; the last-acknowledged-value clause for fixed buckets; RequestFlush's queued-flush shortcut (C07 R7.1).",
		Rules: []Rule{
			{"R1.1", "WAL fsync dominates primary writes", ruleWALSyncBeforePrimary},
			{"R1.2", "commit record and TG data before fsync; failed WAL writes abort", ruleCommitBeforeSync},
			{"R1.3", "WriteCSM acknowledges only after RequestFlush", ruleAckAfterFlush},
			{"R1.5", "replay before serving", ruleReplayBeforeServing},
		},
	})
}
