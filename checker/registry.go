package main

func init() {
	register(&Property{
		ID: "C01",
		Explanation: "Decides the write-ahead SHAPE that crash recovery rests on, on every control-flow path of the current source: " +
			"(R1.1) in FlushCommandsToWAL every call that can reach a primary-file write is dominated, on the non-bypass path, by a result-checked fsync of the WAL file; " +
			"(R1.2) the serialized TG and the COMMITCOMPLETE record are written, with their errors checked, before that fsync, a failed WAL write never reaches a primary write or a nil return, and nothing is appended to the WAL after the fsync; " +
			"(R1.3) WriteCSM cannot return success after queueing records without passing RequestFlush; " +
			"(R1.4) every file-mutating primitive in the server packages lies below the frozen table of owning gates (no un-logged writer); " +
			"(R1.5) startup replays left-over WAL files (error checked) before the WAL goroutine starts and before the WAL is published.",
		NotCovered: "that replay reconstructs the right bytes; behaviour at each syscall boundary; kernel ordering guarantees; the last-acknowledged-value clause for fixed buckets; RequestFlush's queued-flush shortcut (C07 R7.1).",
		Rules: []Rule{
			{"R1.1", "WAL fsync dominates primary writes", ruleWALSyncBeforePrimary},
			{"R1.2", "commit record and TG data before fsync; failed WAL writes abort", ruleCommitBeforeSync},
			{"R1.3", "WriteCSM acknowledges only after RequestFlush", ruleAckAfterFlush},
			{"R1.4", "no file mutation outside the owning gates; primary writers only below flush/replay", ruleNoForeignWriter("R1.4")},
			{"R1.5", "replay before serving", ruleReplayBeforeServing},
			{"R5.3", "replay applies TGs in commit order (last acknowledged value wins)", ruleReplaySorted},
			{"R2.2", "only checksum-validated TG bytes are replayed", ruleChecksumGate},
			{"R35.4", "checkpoint records prune replay by id order", ruleCheckpointPrunesReplay},
			{"R3.1", "variable-length primary write: data appended before the index record moves", ruleIndirectAppendOnly},
			{"R34.1", "a WAL file is deleted only when no replay is needed (incl. interrupted replays)", ruleDeleteGuarded},
			{"R2.1", "replayed TG is checkpointed before replay reports success", ruleReplayCheckpointed},
			{"R4.3", "the WAL is truncated only behind a successful checkpoint", ruleTruncateBehindCheckpoint},
			{"R7.5", "one flush takes the whole backlog that was queued when it started", ruleFlushDrainsBacklog},
			{"R7.2", "a flush requester is answered only after a flush that ran after its request was taken", ruleReplyDiscipline},
			{"R7.1", "the requester waits for a flush", ruleRequesterWaits},
			{"R5.2", "the checkpoint candidate is the id of a transaction group that was logged", ruleOneIDPerCommit},
		},
	})
}

func init() {
	register(&Property{
		ID: "C04",
		Explanation: "Decides the fsync/checkpoint/truncate SHAPE needed for power-loss durability on every path: (R1.1/R1.2) WAL fsync dominates primary writes and covers TG data + commit record; " +
			"(R4.2) CreateCheckpoint brackets the global Syncfs with PREPARING/COMMITCOMPLETE records and clears its candidate only after Syncfs; " +
			"(R4.3) in SyncWAL the WAL file is truncated only on the nil-error edge of CreateCheckpoint and never with a FlushToWAL in between; " +
			"(R4.4) WriteStatus = Seek(0) → Write → Sync → Seek(end), each result-checked; (R2.1) replayed TGs are checkpointed (Syncfs) before replay reports success.",
		NotCovered: "which bytes a real device tears, syscall.Sync semantics, loss patterns of un-fsynced primary pages.",
		Rules: []Rule{
			{"R1.1", "WAL fsync dominates primary writes", ruleWALSyncBeforePrimary},
			{"R1.2", "commit record and TG data before fsync", ruleCommitBeforeSync},
			{"R4.2", "checkpoint brackets the global sync", ruleCheckpointBrackets},
			{"R4.3", "truncate only behind a successful checkpoint", ruleTruncateBehindCheckpoint},
			{"R4.4", "status header is written, synced, and the offset restored", ruleWriteStatus},
			{"R2.1", "replayed TG is checkpointed", ruleReplayCheckpointed},
			{"R35.4", "checkpoint records prune replay by id order", ruleCheckpointPrunesReplay},
			{"R34.1", "a WAL file is deleted only when no replay is needed (incl. interrupted replays)", ruleDeleteGuarded},
			{"R3.1", "variable-length primary write: data appended before the index record moves", ruleIndirectAppendOnly},
			{"R5.3", "replay in commit order", ruleReplaySorted},
			{"R7.5", "one flush takes the whole backlog that was queued when it started", ruleFlushDrainsBacklog},
			{"R7.2", "a flush requester is answered only after a flush that ran after its request was taken", ruleReplyDiscipline},
			{"R7.1", "the requester waits for a flush", ruleRequesterWaits},
			{"R5.2", "the checkpoint candidate is the id of a transaction group that was logged", ruleOneIDPerCommit},
			{"R6.6", "replay after power loss: a torn/zero-filled tail does not make replay drop the committed groups before it", ruleReplayRecordResultsAfterErrTest},
		},
	})
	register(&Property{
		ID: "C05",
		Explanation: "Decides the invariants the WAL protocol assumes (not the interleaving model): (R5.1) single writer — FlushToWAL/CreateCheckpoint/IncrementTGID/lastCommittedTGID are reachable only from the WAL goroutine, the inline-flush edge and startup replay; " +
			"(R5.2) one id per commit — no id change between serializeTG and COMMITCOMPLETE, candidate = committed id; (R5.3) replay applies TGs from a sorted slice in ascending id order, never in map order; " +
			"(R2.2) only checksum-validated bytes reach the parser; (R4.3) truncate/checkpoint order.",
		NotCovered: "the interleaving space of flushes, checkpoints, rotations and crashes; trace conformance.",
		Rules: []Rule{
			{"R5.1", "single writer of the WAL state", ruleSingleWALWriter},
			{"R5.2", "one transaction id per commit", ruleOneIDPerCommit},
			{"R5.3", "replay in commit order", ruleReplaySorted},
			{"R2.2", "checksum gate", ruleChecksumGate},
			{"R4.3", "truncate only behind a successful checkpoint", ruleTruncateBehindCheckpoint},
			{"R35.4", "checkpoint records prune replay by id order", ruleCheckpointPrunesReplay},
			{"R4.2", "checkpoint brackets the global sync", ruleCheckpointBrackets},
			{"R34.1", "a WAL file is deleted only when no replay is needed (incl. interrupted replays)", ruleDeleteGuarded},
			{"R2.1", "replayed TG is checkpointed", ruleReplayCheckpointed},
		},
	})
	register(&Property{
		ID: "C07",
		Explanation: "Decides, on every path, that acknowledgement follows the flush: (R7.1) every exit of RequestFlush passes a direct FlushToWAL or a wait on a reply channel handed to the WAL goroutine; " +
			"(R7.2) the WAL goroutine answers a flush request only after FlushToWAL and answers unconditionally; (R1.1) fsync before primary write; (R7.4) a successful non-bypass flush passed the fsync; (R1.3) WriteCSM acknowledges only after RequestFlush.",
		NotCovered: "visibility timing of the primary write under every schedule; errors of writePrimary/FlushToWAL are logged and the request still succeeds.",
		Rules: []Rule{
			{"R7.1", "the requester waits for a flush", ruleRequesterWaits},
			{"R7.2", "reply channels are answered only after a flush, and always", ruleReplyDiscipline},
			{"R1.1", "WAL fsync dominates primary writes", ruleWALSyncBeforePrimary},
			{"R7.4", "flush success implies fsync", ruleFlushSuccessImpliesSync},
			{"R7.5", "one flush takes the whole backlog that was queued when it started", ruleFlushDrainsBacklog},
			{"R1.3", "WriteCSM acknowledges only after RequestFlush", ruleAckAfterFlush},
		},
	})
}

func init() {
	register(&Property{
		ID: "C34",
		Explanation: "Decides the guards around WAL-file removal and replay bookkeeping on every path: (R34.1) Delete removes the file only through the needsReplay==false and not-active edges, is called only from CleanupOldWALFiles and only on Replay's nil-error edge, and NeedsReplay answers false only for states other than NOTREPLAYED/REPLAYINPROCESS; " +
			"(R34.2) the cleanup loop's direct os.Remove is guarded by Size() <= the 10-byte status header; (R34.3) every file operation in the loop is behind the `!= ignoreFile` edge and the ignore file is the instance's own new WAL; " +
			"(R34.4) Replay writes REPLAYINPROCESS before applying and REPLAYED before any successful non-dry-run return; (R2.1) each replayed TG is checkpointed (Syncfs) before success; (R34.6) wal.Move only for ReplayError{Cont}; other replay errors are returned; (R1.4) no other site removes/renames/truncates files.",
		NotCovered: "outcomes for every combination of leftover files and crash points; contents of the replayed data.",
		Rules: []Rule{
			{"R34.1", "deletion only when no replay is needed", ruleDeleteGuarded},
			{"R34.2", "cleanup loop guards (header-only removal, own file skipped, move-aside policy)", ruleCleanupGuards},
			{"R34.4", "replay brackets its work with status records", ruleReplayBrackets},
			{"R34.8", "ReplayError is recognised through error wrapping", ruleReplayErrorUnwrapped},
			{"R34.9", "no checkpoint after a failed replay write", ruleNoCheckpointAfterFailedReplayWrite},
			{"R5.3", "replay applies transaction groups in ascending id order (each replayed group is checkpointed, and a checkpoint covers every lower id)", ruleReplaySorted},
			{"R2.1", "replayed TG is checkpointed", ruleReplayCheckpointed},
			{"R35.4", "checkpoint records (COMMITCOMPLETE only) prune replay by id order", ruleCheckpointPrunesReplay},
			{"R34.7", "no file mutation outside the owning gates", ruleNoForeignWriter("R34.7")},
		},
	})
	register(&Property{
		ID: "C35",
		Explanation: "Decides the graceful-shutdown ordering on every path: (R35.1) on SyncWAL's shutdown edge: clear haveWALWriter → FlushToWAL → CreateCheckpoint → walWaitGroup.Done → return (the only exit); (R35.2) Shutdown = set flag → Wait → finishAndWait, and the wait group is incremented wherever the goroutine is started; " +
			"(R35.3) the signal handler calls WALFileType.Shutdown() before the only os.Exit; (R35.4) the replay apply loop depends on state updated by CHECKPOINT/COMMITCOMPLETE records and prunes by id ORDER (so a checkpointed WAL is not re-applied after restart).",
		NotCovered: "equality of query results before/after; writes racing with the final flush.",
		Rules: []Rule{
			{"R35.1", "shutdown drains in order", ruleShutdownDrains},
			{"R35.2", "Shutdown waits for the drain", ruleShutdownWaits},
			{"R35.3", "exit only after Shutdown", ruleExitAfterShutdown},
			{"R35.4", "checkpoint records prune replay", ruleCheckpointPrunesReplay},
			{"R4.2", "a checkpoint candidate is forgotten only after its COMMITCOMPLETE marker was written (the final checkpoint at shutdown relies on it)", ruleCheckpointBrackets},
			{"R34.9", "no checkpoint after a failed replay write", ruleNoCheckpointAfterFailedReplayWrite},
			{"R5.2", "the checkpoint candidate is the id of a transaction group that was logged, set with the commit record", ruleOneIDPerCommit},
			{"R5.3", "replay in ascending id order", ruleReplaySorted},
		},
	})
	register(&Property{
		ID: "C02",
		Explanation: "Thin structural slice: (R2.1) a replayed TG is checkpointed before replayTGData reports success; (R2.2) TG bytes leave readTGData only behind a successful checksum comparison and only such bytes reach ParseTGData; (R35.4) checkpoint records prune the replay set by id order; (R1.4) no writer outside the WAL flush / replay gates. " +
			"NOT decided and known to be false on today's tree: idempotence of re-applying a variable-length TG after a crash between its primary write and the next checkpoint.",
		NotCovered: "exactly-once of variable-length records across crash points (read-modify-append replay is not idempotent); multiset equality.",
		Rules: []Rule{
			{"R2.1", "replayed TG is checkpointed", ruleReplayCheckpointed},
			{"R2.2", "checksum gate", ruleChecksumGate},
			{"R35.4", "checkpoint records prune replay", ruleCheckpointPrunesReplay},
			{"R2.3", "no phantom writer", ruleNoForeignWriter("R2.3")},
			{"R34.9", "no checkpoint after a failed replay write", ruleNoCheckpointAfterFailedReplayWrite},
			{"R5.1", "the checkpoint candidate is written only by the commit path, the checkpoint and replay", ruleSingleWALWriter},
			{"R5.2", "the checkpoint candidate is the id of a transaction group that was logged", ruleOneIDPerCommit},
			{"R34.1", "replay state gate: replayed files are not replayed again, unfinished ones are", ruleDeleteGuarded},
			{"R5.3", "replay in commit order", ruleReplaySorted},
		},
	})
}

func init() {
	register(&Property{
		ID: "C03",
		Explanation: "Decides structural conditions for a clean restart: (R3.1) in WriteBufferToFileIndirect data is written at the end-of-file offset — no re-positioning between Seek(0,SeekEnd) and the data write (known finding: the in-place continuation write); (R3.2) the index slot is revisited only after the data write and on every success path; " +
			"(R3.3) failures of replayed writes leave replayTGData as wal.ReplayError, the only class startup tolerates (known finding: raw errors); (R3.4) the explicit panic/exit sites reachable from GetInitWALFile are exactly the frozen, justified table; (R6.4) no explicit panic below Replay; (R6.1) untrusted lengths bounded; (R6.5) reader results used only after the error test.",
		NotCovered: "implicit runtime panics other than those bounded by R6.1; readability of every bucket after arbitrary tearing.",
		Rules: []Rule{
			{"R3.1", "indirect data is append-only until the index moves; index after data", ruleIndirectAppendOnly},
			{"R3.3", "replay failures are ReplayErrors", ruleReplayErrorClass},
			{"R3.5", "the catalog scan skips a half-created bucket directory and keeps its siblings", ruleCatalogLoadTolerant},
			{"R3.4", "startup panic sites are the frozen table", ruleStartupPanics},
			{"R34.8", "tolerated replay errors are recognised through error wrapping", ruleReplayErrorUnwrapped},
			{"R6.4", "no explicit panic below Replay", ruleNoPanicUnderReplay},
			{"R6.5", "bytes returned by the WAL reader are used only after its error was tested", ruleReadResultAfterErrCheck},
			{"R6.1", "lengths from the log are bounded on both sides", ruleUntrustedLengths},
		},
	})
	register(&Property{
		ID: "C06",
		Explanation: "Decides, for the readers that run before the checksum gate: (R6.1) every integer decoded from WAL bytes that sizes a buffer or bounds a slice is behind a lower- and an upper-bound test on every path; (R2.2) TG bytes reach the parser/apply loop only behind a successful checksum comparison; " +
			"(R6.3) each iteration of the scan loop reads from the file before the next one and fullRead stops on EOF/short reads (no hang); (R6.4) no explicit panic is reachable from Replay; (R6.5) every caller of wal.Read indexes/decodes the returned buffer only behind the nil-error edge (at EOF or on a short read the buffer is nil/short); (R6.6) the results of readTGData/readTransactionInfo key or fill the replay tables (tgData, offsetTGDataInWAL) only behind the reader's nil-error edge or on a branch no error return can take — a damaged record is skipped, not recorded under TG id 0 (fixed defect: two damaged records made replay give up the whole log).",
		NotCovered: "implicit bounds-check panics inside ParseTGData/DSVFromBytes for checksum-valid but adversarial records; value-level completeness of the set of applied TGs beyond the structural conditions R6.6/R35.4/R5.3.",
		Rules: []Rule{
			{"R6.1", "lengths from the log are bounded on both sides", ruleUntrustedLengths},
			{"R2.2", "checksum gate", ruleChecksumGate},
			{"R6.3", "scan loop progress", ruleReplayLoopProgress},
			{"R6.4", "no explicit panic below Replay", ruleNoPanicUnderReplay},
			{"R6.5", "bytes returned by the WAL reader are used only after its error was tested", ruleReadResultAfterErrCheck},
			{"R35.4", "only a COMPLETE checkpoint record prunes transaction groups (a torn checkpoint must not hide intact ones)", ruleCheckpointPrunesReplay},
			{"R5.3", "intact TGs are applied in commit order", ruleReplaySorted},
			{"R34.8", "a tolerated replay failure is recognised through error wrapping (startup does not abort on it)", ruleReplayErrorUnwrapped},
			{"R6.6", "a damaged record is skipped, not recorded under TG id 0: reader results reach the replay tables only behind the nil-error edge", ruleReplayRecordResultsAfterErrTest},
		},
	})
}
