package main

// Loading of /repo's current working tree: go/packages (type-checked syntax of
// every package of the module, dependencies from export data), per-function
// go/cfg graphs built lazily, and a whole-module call graph (callgraph.go).

import (
	"fmt"
	"go/ast"
	"go/token"
	"go/types"
	"os"
	"sort"
	"strings"

	"golang.org/x/tools/go/cfg"
	"golang.org/x/tools/go/packages"
	"golang.org/x/tools/go/types/typeutil"
)

const modPrefix = "github.com/alpacahq/marketstore/v4/"

// Func is one declared function or method of the module.
type Func struct {
	Key  string // shortened types.Func.FullName, e.g. (*executor.WALFileType).FlushToWAL
	Obj  *types.Func
	Decl *ast.FuncDecl
	Pkg  *packages.Package
}

type Prog struct {
	Dir      string
	Fset     *token.FileSet
	Pkgs     []*packages.Package
	ByPath   map[string]*packages.Package // short import path -> package
	Funcs    map[string]*Func
	ByObj    map[*types.Func]*Func
	FuncSeq  []*Func // deterministic order
	cfgs     map[*ast.BlockStmt]*cfg.CFG
	cg       *CallGraph
	domCache map[string]map[string]bool
	parents  map[*ast.File]map[ast.Node]ast.Node
	// helperSite: the single call site of an extracted private helper (same package); the
	// parent maps continue from the helper's declaration to that call (bridgeHelpers)
	helperSite map[*ast.FuncDecl]*ast.CallExpr
	// helperOwner: key of an extracted helper -> key of the function that calls it; obligations
	// found inside the helper are attributed to the owner (their keys, and the known findings
	// that name them, survive the extraction)
	helperOwner map[string]string
	Tests    bool
	GOARCH   string
	// RoleNotes: anchors that were not found by name and were resolved by role (roles.go)
	RoleNotes []string
	// InlineNotes: anchors analysed together with extracted private helpers (inline.go)
	InlineNotes []string
	helpers     map[*Func][]*Func
}

func short(s string) string { return strings.ReplaceAll(s, modPrefix, "") }

// LoadConfig selects a build configuration.
type LoadConfig struct {
	Dir     string
	Tests   bool
	GOARCH  string
	Overlay map[string][]byte
}

func Load(lc LoadConfig) (*Prog, error) {
	env := []string{}
	for _, e := range os.Environ() {
		if strings.HasPrefix(e, "GOWORK=") || strings.HasPrefix(e, "GOFLAGS=") ||
			strings.HasPrefix(e, "GOARCH=") || strings.HasPrefix(e, "GOPROXY=") ||
			strings.HasPrefix(e, "GOTOOLCHAIN=") || strings.HasPrefix(e, "GOSUMDB=") {
			continue
		}
		env = append(env, e)
	}
	env = append(env, "GOWORK=off", "GOFLAGS=-mod=mod", "GOPROXY=off", "GOSUMDB=off", "GOTOOLCHAIN=local", "CGO_ENABLED=0")
	if lc.GOARCH != "" {
		env = append(env, "GOARCH="+lc.GOARCH)
	}
	fset := token.NewFileSet()
	cfgp := &packages.Config{
		Mode: packages.NeedName | packages.NeedFiles | packages.NeedCompiledGoFiles | packages.NeedImports |
			packages.NeedTypes | packages.NeedTypesSizes | packages.NeedSyntax | packages.NeedTypesInfo | packages.NeedModule,
		Dir:     lc.Dir,
		Env:     env,
		Fset:    fset,
		Tests:   lc.Tests,
		Overlay: lc.Overlay,
	}
	pkgs, err := packages.Load(cfgp, "./...")
	if err != nil {
		return nil, fmt.Errorf("packages.Load: %w", err)
	}
	if len(pkgs) == 0 {
		return nil, fmt.Errorf("no packages loaded from %s", lc.Dir)
	}
	p := &Prog{
		Dir: lc.Dir, Fset: fset, ByPath: map[string]*packages.Package{},
		Funcs: map[string]*Func{}, ByObj: map[*types.Func]*Func{},
		cfgs:    map[*ast.BlockStmt]*cfg.CFG{},
		parents: map[*ast.File]map[ast.Node]ast.Node{},
		Tests:   lc.Tests, GOARCH: lc.GOARCH,
	}
	var errs []string
	for _, pkg := range pkgs {
		for _, e := range pkg.Errors {
			errs = append(errs, pkg.PkgPath+": "+e.Error())
		}
	}
	if len(errs) > 0 {
		sort.Strings(errs)
		if len(errs) > 8 {
			errs = errs[:8]
		}
		return nil, fmt.Errorf("packages failed to load/type-check: %s", strings.Join(errs, "; "))
	}
	sort.Slice(pkgs, func(i, j int) bool { return pkgs[i].ID < pkgs[j].ID })
	for _, pkg := range pkgs {
		if !strings.HasPrefix(pkg.PkgPath, strings.TrimSuffix(modPrefix, "/")) {
			continue
		}
		// with Tests:true a package appears as "p", "p [p.test]", "p_test [p.test]", "p.test".
		// Prefer the test-augmented variant of p (superset of p's files); skip the plain one.
		if lc.Tests {
			if strings.HasSuffix(pkg.ID, ".test") {
				continue
			}
			if !strings.Contains(pkg.ID, " [") && hasTestVariant(pkgs, pkg.PkgPath) {
				continue
			}
		}
		p.Pkgs = append(p.Pkgs, pkg)
		sp := short(pkg.PkgPath)
		if _, dup := p.ByPath[sp]; !dup || !strings.HasSuffix(pkg.Name, "_test") {
			if !strings.HasSuffix(pkg.Name, "_test") {
				p.ByPath[sp] = pkg
			}
		}
		for _, f := range pkg.Syntax {
			for _, d := range f.Decls {
				fd, ok := d.(*ast.FuncDecl)
				if !ok {
					continue
				}
				obj, _ := pkg.TypesInfo.Defs[fd.Name].(*types.Func)
				if obj == nil {
					continue
				}
				key := short(obj.FullName())
				if strings.HasSuffix(pkg.Name, "_test") {
					key = short(pkg.PkgPath) + "_test." + fd.Name.Name
					if fd.Recv != nil {
						key = short(obj.FullName())
					}
				}
				fn := &Func{Key: key, Obj: obj, Decl: fd, Pkg: pkg}
				if fd.Name.Name == "init" || fd.Name.Name == "_" {
					fn.Key = fmt.Sprintf("%s#%s", key, p.Fset.Position(fd.Pos()).Filename)
				}
				if _, dup := p.Funcs[fn.Key]; dup {
					fn.Key = fmt.Sprintf("%s#%s", key, p.Fset.Position(fd.Pos()).Filename)
				}
				p.Funcs[fn.Key] = fn
				p.ByObj[obj] = fn
				p.FuncSeq = append(p.FuncSeq, fn)
			}
		}
	}
	if len(p.Pkgs) == 0 {
		return nil, fmt.Errorf("no module packages loaded")
	}
	p.resolveRoles()
	p.computeFieldAliases()
	p.computeAliases()
	return p, nil
}

func hasTestVariant(pkgs []*packages.Package, path string) bool {
	for _, q := range pkgs {
		if q.PkgPath == path && strings.Contains(q.ID, " [") {
			return true
		}
	}
	return false
}

// Pos renders a position relative to the repo root.
func (p *Prog) Pos(pos token.Pos) string {
	if !pos.IsValid() {
		return "?"
	}
	q := p.Fset.Position(pos)
	return fmt.Sprintf("%s:%d", strings.TrimPrefix(q.Filename, p.Dir+"/"), q.Line)
}

func (p *Prog) File(pos token.Pos) string {
	q := p.Fset.Position(pos)
	return strings.TrimPrefix(q.Filename, p.Dir+"/")
}

func (p *Prog) IsTestFile(pos token.Pos) bool {
	return strings.HasSuffix(p.Fset.Position(pos).Filename, "_test.go")
}

func mayReturn(info *types.Info) func(*ast.CallExpr) bool {
	return func(call *ast.CallExpr) bool {
		switch o := typeutil.Callee(info, call).(type) {
		case *types.Builtin:
			return o.Name() != "panic"
		case *types.Func:
			switch o.FullName() {
			case "os.Exit", "log.Fatal", "log.Fatalf", "log.Fatalln", "log.Panic", "log.Panicf", "runtime.Goexit",
				modPrefix + "utils/log.Fatal":
				return false
			}
		}
		return true
	}
}

// CFG returns the control-flow graph of a function body (declared function or literal).
func (p *Prog) CFG(pkg *packages.Package, body *ast.BlockStmt) *cfg.CFG {
	if g, ok := p.cfgs[body]; ok {
		return g
	}
	g := cfg.New(body, mayReturn(pkg.TypesInfo))
	p.cfgs[body] = g
	return g
}

// Callee resolves the static callee of a call (function, method, interface method), or nil.
func Callee(info *types.Info, call *ast.CallExpr) *types.Func {
	f, _ := typeutil.Callee(info, call).(*types.Func)
	return f
}

// CalleeName returns the shortened full name of the static callee, "" when dynamic,
// "builtin.<name>" for builtins.
func typeutilCallee(info *types.Info, call *ast.CallExpr) types.Object {
	return typeutil.Callee(info, call)
}

func CalleeName(info *types.Info, call *ast.CallExpr) string {
	switch o := typeutil.Callee(info, call).(type) {
	case *types.Func:
		n := short(o.FullName())
		if c, ok := aliasActualToCanon[n]; ok {
			return c // renamed anchor resolved by role (roles.go)
		}
		return n
	case *types.Builtin:
		return "builtin." + o.Name()
	}
	return ""
}

// Parent map of a file (lazy).
func (p *Prog) Parents(f *ast.File) map[ast.Node]ast.Node {
	if m, ok := p.parents[f]; ok {
		return m
	}
	// one map for all files of the package: a rule that follows an extracted helper into
	// another file of the package still finds the parents of its nodes
	files := []*ast.File{f}
	for _, pkg := range p.Pkgs {
		for _, pf := range pkg.Syntax {
			if pf == f {
				files = pkg.Syntax
			}
		}
	}
	m := map[ast.Node]ast.Node{}
	for _, pf := range files {
		var stack []ast.Node
		ast.Inspect(pf, func(n ast.Node) bool {
			if n == nil {
				stack = stack[:len(stack)-1]
				return true
			}
			if len(stack) > 0 {
				m[n] = stack[len(stack)-1]
			}
			stack = append(stack, n)
			return true
		})
	}
	for _, pf := range files {
		p.parents[pf] = m
	}
	p.bridgeHelpers(m)
	return m
}

// bridgeHelpers makes the parent of an extracted helper's declaration its single call site, so
// that a walk over the syntactic ancestors of a node inside the helper continues in the caller.
func (p *Prog) bridgeHelpers(m map[ast.Node]ast.Node) {
	for fd, cs := range p.helperSite {
		if _, ok := m[fd]; ok {
			m[fd] = cs
		}
	}
}

// ownerKey maps the key of an extracted private helper to the baseline function it was cut from.
func (p *Prog) ownerKey(key string) string {
	for i := 0; i < 4; i++ {
		o, ok := p.helperOwner[key]
		if !ok {
			break
		}
		key = o
	}
	return key
}

// funcBoundary: m is a function declaration at which an ancestor walk ends (not a bridged helper).
func (p *Prog) funcBoundary(m ast.Node) bool {
	fd, ok := m.(*ast.FuncDecl)
	return ok && p.helperSite[fd] == nil
}

func (p *Prog) FileOf(pkg *packages.Package, pos token.Pos) *ast.File {
	for _, f := range pkg.Syntax {
		if f.Pos() <= pos && pos <= f.End() {
			return f
		}
	}
	return nil
}

// NonTestFuncs iterates the functions declared outside _test.go files.
func (p *Prog) NonTestFuncs() []*Func {
	var out []*Func
	for _, f := range p.FuncSeq {
		if !p.IsTestFile(f.Decl.Pos()) {
			out = append(out, f)
		}
	}
	return out
}

// pkgShort returns the short path of the package a function belongs to.
func (f *Func) PkgShort() string { return short(f.Pkg.PkgPath) }
