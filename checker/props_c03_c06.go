package main

import (
	"fmt"
	"go/ast"
	"go/token"
	"go/types"
	"sort"
	"strings"
)

// ---- C03 -----------------------------------------------------------------------------------

// methodOn matches a call of method `name` whose receiver expression is the object o
// (used for interface-typed parameters such as fp io.ReadWriteSeeker).
func methodOn(info *types.Info, n ast.Node, o types.Object, names ...string) bool {
	call, ok := n.(*ast.CallExpr)
	if !ok {
		return false
	}
	sel, ok := unparen(call.Fun).(*ast.SelectorExpr)
	if !ok || identObj(info, sel.X) != o || o == nil {
		return false
	}
	for _, nm := range names {
		if sel.Sel.Name == nm {
			return true
		}
	}
	return false
}

func seekWhence(info *types.Info, call *ast.CallExpr) string {
	if len(call.Args) != 2 {
		return ""
	}
	k := objKey(info, call.Args[1])
	return strings.TrimPrefix(k, "io.")
}

// R3.1 / R3.2 — WriteBufferToFileIndirect: data is appended at the end of file and the index
// record is written after the data.
func ruleIndirectAppendOnly(c *Ctx) {
	const rule = "R3.1"
	s := c.S(rule, fnWBTFI)
	if s == nil {
		return
	}
	var fp types.Object
	if s.Type.Params != nil && len(s.Type.Params.List) > 0 && len(s.Type.Params.List[0].Names) > 0 {
		fp = objOf(s.Info, s.Type.Params.List[0].Names[0])
	}
	if fp == nil {
		c.Undecided(rule, s.Name, "file-parameter", "cannot identify the file parameter")
		return
	}
	seekEnd := func(sub, top ast.Node) bool {
		return methodOn(s.Info, sub, fp, "Seek") && seekWhence(s.Info, sub.(*ast.CallExpr)) == "SeekEnd"
	}
	seekOther := func(sub, top ast.Node) bool {
		return methodOn(s.Info, sub, fp, "Seek") && seekWhence(s.Info, sub.(*ast.CallExpr)) != "SeekEnd"
	}
	write := func(sub, top ast.Node) bool { return methodOn(s.Info, sub, fp, "Write", "WriteAt") }
	// every write is preceded by taking the end-of-file offset
	r0 := s.Run(Query{Target: write, Barrier: seekEnd})
	c.Floor(rule, s.Name, "Seek(0, SeekEnd) sites", r0.BarrierSites, 1)
	c.Floor(rule, s.Name, "write sites", r0.TargetSites, 2)
	c.reportHits(rule, s, "writes-after-taking-eof", r0, "every write happens after the end-of-file offset was taken", "a write can happen before the end-of-file offset is known")
	// between taking EOF and the first (data) write the position must not be moved elsewhere
	r := s.Run(Query{Start: seekEnd, Target: seekOther, Barrier: write})
	if len(r.Hits) == 0 {
		c.Hold(rule, s.Name, "data-written-at-eof", c.P.Pos(s.Body.Pos()), "no re-positioning between Seek(0, SeekEnd) and the data write: data is append-only until the index moves")
	}
	for _, h := range r.Hits {
		c.Violate(rule, s.Name, "seek-between-eof-and-data-write:"+s.guardDesc(h.Node), h.Pos,
			"the data write position is moved away from end-of-file (in-place continuation write): between this write and the index update the old index record points into overwritten compressed bytes — a crash there, or a concurrent reader, gets a decode error", h.Path)
	}
	// R3.2: the index slot is revisited only after a write (the data) happened
	const r2 = "R3.2"
	var primOff types.Object
	s.walk(func(n ast.Node) bool {
		if as, ok := n.(*ast.AssignStmt); ok && len(as.Rhs) == 1 && len(as.Lhs) == 1 {
			if call, ok := unparen(as.Rhs[0]).(*ast.CallExpr); ok && CalleeName(s.Info, call) == "(executor/wal.OffsetIndexBuffer).Offset" {
				primOff = identObj(s.Info, as.Lhs[0])
			}
		}
		return true
	})

	if primOff == nil {
		c.Undecided(r2, s.Name, "index-offset-variable", "no variable bound to buffer.Offset() found")
		return
	}
	idxSeek := func(sub, top ast.Node) bool {
		if !methodOn(s.Info, sub, fp, "Seek") {
			return false
		}
		call := sub.(*ast.CallExpr)
		return len(call.Args) == 2 && identObj(s.Info, call.Args[0]) == primOff
	}
	ra := s.Run(Query{Start: seekEnd, Target: idxSeek, Barrier: write})
	c.Floor(r2, s.Name, "seeks to the index slot", ra.TargetSites, 2)
	c.reportHits(r2, s, "index-after-data", ra, "after the end-of-file offset was taken, the index slot is revisited only after the data write", "the index record can be rewritten before the data it points to was written")
	// the function's last write (after the second index seek) is on every success path
	rb := s.Run(Query{Start: seekEnd, Barrier: idxSeek, ExitIsTarget: true, OnlyNilErrorReturns: true})
	c.reportHits(r2, s, "index-updated-on-success", rb, "every successful return after the data write has revisited the index slot", "data is appended but the index record is not updated on some success path")
}

// R3.3 — errors from applying a WAL record during startup replay must be of the class the
// cleaner tolerates (wal.ReplayError); anything else reaches the panic in GetInitWALFile.
func ruleReplayErrorClass(c *Ctx) {
	const rule = "R3.3"
	s := c.S(rule, fnReplayTGData)
	if s == nil {
		return
	}
	sites := s.sites(callPred(s, fnWBTF, fnWBTFI))
	c.Floor(rule, s.Name, "primary write sites in replay", len(sites), 2)
	for _, n := range sites {
		call := n.(*ast.CallExpr)
		top := s.topOf(call)
		callee := CalleeName(s.Info, call)
		target := func(sub, top ast.Node) bool {
			r, ok := sub.(*ast.ReturnStmt)
			if !ok || len(r.Results) == 0 {
				return ok // bare return on a failure edge: raw named error
			}
			t := s.Info.TypeOf(r.Results[len(r.Results)-1])
			return !strings.HasSuffix(short(types.TypeString(t, nil)), "executor/wal.ReplayError")
		}
		r, ok := errEdgeQuery(s, call, top, target, false)
		if !ok {
			c.Violate(rule, s.Name, "error-bound:"+callee, c.P.Pos(call.Pos()), "error of the replayed write is discarded", nil)
			continue
		}
		if len(r.Hits) == 0 {
			c.Hold(rule, s.Name, "raw-error-return-after:"+callee, c.P.Pos(call.Pos()), "failure of the replayed write is reported as wal.ReplayError")
		}
		for _, h := range r.Hits {
			c.Violate(rule, s.Name, "raw-error-return-after:"+callee, h.Pos,
				"a failure of "+callee+" during startup replay is returned as a raw error: CleanupOldWALFiles tolerates only wal.ReplayError, so GetInitWALFile panics and the server refuses to start", h.Path)
		}
	}
}

// R3.4 / R6.4 — explicit panics reachable on the startup / replay path.
type panicSite struct {
	Fn  *Func
	Pos token.Pos
	Arg string
}

func (p *Prog) panicSites() map[string][]panicSite {
	out := map[string][]panicSite{}
	for _, fn := range p.NonTestFuncs() {
		if fn.Decl.Body == nil {
			continue
		}
		info := fn.Pkg.TypesInfo
		walkAll(fn.Decl.Body, func(n ast.Node) bool {
			call, ok := n.(*ast.CallExpr)
			if !ok {
				return true
			}
			switch CalleeName(info, call) {
			case "builtin.panic", "log.Fatal", "log.Fatalf", "log.Panic", "log.Panicf", "os.Exit", "utils/log.Fatal":
				arg := ""
				if len(call.Args) > 0 {
					arg = canonExpr(info, call.Args[0])
				}
				out[fn.Key] = append(out[fn.Key], panicSite{fn, call.Pos(), arg})
			}
			return true
		})

	}
	return out
}

// reachStatic: functions reachable from root through static/go/defer/iface edges restricted
// to the module (ref edges included: a referenced function may be called).
func (c *Ctx) reachModule(root string, stop map[string]bool) map[string]bool {
	return c.P.CG().Reach([]string{root}, stop)
}

var startupPanicTable = map[string]string{
	"(*internal/di.Container).GetInitWALFile|1": "cannot create the WAL file: nothing can be served (configuration/environment error, not crash state)",
	"(*internal/di.Container).GetInitWALFile|2": "CleanupOldWALFiles failed with a non-ReplayError (see R3.3)",
	"(*internal/di.Container).GetAbsRootDir|1":  "root directory path cannot be made absolute / created (configuration error)",
}

func ruleStartupPanics(c *Ctx) {
	const rule = "R3.4"
	c.F(rule, fnGetInitWALFile)
	ps := c.P.panicSites()
	// the startup path of the WAL: GetInitWALFile and everything it can reach, not descending
	// into unrelated subsystems that are wired by reference (replication sender, triggers).
	stop := map[string]bool{
		"(*internal/di.Container).GetReplicationSender":            true,
		"(*internal/di.Container).GetStartTriggerPluginDispatcher": true,
		fnSyncWAL: true,
	}
	reach := c.reachModule(fnGetInitWALFile, stop)
	found := map[string]int{}
	var keys []string
	for k := range reach {
		if stop[k] {
			continue
		}
		if len(ps[k]) > 0 {
			keys = append(keys, k)
		}
	}
	sort.Strings(keys)
	total := 0
	for _, k := range keys {
		if c.P.Funcs[k] == nil || !inServerScope(c.P.Funcs[k]) {
			continue
		}
		for _, site := range ps[k] {
			found[k]++
			total++
			id := fmt.Sprintf("%s|%d", k, found[k])
			why, ok := startupPanicTable[id]
			if ok {
				c.Hold(rule, k, fmt.Sprintf("panic#%d", found[k]), c.P.Pos(site.Pos), "listed startup panic: "+why)
			} else {
				path := c.P.CG().PathTo(fnGetInitWALFile, func(x string) bool { return x == k })
				c.Violate(rule, k, fmt.Sprintf("panic#%d", found[k]), c.P.Pos(site.Pos),
					"explicit panic/exit reachable from startup (GetInitWALFile) that is not in the frozen table: a crash state reaching it makes the server refuse to start; arg="+site.Arg, path)
			}
		}
	}
	c.Floor(rule, fnGetInitWALFile, "known startup panic sites (positive control)", total, 3)
}

// R6.4 — no explicit panic below Replay.
func ruleNoPanicUnderReplay(c *Ctx) {
	const rule = "R6.4"
	c.F(rule, fnReplay)
	ps := c.P.panicSites()
	reach := c.reachModule(fnReplay, nil)
	n := 0
	var keys []string
	for k := range reach {
		keys = append(keys, k)
	}
	sort.Strings(keys)
	for _, k := range keys {
		f := c.P.Funcs[k]
		if f == nil || !inServerScope(f) {
			continue
		}
		for i, site := range ps[k] {
			n++
			path := c.P.CG().PathTo(fnReplay, func(x string) bool { return x == k })
			c.Violate(rule, k, fmt.Sprintf("panic#%d", i+1), c.P.Pos(site.Pos), "explicit panic reachable from WAL replay: damaged log bytes must never panic startup; arg="+site.Arg, path)
		}
	}
	if n == 0 {
		c.Hold(rule, fnReplay, "no-explicit-panic-below-replay", c.P.Pos(c.P.Funcs[fnReplay].Decl.Pos()), fmt.Sprintf("%d module functions reachable from Replay contain no panic/log.Fatal/os.Exit", len(reach)))
	}
	// positive control: the same query rooted at RequestFlush must find FlushToWAL's panic
	ctl := c.reachModule(fnRequestFlush, nil)
	ok := false
	for k := range ctl {
		if k == fnFlushToWAL && len(ps[k]) > 0 {
			ok = true
		}
	}
	c.Check(ok, rule, fnRequestFlush, "positive-control", c.P.Pos(c.P.Funcs[fnFlushToWAL].Decl.Pos()), "the panic in FlushToWAL is found by the same query when rooted at RequestFlush")
}

// ---- C06 -----------------------------------------------------------------------------------

var decodePrims = map[string]bool{
	"utils/io.ToInt64": true, "utils/io.ToInt32": true, "utils/io.ToInt16": true, "utils/io.ToInt8": true,
	"utils/io.ToUInt64": true, "utils/io.ToUInt32": true, "utils/io.ToUint32": true, "utils/io.ToUInt16": true, "utils/io.ToUInt8": true, "utils/io.ToUint8": true,
	"encoding/binary.littleEndian.Uint64": true, "encoding/binary.littleEndian.Uint32": true,
}

// R6.1 — a length decoded from WAL bytes is bounded on both sides before it sizes a buffer
// or bounds a slice, in every reader that runs before the checksum gate.
func ruleUntrustedLengths(c *Ctx) {
	const rule = "R6.1"
	readers := []string{fnReadTGData, "(*executor.WALFileType).readTransactionInfo", "(*executor.WALFileType).readMessageID",
		"executor/wal.ReadStatus", "executor/wal.Read", "executor.readStatus"}
	tainted := 0
	for _, key := range readers {
		s := c.S(rule, key)
		if s == nil {
			continue
		}
		// variables assigned from a decode primitive
		vars := map[types.Object]ast.Node{}
		s.walk(func(n ast.Node) bool {
			as, ok := n.(*ast.AssignStmt)
			if !ok {
				return true
			}
			for i, rhs := range as.Rhs {
				e := unparen(rhs)

				for {
					cx, ok := e.(*ast.CallExpr)
					if ok && len(cx.Args) == 1 {
						if tv, ok := s.Info.Types[cx.Fun]; ok && tv.IsType() {
							e = unparen(cx.Args[0])
							continue
						}
					}
					break
				}
				if cx, ok := e.(*ast.CallExpr); ok && decodePrims[CalleeName(s.Info, cx)] && i < len(as.Lhs) {
					if o := identObj(s.Info, as.Lhs[i]); o != nil {
						t := o.Type().Underlying()
						if b, ok := t.(*types.Basic); ok && b.Info()&types.IsInteger != 0 {
							vars[o] = as
						}
					}
				}
			}
			return true
		})

		for o, def := range vars {
			// uses that size or bound memory
			use := func(sub, top ast.Node) bool {
				switch x := sub.(type) {
				case *ast.CallExpr:
					if CalleeName(s.Info, x) == "builtin.make" && len(x.Args) >= 2 {
						for _, a := range x.Args[1:] {
							if mentions(s.Info, a, o) {
								return true
							}
						}
					}
				case *ast.SliceExpr:
					for _, b := range []ast.Expr{x.Low, x.High, x.Max} {
						if b != nil && mentions(s.Info, b, o) {
							return true
						}
					}
				case *ast.IndexExpr:
					if mentions(s.Info, x.Index, o) {
						return true
					}
				}
				return false
			}
			uses := s.sites(use)
			if len(uses) == 0 {
				c.Hold(rule, s.Name, "decoded:"+o.Name(), c.P.Pos(def.Pos()), "decoded integer does not size or bound memory in this reader")
				continue
			}
			tainted++
			start := func(sub, top ast.Node) bool { return sub == def }
			lower := func(f []Fact) bool { return boundFact(s.Info, f, o, true) }
			upper := func(f []Fact) bool { return boundFact(s.Info, f, o, false) }
			rl := s.Run(Query{Start: start, Target: use, Exempt: lower})
			ru := s.Run(Query{Start: start, Target: use, Exempt: upper})
			for side, r := range map[string]QResult{"lower": rl, "upper": ru} {
				construct := "length-" + side + "-bound:" + o.Name()
				if len(r.Hits) == 0 {
					c.Hold(rule, s.Name, construct, c.P.Pos(def.Pos()), fmt.Sprintf("every use of the decoded length (%d site(s)) is behind a %s-bound test", len(uses), side))
					continue
				}
				for _, h := range r.Hits {
					msg := "a length read from the WAL file reaches " + nodeDesc(s, h.Node) + " without a " + side + " bound"
					if side == "lower" {
						msg += ": a negative value panics in make(), a small value panics in the slice expression — startup replay must not panic on garbage"
					} else {
						msg += ": a huge value allocates unbounded memory"
					}
					c.Violate(rule, s.Name, construct, h.Pos, msg, h.Path)
					break
				}
			}
		}
	}
	c.Floor(rule, "WAL readers", "decoded lengths that size memory", tainted, 1)
}

// boundFact: the facts give a lower (or upper) bound for object o.
func boundFact(info *types.Info, facts []Fact, o types.Object, lower bool) bool {
	for _, f := range facts {
		if f.Tag != nil {
			continue
		}
		e := unparen(f.Expr)
		if call, ok := e.(*ast.CallExpr); ok {
			// sanityCheckValue(fp, v) == true bounds v from above
			if !lower && f.Val && CalleeName(info, call) == "executor.sanityCheckValue" && len(call.Args) == 2 && mentions(info, call.Args[1], o) {
				return true
			}
			continue
		}
		b, ok := e.(*ast.BinaryExpr)
		if !ok {
			continue
		}
		xm, ym := mentions(info, b.X, o), mentions(info, b.Y, o)
		if xm == ym {
			continue
		}
		op := b.Op
		if ym { // mirror so that o is on the left
			switch op {
			case token.LSS:
				op = token.GTR
			case token.LEQ:
				op = token.GEQ
			case token.GTR:
				op = token.LSS
			case token.GEQ:
				op = token.LEQ
			}
		}
		// o op K with truth f.Val
		var givesLower, givesUpper bool
		switch op {
		case token.LSS, token.LEQ: // o < K
			givesUpper = f.Val
			givesLower = !f.Val
		case token.GTR, token.GEQ:
			givesLower = f.Val
			givesUpper = !f.Val
		case token.EQL:
			givesLower, givesUpper = f.Val, f.Val
		case token.NEQ:
			givesLower, givesUpper = !f.Val, !f.Val
		}
		if lower && givesLower || !lower && givesUpper {
			return true
		}
	}
	return false
}

// R6.3 — the replay scan loop makes progress: every iteration consumes WAL bytes (or stops).
func ruleReplayLoopProgress(c *Ctx) {
	const rule = "R6.3"
	s := c.S(rule, fnReplay)
	if s == nil {
		return
	}
	readBase := func(s *Scope) EvPred {
		return func(sub, top ast.Node) bool {
			return isCall(s.Info, sub, "executor/wal.Read") || isFileMethodOn(s.Info, sub, fldFilePtr, "Read")
		}
	}
	wr := c.P.wrapperSet(readBase, false, 4)
	consume := withWrappers(s, readBase(s), wr)
	// the scan loop = the for-statement that contains the readMessageID call
	file := c.P.FileOf(s.Pkg, s.Body.Pos())
	par := c.P.Parents(file)
	var loops []*ast.ForStmt
	for _, n := range s.sites(callPred(s, "(*executor.WALFileType).readMessageID")) {
		for m := par[n]; m != nil; m = par[m] {
			if fs, ok := m.(*ast.ForStmt); ok {
				loops = append(loops, fs)
				break
			}
		}
	}
	c.Floor(rule, s.Name, "scan loops", len(loops), 1)
	for _, fs := range loops {
		if fs.Cond == nil {
			// `for {` loop: use the first statement of the body as the iteration marker
			c.Undecided(rule, s.Name, "scan-loop-shape", "scan loop has no condition expression; iteration marker not identified")
			continue
		}
		head := func(sub, top ast.Node) bool { return sub == ast.Node(fs.Cond) && top == ast.Node(fs.Cond) }
		r := s.Run(Query{Start: head, Target: head, Barrier: consume})
		c.reportHits(rule, s, "scan-loop-consumes-bytes", r, "every iteration of the WAL scan loop reads from the file before the next iteration (no hang on garbage)",
			"an iteration of the WAL scan loop can complete without reading from the file: replay can spin forever on some input")
	}
	// fullRead: stops on EOF and on short reads
	if fr := c.S(rule, "executor.fullRead"); fr != nil {
		hasEOF, hasShort := false, false
		fr.walk(func(n ast.Node) bool {
			if call, ok := n.(*ast.CallExpr); ok {
				switch CalleeName(fr.Info, call) {
				case "errors.Is":
					if len(call.Args) == 2 && objKey(fr.Info, call.Args[1]) == "io.EOF" {
						hasEOF = true
					}
				case "errors.As":
					if len(call.Args) == 2 {
						t := fr.Info.TypeOf(call.Args[1])
						if strings.Contains(short(types.TypeString(t, nil)), "executor/wal.ShortReadError") {
							hasShort = true
						}
					}
				}
			}
			if b, ok := isCompareNode(n, token.EQL); ok && (objKey(fr.Info, b.Y) == "io.EOF" || objKey(fr.Info, b.X) == "io.EOF") {
				hasEOF = true
			}
			return true
		})

		c.Check(hasEOF && hasShort, rule, fr.Name, "stop-classes", c.P.Pos(fr.Body.Pos()), fmt.Sprintf("fullRead classifies io.EOF (%v) and wal.ShortReadError (%v) as end of scan", hasEOF, hasShort))
	}
}
