package main

import (
	"fmt"
	"go/ast"
	"go/token"
	"go/types"
	"sort"
	"strings"
)

// ---- C14 -----------------------------------------------------------------------------------

// R14.1 — WriteRecords is reachable in WriteCSM only through the schema guards.
func ruleGuardedWrite(c *Ctx) {
	const rule = "R14.1"
	s := c.S(rule, fnWriteCSM)
	if s == nil {
		return
	}
	wr := callPred(s, fnWriteRecords)
	gm := callPred(s, "utils/io.GetMissingAndTypeCoercionColumns")
	r := s.Run(Query{Target: wr, Barrier: gm, NeedOK: true})
	c.Floor(rule, s.Name, "WriteRecords sites", r.TargetSites, 1)
	c.Floor(rule, s.Name, "GetMissingAndTypeCoercionColumns sites", r.BarrierSites, 1)
	c.reportHits(rule, s, "schema-compared-before-write", r, "WriteRecords is dominated by a result-checked GetMissingAndTypeCoercionColumns", "records can be queued without comparing the request's columns with the bucket's")
	// missing == nil edge
	var missing types.Object
	s.walk(func(n ast.Node) bool {
		if as, ok := n.(*ast.AssignStmt); ok && len(as.Rhs) == 1 && len(as.Lhs) == 3 {
			if call, ok := unparen(as.Rhs[0]).(*ast.CallExpr); ok && CalleeName(s.Info, call) == "utils/io.GetMissingAndTypeCoercionColumns" {
				missing = identObj(s.Info, as.Lhs[0])
			}
		}
		return true
	})

	if missing == nil {
		c.Violate(rule, s.Name, "missing-columns-consulted", c.P.Pos(s.Body.Pos()), "the list of missing columns returned by GetMissingAndTypeCoercionColumns is discarded", nil)
	} else {
		c.onlyThroughEdge(rule, s, "write-only-when-no-column-missing", wr, func(f []Fact) bool {
			for _, x := range f {
				if o, trueNonNil, ok := nilTest(s.Info, x.Expr); ok && o == missing && x.Val != trueNonNil {
					return true
				}
				// len(missing) == 0 / != 0
				if b, ok := isCompare(x.Expr, token.EQL, token.NEQ, token.GTR); ok && mentions(s.Info, b, missing) {
					if (b.Op == token.EQL) == x.Val {
						return true
					}
				}
			}
			return false
		}, 1, "WriteRecords is reachable only through the `no column missing` edge", "records are queued although the request lacks columns of the bucket")
	}
	// equal column count
	c.onlyThroughEdge(rule, s, "write-only-when-column-counts-agree", wr, func(f []Fact) bool {
		for _, x := range f {
			b, ok := isCompare(x.Expr, token.EQL, token.NEQ)
			if !ok {
				continue
			}
			lx, okx := unparen(b.X).(*ast.CallExpr)
			ly, oky := unparen(b.Y).(*ast.CallExpr)
			if okx && oky && CalleeName(s.Info, lx) == "builtin.len" && CalleeName(s.Info, ly) == "builtin.len" {
				if (b.Op == token.EQL) == x.Val {
					return true
				}
			}
		}
		return false
	}, 1, "WriteRecords is reachable only through the `same number of columns` edge", "records are queued although the request has a different number of columns than the bucket")
	// a failing coercion aborts the write
	c.checkErrorsNotDropped(rule, []string{"(*utils/io.ColumnSeries).CoerceColumnType"}, c.closureScope(fnWriteCSM), 1,
		"a column that cannot be converted to the bucket's type must reject the write", false)
	// … and "handled" is not enough: on the failure edge of the coercion nothing may be queued
	// (logging the error and writing the unconverted column stores bytes of the wrong type)
	nCo := 0
	for _, site := range s.sites(callPred(s, "(*utils/io.ColumnSeries).CoerceColumnType")) {
		call := site.(*ast.CallExpr)
		r, ok := errEdgeQuery(s, call, s.topOf(call), callPred(s, fnWriteRecords), false)
		if !ok {
			c.Undecided(rule, s.Name, "coercion-failure-aborts", "the error of CoerceColumnType is not bound to a variable")
			continue
		}
		nCo++
		c.reportHits(rule, s, "coercion-failure-aborts", r,
			"on the failure edge of CoerceColumnType, WriteRecords is unreachable",
			"WriteRecords is reachable although the coercion of a column failed: the column is written with its original element type into a bucket of another type")
	}
	c.Floor(rule, s.Name, "coercion sites in the write path", nCo, 1)
}

// R14.2 — validate everything before queueing anything.
func ruleValidateBeforeQueue(c *Ctx) {
	const rule = "R14.2"
	s := c.S(rule, fnWriteCSM)
	if s == nil {
		return
	}
	// error returns reachable AFTER a WriteRecords call that are not WriteRecords' own failure
	var ownErr types.Object
	for _, n := range s.sites(callPred(s, fnWriteRecords)) {
		if o, ok := assignedLastResult(s.Info, s.topOf(n), n.(*ast.CallExpr)); ok {
			ownErr = o
		}
	}
	target := func(sub, top ast.Node) bool {
		r, ok := sub.(*ast.ReturnStmt)
		if !ok || len(r.Results) == 0 {
			return false
		}
		last := r.Results[len(r.Results)-1]
		if isNilIdent(s.Info, last) {
			return false
		}
		// WriteRecords' own error (wrapped) is fine
		if ownErr != nil && mentions(s.Info, last, ownErr) && strings.HasPrefix(s.guardDesc(r), "if[") {
			if is := enclosingIf(s, r); is != nil {
				if o, _, ok := nilTest(s.Info, is.Cond); ok && o == ownErr && is.Pos() > s.lastPosOf(fnWriteRecords) {
					return false
				}
			}
		}
		return true
	}
	r := s.Run(Query{Start: callPred(s, fnWriteRecords), Target: target})
	if len(r.Hits) == 0 {
		c.Hold(rule, s.Name, "no-rejection-after-queueing", c.P.Pos(s.Body.Pos()), "once records of one bucket are queued, the request can no longer be rejected for another bucket")
		return
	}
	var where []string
	for _, h := range r.Hits {
		where = append(where, h.Pos)
	}
	sort.Strings(where)
	c.Violate(rule, s.Name, "rejection-after-queueing", where[0],
		fmt.Sprintf("validation and queueing share one loop over the request's buckets: %d validation-error returns are reachable after WriteRecords already queued an earlier bucket's records (%s); those commands stay in the write channel and are flushed by the next request although this request is rejected", len(r.Hits), strings.Join(where, ", ")), r.Hits[0].Path)
}

func enclosingIf(s *Scope, n ast.Node) *ast.IfStmt {
	file := s.P.FileOf(s.Pkg, n.Pos())
	par := s.P.Parents(file)
	for m := par[n]; m != nil; m = par[m] {
		if is, ok := m.(*ast.IfStmt); ok {
			return is
		}
		if _, ok := m.(*ast.FuncDecl); ok {
			return nil
		}
	}
	return nil
}

func (s *Scope) lastPosOf(callee string) token.Pos {
	var p token.Pos
	for _, n := range s.sites(callPred(s, callee)) {
		if n.Pos() > p {
			p = n.Pos()
		}
	}
	return p - 1
}

// ---- C15 R15.3 / C16 R16.1: validators dominate bucket creation ----------------------------------

// validators: module functions recognised by what they compare.
func (p *Prog) findValidators() (keyValidators, schemaValidators map[string]bool) {
	keyValidators, schemaValidators = map[string]bool{}, map[string]bool{}
	for _, fn := range p.NonTestFuncs() {
		if fn.Decl.Body == nil || !returnsError(fn.Obj) {
			continue
		}
		ps := fn.PkgShort()
		if ps != "catalog" && ps != "utils/io" && ps != "frontend" && ps != "executor" {
			continue
		}
		info := fn.Pkg.TypesInfo
		strs := map[string]bool{}
		consts := map[string]bool{}
		sepCheck := false
		walkAll(fn.Decl.Body, func(n ast.Node) bool {
			switch x := n.(type) {
			case *ast.BasicLit:
				if x.Kind == token.STRING {
					if v, ok := constString(info, x); ok {
						strs[v] = true
					}
				}
			case *ast.Ident, *ast.SelectorExpr:
				if k := objKey(info, x.(ast.Expr)); k != "" {
					consts[k] = true
				}
			case *ast.CallExpr:
				nm := CalleeName(info, x)
				if nm == "strings.ContainsAny" || nm == "strings.ContainsRune" || nm == "strings.Contains" || nm == "strings.IndexByte" || nm == "strings.IndexAny" || nm == "strings.ContainsFunc" {
					for _, a := range x.Args[1:] {
						if v, ok := constString(info, a); ok && strings.Contains(v, "/") {
							sepCheck = true
						}
						if objKey(info, a) == "os.PathSeparator" || objKey(info, a) == "path/filepath.Separator" {
							sepCheck = true
						}
					}
				}
			}
			return true
		})

		if strs[".."] && strs["."] && strs[""] && sepCheck {
			keyValidators[fn.Key] = true
		}
		if consts["utils/io.elementNameHeaderBytes"] && consts["utils/io.maxNumElements"] {
			// must be comparisons, not the header declaration itself
			cmp := 0
			walkAll(fn.Decl.Body, func(n ast.Node) bool {
				if b, ok := isCompareNode(n, token.GTR, token.GEQ, token.LSS, token.LEQ); ok {
					if mentionsObjKey(info, b, "utils/io.elementNameHeaderBytes") || mentionsObjKey(info, b, "utils/io.maxNumElements") {
						cmp++
					}
				}
				return true
			})

			if cmp >= 2 {
				schemaValidators[fn.Key] = true
			}
		}
	}
	return
}

func ruleCreationValidated(kind string) RuleFn {
	return func(c *Ctx) {
		rule := "R16.1"
		what := "bucket key items (\"\", \".\", \"..\", path separators)"
		if kind == "schema" {
			rule = "R15.3"
			what = "schema limits of the file header (element name ≤ 32 bytes, ≤ 1024 elements)"
		}
		s := c.S(rule, "(*catalog.Directory).AddTimeBucket")
		if s == nil {
			return
		}
		kv, sv := c.P.findValidators()
		vals := kv
		if kind == "schema" {
			vals = sv
		}
		// wrappers of validators (depth 2)
		for i := 0; i < 2; i++ {
			for k := range c.P.wrapperSet(func(sc *Scope) EvPred {
				return func(sub, top ast.Node) bool {
					call, ok := sub.(*ast.CallExpr)
					return ok && vals[CalleeName(sc.Info, call)]
				}
			}, true, 1) {
				vals[k] = true
			}
		}
		sinks := callPred(s, "os.Mkdir", "os.MkdirAll", "catalog.writeCategoryNameFile", "catalog.newTimeBucketInfoFromTemplate", "os.OpenFile", "os.Create")
		barrier := func(sub, top ast.Node) bool {
			call, ok := sub.(*ast.CallExpr)
			return ok && vals[CalleeName(s.Info, call)]
		}
		r := s.Run(Query{Target: sinks, Barrier: barrier, NeedOK: true})
		c.Floor(rule, s.Name, "file-system creation sites", r.TargetSites, 3)
		if len(vals) == 0 {
			c.Violate(rule, s.Name, "validated-before-creation", c.P.Pos(s.Body.Pos()),
				"no function validating "+what+" exists: AddTimeBucket (the single choke point of Create and WriteCSM) creates directories and files straight from the request", nil)
			return
		}
		c.reportHits(rule, s, "validated-before-creation", r,
			"every directory/file creation in AddTimeBucket is dominated by a result-checked validation of "+what+" ("+strings.Join(sortedKeys(vals), ", ")+")",
			"a directory or file is created before "+what+" were validated")
	}
}

// R16.2 — deletion follows catalog nodes, not strings built from the key.
func ruleDeletionFollowsCatalog(c *Ctx) {
	const rule = "R16.2"
	s := c.S(rule, "catalog.removeDirFiles")
	if s == nil {
		return
	}
	n := 0
	for _, site := range s.sites(callPred(s, "os.RemoveAll", "os.Remove")) {
		n++
		call := site.(*ast.CallExpr)
		arg := resolveLocal(s.Info, s.Body, call.Args[0])
		ok := fieldKey(s.Info, arg) == "catalog.Directory.pathToItemName" && rootIdent(s.Info, arg) != nil && isParam(s, rootIdent(s.Info, arg))
		c.Check(ok, rule, s.Name, "removes-catalog-node-path", c.P.Pos(call.Pos()), "the removed path is the pathToItemName of the *Directory node handed in, not a string built from request data")
	}
	c.Floor(rule, s.Name, "removal sites", n, 1)
	// pathToItemName is immutable after construction
	sites := fieldWriteSites(c.P, "catalog.Directory.pathToItemName")
	for _, st := range sites {
		c.Check(st.Fn.Key == "catalog.load" || st.Fn.Key == "catalog.NewDirectory", rule, st.Fn.Key, "write:pathToItemName", c.P.Pos(st.Pos), "Directory.pathToItemName is set only while the catalog is loaded from disk")
	}
	c.Floor(rule, "catalog", "writes of pathToItemName", len(sites), 2)
	// RemoveTimeBucket hands removeDirFiles only nodes obtained by walking the catalog
	if rt := c.S(rule, "(*catalog.Directory).RemoveTimeBucket"); rt != nil {
		var tree types.Object
		okAll := true
		cnt := 0
		for _, site := range rt.sites(callPred(rt, "catalog.removeDirFiles")) {
			cnt++
			call := site.(*ast.CallExpr)
			ix, ok := resolveLocal(rt.Info, rt.Body, call.Args[0]).(*ast.IndexExpr)
			if !ok {
				okAll = false
				continue
			}
			tree = identObj(rt.Info, ix.X)
		}
		stores := 0
		rt.walk(func(n ast.Node) bool {
			as, ok := n.(*ast.AssignStmt)
			if !ok {
				return true
			}
			for i, l := range as.Lhs {
				ix, ok := unparen(l).(*ast.IndexExpr)
				if !ok || identObj(rt.Info, ix.X) != tree || tree == nil || i >= len(as.Rhs) {
					continue
				}
				stores++
				call, ok := resolveLocal(rt.Info, rt.Body, as.Rhs[i]).(*ast.CallExpr)
				if !ok || CalleeName(rt.Info, call) != "(*catalog.Directory).GetSubDirWithItemName" {
					okAll = false
				}
			}
			return true
		})

		c.Check(okAll && cnt > 0 && stores > 0, rule, rt.Name, "removal-targets-from-catalog-walk", c.P.Pos(rt.Body.Pos()),
			fmt.Sprintf("removeDirFiles is called %d time(s), always on nodes stored from GetSubDirWithItemName (%d store(s)); a key that names no catalog node returns an error first", cnt, stores))
	}
}
