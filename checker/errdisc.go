package main

// K9: error discipline for a listed set of callees.

import (
	"go/ast"
	"go/types"
	"sort"
	"strings"
)

type errUse struct {
	Fn    *Func
	Call  *ast.CallExpr
	Kind  string // propagated | tested | dropped-stmt | dropped-blank | never-tested | tests-different-variable | logged-only
	Canon string
}

// classifyErrorUses finds every non-test call of the given callees and classifies what
// happens to the returned error.
func (p *Prog) classifyErrorUses(callees map[string]bool, scope func(*Func) bool) []errUse {
	var out []errUse
	for _, fn := range p.NonTestFuncs() {
		if fn.Decl.Body == nil || (scope != nil && !scope(fn)) {
			continue
		}
		info := fn.Pkg.TypesInfo
		file := p.FileOf(fn.Pkg, fn.Decl.Pos())
		var par map[ast.Node]ast.Node
		walkAll(fn.Decl.Body, func(n ast.Node) bool {
			call, ok := n.(*ast.CallExpr)
			if !ok || !callees[CalleeName(info, call)] {
				return true
			}
			if par == nil {
				par = p.Parents(file)
			}
			f := Callee(info, call)
			u := errUse{Fn: fn, Call: call, Canon: shortCallee(CalleeName(info, call)) + "(" + canonArgs(info, call) + ")"}
			if f == nil || !returnsError(f) {
				return true
			}
			parent := par[call]
			for {
				if pe, ok := parent.(*ast.ParenExpr); ok {
					parent = par[pe]
					continue
				}
				break
			}
			switch st := parent.(type) {
			case *ast.ExprStmt:
				u.Kind = "dropped-stmt"
			case *ast.ReturnStmt:
				u.Kind = "propagated"
			case *ast.AssignStmt, *ast.ValueSpec:
				obj, ok := assignedLastResult(info, st, call)
				if !ok || obj == nil {
					u.Kind = "dropped-blank"
					break
				}
				u.Kind = classifyBound(p, fn, info, par, st, obj)
			case *ast.IfStmt, *ast.CallExpr, *ast.BinaryExpr, *ast.UnaryExpr:
				u.Kind = "tested"
			case *ast.GoStmt, *ast.DeferStmt:
				u.Kind = "dropped-stmt"
			default:
				u.Kind = "tested"
			}
			out = append(out, u)
			return true
		})

	}
	sort.Slice(out, func(i, j int) bool { return out[i].Call.Pos() < out[j].Call.Pos() })
	return out
}

func shortCallee(s string) string {
	if i := strings.LastIndex(s, "."); i >= 0 {
		return s[i+1:]
	}
	return s
}

func canonArgs(info *types.Info, call *ast.CallExpr) string {
	var parts []string
	for _, a := range call.Args {
		parts = append(parts, canonExpr(info, a))
	}
	return strings.Join(parts, ",")
}

// classifyBound: the error was bound to obj by statement st.
func classifyBound(p *Prog, fn *Func, info *types.Info, par map[ast.Node]ast.Node, st ast.Node, obj types.Object) string {
	// uses of obj after the binding
	tested, returned, loggedOnly := false, false, false
	uses := 0
	walkAll(fn.Decl.Body, func(n ast.Node) bool {
		id, ok := n.(*ast.Ident)
		if !ok || info.ObjectOf(id) != obj || id.Pos() <= st.End() && id.Pos() >= st.Pos() {
			return true
		}
		if id.Pos() < st.Pos() {
			return true
		}

		if as, ok := par[id].(*ast.AssignStmt); ok {
			for _, l := range as.Lhs {
				if l == ast.Expr(id) {
					return true
				}
			}
		}
		uses++
		for m := par[id]; m != nil; m = par[m] {
			switch x := m.(type) {
			case *ast.BinaryExpr:
				if _, _, ok := nilTest(info, x); ok {
					tested = true
				}
			case *ast.ReturnStmt:
				returned = true
			case *ast.CallExpr:
				nm := CalleeName(info, x)
				if strings.HasPrefix(nm, "errors.") || nm == "fmt.Errorf" || strings.Contains(nm, "errors.Wrap") {
					tested = true
				}
			}
			if _, isStmt := m.(ast.Stmt); isStmt {
				break
			}
		}
		return true
	})

	// the statement right after the binding tests a DIFFERENT error variable
	if blk, ok := par[st].(*ast.BlockStmt); ok {
		for i, s2 := range blk.List {
			if s2 == st && i+1 < len(blk.List) {
				if is, ok := blk.List[i+1].(*ast.IfStmt); ok && is.Init == nil {
					if o2, _, ok := nilTest(info, is.Cond); ok && o2 != obj && isErrorType(o2.Type()) {
						return "tests-different-variable"
					}
				}
			}
		}
	}
	// if-with-init form: `if err := f(); err != nil {`
	if is, ok := par[st].(*ast.IfStmt); ok && is.Init == st {
		if o2, _, ok := nilTest(info, is.Cond); ok && o2 == obj {
			tested = true
		} else {
			// cond may be a compound expression mentioning obj
			if mentions(info, is.Cond, obj) {
				tested = true
			}
		}
	}
	_ = loggedOnly
	switch {
	case returned:
		return "propagated"
	case tested:
		// tested: does the failure branch only log? (`if err != nil { log...}` without return) — reported as logged-only
		if onlyLogs(p, fn, info, par, obj, st) {
			return "logged-only"
		}
		return "tested"
	case uses == 0:
		return "never-tested"
	default:
		return "never-tested"
	}
}

// onlyLogs: every `if obj != nil {…}` after st has a body without return/continue/break/panic and
// the function goes on (the error is swallowed after logging).
func onlyLogs(p *Prog, fn *Func, info *types.Info, par map[ast.Node]ast.Node, obj types.Object, st ast.Node) bool {
	found, swallow := false, true
	walkAll(fn.Decl.Body, func(n ast.Node) bool {
		is, ok := n.(*ast.IfStmt)
		if !ok || is.Pos() < st.Pos() {
			return true
		}
		o2, trueNonNil, ok := nilTest(info, is.Cond)
		if !ok || o2 != obj {
			return true
		}
		found = true
		body := is.Body
		if !trueNonNil {
			if eb, ok := is.Else.(*ast.BlockStmt); ok {
				body = eb
			} else {
				return true
			}
		}
		walkAll(body, func(m ast.Node) bool {
			switch x := m.(type) {
			case *ast.ReturnStmt, *ast.BranchStmt:
				swallow = false
			case *ast.CallExpr:
				if !mayReturn(info)(x) {
					swallow = false
				}
			case *ast.AssignStmt:
				_ = x
			}
			return true
		})
		return true
	})

	return found && swallow
}

// checkErrorsNotDropped reports dropped / untested / swallowed errors of the listed callees.
// allowLoggedOnly: logging without propagation is accepted.
func (c *Ctx) checkErrorsNotDropped(rule string, callees []string, scope func(*Func) bool, minSites int, why string, allowLoggedOnly bool) {
	set := map[string]bool{}
	for _, k := range callees {
		set[k] = true
		if c.P.Funcs[k] == nil && !strings.HasPrefix(k, "(") && strings.Count(k, "/") > 0 {
			// module function that must exist
			c.Undecided(rule, k, "anchor", "unresolved callee "+k)
		}
	}
	uses := c.P.classifyErrorUses(set, scope)
	c.Floor(rule, "module", "call sites of "+strings.Join(callees, ", "), len(uses), minSites)
	for _, u := range uses {
		pos := c.P.Pos(u.Call.Pos())
		switch u.Kind {
		case "propagated", "tested":
			c.Hold(rule, u.Fn.Key, "error-use:"+u.Canon, pos, "error is "+u.Kind)
		case "logged-only":
			if allowLoggedOnly {
				c.Hold(rule, u.Fn.Key, "error-use:"+u.Canon, pos, "error is logged (accepted for this rule)")
			} else {
				c.Violate(rule, u.Fn.Key, "swallowed-error:"+u.Canon, pos, why+": the error is only logged and execution continues as if the call had succeeded", nil)
			}
		case "tests-different-variable":
			c.Violate(rule, u.Fn.Key, "wrong-error-variable:"+u.Canon, pos, why+": the error is bound to one variable but the following test checks a different one", nil)
		default:
			c.Violate(rule, u.Fn.Key, "dropped-error:"+u.Canon, pos, why+": the returned error is discarded ("+u.Kind+")", nil)
		}
	}
}
