package main

// Helper-extraction robustness.
//
// A maintainer who extracts part of an anchor function into a helper (or splits a long function
// in two) does not change behaviour, so the rules must not change their verdict. Three pieces:
//
//   * privateHelpers(fn): the same-package functions that are reachable from fn by static calls
//     and have NO other caller in the module (every incoming call-graph edge, tests excluded,
//     is a plain static call from fn or from another private helper of fn). Exactly what an
//     "extract function" refactoring produces. Depth ≤ 3, no recursion.
//   * the expanded control-flow graph (xgraph) used by the path-query engine: at a statement
//     that calls a private helper the helper's CFG is spliced in before the statement, its
//     returns continue at the statement. Path queries therefore see the same event sequences
//     as before the extraction. Returns inside a spliced helper are not exits of the anchor.
//   * Scope.walk visits the anchor's body and the bodies of its private helpers, so site counts
//     and table extraction follow the code. Only scopes resolved as rule anchors (Ctx.S) do
//     this; scopes made while iterating over all functions keep one function = one body.

import (
	_ "embed"
	"go/ast"
	"go/types"
	"sort"
	"strings"

	"golang.org/x/tools/go/cfg"
)

const inlineDepth = 3

// baselineFuncs: the functions that existed when the rule tables were written. The rules know
// these by name (anchors, gates, exception tables) and treat calls to them as opaque on purpose;
// only functions that appeared later — what an extract-function refactoring creates — are
// analysed as part of their single caller. The list decides analysis granularity only, never a
// verdict. Regenerate with `bin/mscheck -dumpfuncs > checker/baseline_funcs.txt`.
//
//go:embed baseline_funcs.txt
var baselineFuncsText string

// each line: key<TAB>receiver|signature
var baselineSig = map[string]string{}

var baselineFuncs = func() map[string]bool {
	m := map[string]bool{}
	for _, l := range strings.Split(baselineFuncsText, "\n") {
		if l = strings.TrimSpace(l); l != "" {
			parts := strings.SplitN(l, "\t", 2)
			m[parts[0]] = true
			if len(parts) == 2 {
				baselineSig[parts[0]] = parts[1]
			}
		}
	}
	return m
}()

func (p *Prog) privateHelpers(fn *Func) []*Func {
	if p.helpers == nil {
		p.helpers = map[*Func][]*Func{}
	}
	if h, ok := p.helpers[fn]; ok {
		return h
	}
	g := p.CG()
	closure := map[string]bool{fn.Key: true}
	var out []*Func
	for depth := 0; depth < inlineDepth; depth++ {
		var cand []*Func
		seen := map[string]bool{}
		for k := range closure {
			for _, e := range g.Out[k] {
				if e.Kind != "static" || closure[e.To] || seen[e.To] {
					continue
				}
				seen[e.To] = true
				h := p.Funcs[e.To]
				if h == nil || h.Decl.Body == nil || h.Pkg != fn.Pkg || p.IsTestFile(h.Decl.Pos()) || baselineFuncs[h.Key] {
					continue
				}
				cand = append(cand, h)
			}
		}
		sort.Slice(cand, func(i, j int) bool { return cand[i].Key < cand[j].Key })
		added := false
		for _, h := range cand {
			ok := true
			n := 0
			for _, e := range g.In[h.Key] {
				if p.IsTestFile(e.From.Decl.Pos()) {
					continue
				}
				n++
				if e.Kind != "static" || !closure[e.From.Key] || e.From.Key == h.Key {
					ok = false
					break
				}
			}
			if ok && n > 0 {
				closure[h.Key] = true
				out = append(out, h)
				added = true
			}
		}
		if !added {
			break
		}
	}
	p.helpers[fn] = out
	return out
}

// baselineFields: the struct fields of the module when the rule tables were written
// ("pkg.Type.Field<TAB>type"). A field that a rule names and that no longer exists is looked
// for under a new name: the struct has exactly one field that is not in the baseline list and
// has the baseline field's type. fieldKey then reports the baseline name, so a pure field
// rename does not unhinge the rules. Regenerate with `bin/mscheck -dumpfields`.
//
//go:embed baseline_fields.txt
var baselineFieldsText string

var fieldAlias = map[string]string{}

func (p *Prog) computeFieldAliases() {
	fieldAlias = map[string]string{}
	type bf struct{ name, typ string }
	base := map[string][]bf{} // struct key → fields
	for _, l := range strings.Split(baselineFieldsText, "\n") {
		parts := strings.SplitN(strings.TrimSpace(l), "\t", 2)
		if len(parts) != 2 {
			continue
		}
		i := strings.LastIndex(parts[0], ".")
		if i < 0 {
			continue
		}
		base[parts[0][:i]] = append(base[parts[0][:i]], bf{parts[0][i+1:], parts[1]})
	}
	for _, pkg := range p.Pkgs {
		if strings.HasSuffix(pkg.Name, "_test") {
			continue
		}
		sc := pkg.Types.Scope()
		for _, n := range sc.Names() {
			tn, ok := sc.Lookup(n).(*types.TypeName)
			if !ok {
				continue
			}
			st, ok := tn.Type().Underlying().(*types.Struct)
			if !ok {
				continue
			}
			sk := short(pkg.PkgPath) + "." + n
			bfs := base[sk]
			if len(bfs) == 0 {
				continue
			}
			baseNames := map[string]bool{}
			for _, f := range bfs {
				baseNames[f.name] = true
			}
			cur := map[string]string{}
			for i := 0; i < st.NumFields(); i++ {
				cur[st.Field(i).Name()] = short(types.TypeString(st.Field(i).Type(), nil))
			}
			for _, f := range bfs {
				if _, still := cur[f.name]; still {
					continue
				}
				var cands []string
				for nm, ty := range cur {
					if !baseNames[nm] && ty == f.typ {
						cands = append(cands, nm)
					}
				}
				if len(cands) == 1 {
					fieldAlias[sk+"."+cands[0]] = sk + "." + f.name
					p.RoleNotes = append(p.RoleNotes, "field "+sk+"."+f.name+" not found; resolved by type to the new field "+cands[0])
				}
			}
		}
	}
}

// objAlias: value identity across an extracted helper's boundary. For a function that did not
// exist at baseline and has exactly ONE static call site in the module, a parameter whose
// argument is a plain identifier denotes the caller's variable, and a caller variable that
// receives a result which the helper always returns from one and the same local denotes that
// local. identObj/mentions resolve through this table, so a rule that asks "is this the value
// that was produced there" keeps working when the code between producer and consumer is cut
// into helpers. Error-typed values are not aliased.
var objAlias = map[types.Object]types.Object{}

func canonObject(o types.Object) types.Object {
	for i := 0; i < 8 && o != nil; i++ {
		n, ok := objAlias[o]
		if !ok || n == o {
			break
		}
		o = n
	}
	return o
}

func (p *Prog) computeAliases() {
	objAlias = map[types.Object]types.Object{}
	p.helperSite = map[*ast.FuncDecl]*ast.CallExpr{}
	p.helperOwner = map[string]string{}
	defer func() {
		for _, m := range p.parents {
			p.bridgeHelpers(m)
		}
	}()
	g := p.CG()
	for _, h := range p.NonTestFuncs() {
		if h.Decl.Body == nil || baselineFuncs[h.Key] {
			continue
		}
		var sites []*CGEdge
		other := false
		for _, e := range g.In[h.Key] {
			if p.IsTestFile(e.From.Decl.Pos()) {
				continue
			}
			if e.Kind == "static" && e.Site != nil {
				sites = append(sites, e)
			} else {
				other = true
			}
		}
		if other || len(sites) != 1 {
			continue
		}
		site := sites[0]
		if site.From.Pkg == h.Pkg && site.From != h {
			p.helperSite[h.Decl] = site.Site
			p.helperOwner[h.Key] = site.From.Key
		}
		cinfo := site.From.Pkg.TypesInfo
		hinfo := h.Pkg.TypesInfo
		sig := h.Obj.Type().(*types.Signature)
		if !sig.Variadic() {
			for i, a := range site.Site.Args {
				po := paramObj(h, i)
				if po == nil || isErrorType(po.Type()) {
					continue
				}
				if id, ok := unparen(a).(*ast.Ident); ok {
					if ao := cinfo.ObjectOf(id); ao != nil {
						if _, isVar := ao.(*types.Var); isVar {
							objAlias[po] = ao
						}
					}
				}
			}
		}
		// results
		var lhs []ast.Expr
		par := p.Parents(p.FileOf(site.From.Pkg, site.Site.Pos()))
		switch st := par[site.Site].(type) {
		case *ast.AssignStmt:
			if len(st.Rhs) == 1 && unparen(st.Rhs[0]) == ast.Expr(site.Site) {
				lhs = st.Lhs
			}
		}
		if len(lhs) == sig.Results().Len() && len(lhs) > 0 {
			for j := range lhs {
				if isErrorType(sig.Results().At(j).Type()) {
					continue
				}
				lo := func() types.Object {
					if id, ok := lhs[j].(*ast.Ident); ok && id.Name != "_" {
						return cinfo.ObjectOf(id)
					}
					return nil
				}()
				if lo == nil {
					continue
				}
				var src types.Object
				okAll := true
				if v := sig.Results().At(j); v.Name() != "" && v.Name() != "_" {
					src = v
				}
				ast.Inspect(h.Decl.Body, func(m ast.Node) bool {
					if _, isLit := m.(*ast.FuncLit); isLit {
						return false
					}
					rs, ok := m.(*ast.ReturnStmt)
					if !ok || len(rs.Results) != sig.Results().Len() {
						return true
					}
					r := unparen(rs.Results[j])
					if tv, ok := hinfo.Types[r]; ok && (tv.IsNil() || tv.Value != nil) {
						return true // nil / constant on an error path
					}
					id, ok := r.(*ast.Ident)
					if !ok {
						okAll = false
						return true
					}
					o := hinfo.ObjectOf(id)
					if src == nil {
						src = o
					} else if src != o {
						okAll = false
					}
					return true
				})
				if okAll && src != nil {
					objAlias[src] = lo
				}
			}
		}
	}
}

// xblock is one segment of a CFG block in the expanded graph.
type xblock struct {
	b      *cfg.Block
	nodes  []ast.Node
	succs  []int
	facts  [][]Fact // per successor (nil for helper-return / split edges)
	inl    int      // 0 = the anchor itself
	live   bool
	noSucc bool // the source block has no successors (exit or dead end)
	// retVal[i]: edge i leaves a spliced helper through a return whose last (error) result is
	// certainly non-nil (1) or the literal nil (2); 0 = unknown / ordinary edge.
	retVal []int8
	// bindObj: this segment starts with the statement that calls a spliced helper and binds the
	// helper's last result to bindObj (nil when the result is not bound to a variable).
	bindObj types.Object
}

type xgraph struct {
	blocks []*xblock
}

// inlinableCalls lists the calls to private helpers evaluated by a CFG node (closures skipped,
// deferred / spawned calls excluded: they do not run at the statement).
func (s *Scope) inlinableCalls(top ast.Node, helpers map[*Func]bool, stack map[*Func]bool) []*Func {
	switch top.(type) {
	case *ast.DeferStmt, *ast.GoStmt:
		return nil
	}
	var out []*Func
	walkPost(top, func(m ast.Node) {
		cx, ok := m.(*ast.CallExpr)
		if !ok {
			return
		}
		f := Callee(s.Info, cx)
		if f == nil {
			return
		}
		h := s.P.ByObj[f]
		if h == nil && f.Origin() != nil {
			h = s.P.ByObj[f.Origin()]
		}
		if h != nil && helpers[h] && !stack[h] {
			out = append(out, h)
		}
	})
	return out
}

func (s *Scope) X() *xgraph {
	if s.xg != nil {
		return s.xg
	}
	xg := &xgraph{}
	helpers := map[*Func]bool{}
	if s.Anchor && s.Fn != nil && s.Body == s.Fn.Decl.Body {
		for _, h := range s.P.privateHelpers(s.Fn) {
			helpers[h] = true
		}
	}
	var build func(g *cfg.CFG, cont int, depth int, stack map[*Func]bool) int
	build = func(g *cfg.CFG, cont int, depth int, stack map[*Func]bool) int {
		if g == nil || len(g.Blocks) == 0 {
			return cont
		}
		entryOf := make([]int, len(g.Blocks))
		lastOf := make([]int, len(g.Blocks))
		for i := range entryOf {
			entryOf[i] = -1
		}
		// first create the entry segment of every block so that successor indexes exist
		for i, b := range g.Blocks {
			xb := &xblock{b: b, inl: depth, live: b.Live}
			xg.blocks = append(xg.blocks, xb)
			entryOf[i] = len(xg.blocks) - 1
			lastOf[i] = entryOf[i]
		}
		for i, b := range g.Blocks {
			cur := entryOf[i]
			for _, top := range b.Nodes {
				var calls []*Func
				if len(helpers) > 0 && depth < inlineDepth {
					calls = s.inlinableCalls(top, helpers, stack)
				}
				for _, h := range calls {
					// continuation segment: starts with (the rest of) this statement
					nb := &xblock{b: b, inl: depth, live: b.Live}
					xg.blocks = append(xg.blocks, nb)
					ni := len(xg.blocks) - 1
					nb.bindObj = s.boundLastResult(top, h)
					stack[h] = true
					he := build(s.P.CFG(h.Pkg, h.Decl.Body), ni, depth+1, stack)
					delete(stack, h)
					xg.blocks[cur].succs = append(xg.blocks[cur].succs, he)
					xg.blocks[cur].facts = append(xg.blocks[cur].facts, nil)
					xg.blocks[cur].retVal = append(xg.blocks[cur].retVal, 0)
					cur = ni
				}
				xg.blocks[cur].nodes = append(xg.blocks[cur].nodes, top)
			}
			lastOf[i] = cur
		}
		for i, b := range g.Blocks {
			last := xg.blocks[lastOf[i]]
			if len(b.Succs) == 0 {
				last.noSucc = true
				if depth > 0 && cont >= 0 {
					// a return (or falling off the end) of a spliced helper continues at the call
					// statement; a block that ends in a no-return call has no continuation
					endsNoReturn := false
					if n := len(b.Nodes); n > 0 {
						if es, ok := b.Nodes[n-1].(*ast.ExprStmt); ok {
							if c, ok := es.X.(*ast.CallExpr); ok && !mayReturn(s.Info)(c) {
								endsNoReturn = true
							}
						}
					}
					if !endsNoReturn && b.Kind != cfg.KindSelectAfterCase {
						last.succs = append(last.succs, cont)
						last.facts = append(last.facts, nil)
						var rv int8
						if n := len(b.Nodes); n > 0 {
							if rs, ok := b.Nodes[n-1].(*ast.ReturnStmt); ok && len(rs.Results) > 0 {
								if s.lastResultCertainlyNonNil(rs) {
									rv = 1
								} else if isNilIdent(s.Info, rs.Results[len(rs.Results)-1]) {
									rv = 2
								}
							}
						}
						last.retVal = append(last.retVal, rv)
					}
				}
				continue
			}
			for k, sb := range b.Succs {
				last.succs = append(last.succs, entryOf[sb.Index])
				last.facts = append(last.facts, s.blockFacts(b, k))
				last.retVal = append(last.retVal, 0)
			}
		}
		return entryOf[0]
	}
	build(s.G, -1, 0, map[*Func]bool{})
	s.xg = xg
	return xg
}

// boundLastResult: the variable that receives the last (error) result of the call to helper h
// made by CFG node top, when that call is the sole right-hand side of an assignment.
func (s *Scope) boundLastResult(top ast.Node, h *Func) types.Object {
	var call *ast.CallExpr
	walkPost(top, func(m ast.Node) {
		if cx, ok := m.(*ast.CallExpr); ok && call == nil {
			if f := Callee(s.Info, cx); f != nil && s.P.ByObj[f] == h {
				call = cx
			}
		}
	})
	if call == nil || !returnsError(h.Obj) {
		return nil
	}
	if o, ok := assignedLastResult(s.Info, top, call); ok {
		return o
	}
	return nil
}

// sigString: receiver type name and parameter/result TYPES (no names) of a function.
func sigString(f *Func) string {
	sig, _ := f.Obj.Type().(*types.Signature)
	if sig == nil {
		return ""
	}
	var ps, rs []string
	for i := 0; i < sig.Params().Len(); i++ {
		ps = append(ps, short(types.TypeString(sig.Params().At(i).Type(), nil)))
	}
	for i := 0; i < sig.Results().Len(); i++ {
		rs = append(rs, short(types.TypeString(sig.Results().At(i).Type(), nil)))
	}
	v := ""
	if sig.Variadic() {
		v = "..."
	}
	return recvName(f) + "|(" + strings.Join(ps, ",") + v + ")(" + strings.Join(rs, ",") + ")"
}
