package main

import (
	"fmt"
	"go/ast"
	"go/constant"
	"go/token"
	"go/types"
	"sort"
	"strings"
)

// ---- C19 -----------------------------------------------------------------------------------

// R19.2 — a rejected comparison is not silently dropped.
func ruleComparisonErrors(c *Ctx) {
	const rule = "R19.2"
	c.checkErrorsNotDropped(rule, []string{"(*sqlparser.StaticPredicate).AddComparison", "(sqlparser.StaticPredicateGroup).AddComparison"},
		func(f *Func) bool { return f.PkgShort() == "sqlparser" }, 10,
		"AddComparison rejects incomparable operands with an error; dropping it makes the WHERE term vanish and the statement return rows that do not satisfy it", false)
}

// R19.3 — the scan-level LIMIT push-down happens only when the statement has NO predicates (and
// no functions): the post-filter that runs after the scan can only remove rows, so a row limit
// applied to the scan while a predicate is still to be evaluated cuts rows before the filter and
// the statement returns fewer than LIMIT matching rows although more exist. The guard must
// therefore establish len(StaticPredicates) == 0 on the push-down edge; a guard closure is
// accepted when it cannot return anything but `true` except behind that fact.
func rulePushdownGuarded(c *Ctx) {
	const rule = "R19.3"
	const fld = "sqlparser.SelectRelation.StaticPredicates"
	s := c.S(rule, "(*sqlparser.SelectRelation).Materialize")
	if s == nil {
		return
	}
	// fact "len(X.StaticPredicates) == 0"
	lenZero := func(info *types.Info, f []Fact) bool {
		for _, x := range f {
			if x.Tag != nil {
				continue
			}
			b, ok := isCompare(x.Expr, token.EQL, token.NEQ, token.GTR, token.LEQ)
			if !ok {
				continue
			}
			l, k := b.X, b.Y
			op := b.Op
			if _, isC := constInt(info, k); !isC {
				l, k = b.Y, b.X
				switch op { // mirror
				case token.GTR:
					op = token.LSS
				case token.LEQ:
					op = token.GEQ
				}
			}
			kv, isC := constInt(info, k)
			call, isCall := unparen(l).(*ast.CallExpr)
			if !isC || kv != 0 || !isCall || len(call.Args) != 1 {
				continue
			}
			if id, ok := unparen(call.Fun).(*ast.Ident); !ok || id.Name != "len" || fieldKey(info, call.Args[0]) != fld {
				continue
			}
			// len == 0 true | len != 0 false | len > 0 false | len <= 0 true
			zeroWhenTrue := op == token.EQL || op == token.LEQ
			if x.Val == zeroWhenTrue {
				return true
			}
		}
		return false
	}
	// local guard closures: every path to a result other than the constant `true` passes the
	// len == 0 fact
	guards := map[types.Object]bool{}
	s.walk(func(n ast.Node) bool {
		as, ok := n.(*ast.AssignStmt)
		if !ok || len(as.Lhs) != 1 || len(as.Rhs) != 1 {
			return true
		}
		lit, ok := unparen(as.Rhs[0]).(*ast.FuncLit)
		if !ok || !mentionsField(s.Info, lit.Body, fld) {
			return true
		}
		o := identObj(s.Info, as.Lhs[0])
		if o == nil || lit.Type.Results == nil || len(lit.Type.Results.List) != 1 {
			return true
		}
		ls := c.P.ScopeOfLit(s.Fn, lit)
		r := ls.Run(Query{
			Target: func(sub, top ast.Node) bool {
				rs, ok := sub.(*ast.ReturnStmt)
				if !ok || len(rs.Results) != 1 {
					return ok
				}
				tv := s.Info.Types[rs.Results[0]]
				return !(tv.Value != nil && tv.Value.Kind() == constant.Bool && constant.BoolVal(tv.Value))
			},
			Exempt: func(f []Fact) bool { return lenZero(s.Info, f) },
		})
		if len(r.Hits) == 0 && r.TargetSites > 0 {
			guards[o] = true
			c.Hold(rule, s.Name, "guard-closure-false-implies-no-predicates", c.P.Pos(lit.Pos()), "the guard closure answers `false` only behind len(StaticPredicates) == 0")
		} else if r.TargetSites > 0 {
			c.Note("R19.3: closure at %s consults StaticPredicates but can answer false while predicates exist (%d paths); it is not accepted as a push-down guard", c.P.Pos(lit.Pos()), len(r.Hits))
		}
		return true
	})

	// the same for a named function or method used as the guard
	fnGuards := map[*Func]bool{}
	fnGuard := func(cx *ast.CallExpr) bool {
		fn := c.P.Funcs[CalleeName(s.Info, cx)]
		if fn == nil || fn.Decl.Body == nil || fn.Decl.Type.Results == nil || len(fn.Decl.Type.Results.List) != 1 {
			return false
		}
		if v, ok := fnGuards[fn]; ok {
			return v
		}
		fnGuards[fn] = false
		finfo := fn.Pkg.TypesInfo
		if !mentionsField(finfo, fn.Decl.Body, fld) {
			return false
		}
		fs := c.P.ScopeOf(fn)
		r := fs.Run(Query{
			Target: func(sub, top ast.Node) bool {
				rs, ok := sub.(*ast.ReturnStmt)
				if !ok || len(rs.Results) != 1 {
					return ok
				}
				tv := finfo.Types[rs.Results[0]]
				return !(tv.Value != nil && tv.Value.Kind() == constant.Bool && constant.BoolVal(tv.Value))
			},
			Exempt: func(f []Fact) bool { return lenZero(finfo, f) },
		})
		if len(r.Hits) == 0 && r.TargetSites > 0 {
			fnGuards[fn] = true
			c.Hold(rule, s.Name, "guard-function-false-implies-no-predicates", c.P.Pos(fn.Decl.Pos()), "the guard function "+fn.Key+" answers `false` only behind len(StaticPredicates) == 0")
		}
		return fnGuards[fn]
	}
	guarded := func(f []Fact) bool {
		if lenZero(s.Info, f) {
			return true
		}
		for _, x := range f {
			if x.Tag != nil || x.Val {
				continue
			}
			if cx, ok := unparen(x.Expr).(*ast.CallExpr); ok {
				if guards[identObj(s.Info, cx.Fun)] || fnGuard(cx) {
					return true
				}
			}
		}
		return false
	}
	c.onlyThroughEdge(rule, s, "scan-limit-only-without-predicates", callPred(s, "(*planner.Query).SetRowLimit"), guarded, 1,
		"the scan-level row limit is set only on the edge where the statement has no predicates (the post-filter cannot remove rows after the cut)",
		"LIMIT is pushed down to the scan on a path where predicates may still be evaluated after it: rows are cut before the WHERE filter runs, so fewer than LIMIT matching rows are returned although more exist")
}

// R19.4 — BETWEEN maps to one lower and one upper comparison.
func ruleBetweenMapping(c *Ctx) {
	const rule = "R19.4"
	s := c.S(rule, "(*sqlparser.ExecutableStatement).VisitBetweenParse")
	if s == nil {
		return
	}
	// positions of the two Visit calls
	var lowerPos, upperPos ast.Node
	for _, n := range s.sites(func(sub, top ast.Node) bool {
		cx, ok := sub.(*ast.CallExpr)
		return ok && len(cx.Args) == 1 && strings.HasSuffix(CalleeName(s.Info, cx), ".Visit")
	}) {
		cx := n.(*ast.CallExpr)
		switch fieldKey(s.Info, cx.Args[0]) {
		case "sqlparser.BetweenParse.lower":
			lowerPos = n
		case "sqlparser.BetweenParse.upper":
			upperPos = n
		}
	}
	if lowerPos == nil || upperPos == nil {
		c.Undecided(rule, s.Name, "bounds-visited", "Visit(ctx.lower) / Visit(ctx.upper) not found")
		return
	}
	want := map[string]map[string]string{ // section -> guard kind -> operator
		"lower": {"plain": "utils/io.GT", "not": "utils/io.LTE"},
		"upper": {"plain": "utils/io.LT", "not": "utils/io.GTE"},
	}
	n := 0
	for _, site := range s.sites(callPred(s, "(*sqlparser.StaticPredicate).AddComparison")) {
		cx := site.(*ast.CallExpr)
		n++
		section := "lower"
		if cx.Pos() > upperPos.Pos() {
			section = "upper"
		}
		kind := "plain"
		g := s.guardDesc(cx)
		if strings.HasPrefix(g, "if[") && strings.Contains(g, "IsNot") {
			kind = "not"
		}
		op := objKey(s.Info, cx.Args[0])
		c.Check(op == want[section][kind], rule, s.Name, "between-"+section+"-"+kind, c.P.Pos(cx.Pos()),
			fmt.Sprintf("the %s bound of %sBETWEEN adds comparison %s (want %s)", section, map[string]string{"plain": "", "not": "NOT "}[kind], op, want[section][kind]))
	}
	c.Floor(rule, s.Name, "AddComparison sites", n, 4)
}

// ---- C20 -----------------------------------------------------------------------------------

func ruleRelationalOrder(c *Ctx) {
	const rule = "R20.1"
	s := c.S(rule, "(*sqlparser.SelectRelation).Materialize")
	if s == nil {
		return
	}
	filter := callPred(s, "(*utils/io.ColumnSeries).RestrictViaBitmap")
	project := callPred(s, "(*utils/io.ColumnSeries).Project", "(*utils/io.ColumnSeries).Rename")
	limit := callPred(s, "(*utils/io.ColumnSeries).RestrictLength")
	r1 := s.Run(Query{Start: limit, Target: orPred(filter, project)})
	c.Floor(rule, s.Name, "RestrictLength sites", r1.StartSites, 1)
	c.reportHits(rule, s, "limit-is-last", r1, "nothing filters or projects after the final LIMIT was applied", "rows are filtered or projected after LIMIT: LIMIT n counts unfiltered rows")
	r2 := s.Run(Query{Start: project, Target: filter})
	c.Floor(rule, s.Name, "projection sites", r2.StartSites, 2)
	c.reportHits(rule, s, "filter-before-projection", r2, "the WHERE filter is never applied after projection/aliasing", "the WHERE filter runs after projection: predicates on projected-away columns are lost")
	// R20.2 (errors of RestrictLength/RestrictViaBitmap/Project discarded) is not claimed: those
	// calls cannot fail for any column a bucket can hold (every column is a slice, projected
	// names were checked just before), so no failing input exists (DESIGN.md §7).
	// R20.3 INSERT writes what was selected
	const r3 = "R20.3"
	if is := c.S(r3, "(*sqlparser.InsertIntoStatement).Materialize"); is != nil {
		var sel types.Object
		is.walk(func(n ast.Node) bool {
			if as, ok := n.(*ast.AssignStmt); ok && len(as.Rhs) == 1 && len(as.Lhs) == 2 {
				if cx, ok := unparen(as.Rhs[0]).(*ast.CallExpr); ok && CalleeName(is.Info, cx) == "(*sqlparser.SelectRelation).Materialize" {
					sel = identObj(is.Info, as.Lhs[0])
				}
			}
			return true
		})

		okSrc := false
		for _, n := range is.sites(callPred(is, "(utils/io.ColumnSeriesMap).AddColumnSeries")) {
			cx := n.(*ast.CallExpr)
			if len(cx.Args) == 2 && identObj(is.Info, cx.Args[1]) == sel && sel != nil {
				okSrc = true
			}
		}
		c.Check(okSrc, r3, is.Name, "writes-the-selected-series", c.P.Pos(is.Body.Pos()), "the series handed to WriteCSM is the SelectRelation.Materialize result")
		r := is.Run(Query{Target: callPred(is, "executor.WriteCSM"), Barrier: callPred(is, "(*utils/io.ColumnSeries).Project")})
		c.Floor(r3, is.Name, "WriteCSM sites", r.TargetSites, 1)
		c.reportHits(r3, is, "project-onto-target-columns-before-write", r, "the selected series is projected onto the target's columns before it is written", "INSERT writes un-projected columns")
		c.checkErrorsNotDropped(r3, []string{"executor.WriteCSM", "(*sqlparser.SelectRelation).Materialize"}, c.closureScope("(*sqlparser.InsertIntoStatement).Materialize"), 2,
			"a failed select or write must fail the INSERT", false)
	}
}

// ---- C23 -----------------------------------------------------------------------------------

func ruleAggRegistry(c *Ctx) {
	const rule = "R23.2"
	s := c.S(rule, "sqlparser.NewDefaultAggRunner")
	if s == nil {
		return
	}
	iface := c.P.ByPath["uda"]
	var aggI *types.Interface
	if iface != nil {
		if tn, ok := iface.Types.Scope().Lookup("AggInterface").(*types.TypeName); ok {
			aggI, _ = tn.Type().Underlying().(*types.Interface)
		}
	}
	n := 0
	s.walk(func(m ast.Node) bool {
		kvx, ok := m.(*ast.KeyValueExpr)
		if !ok {
			return true
		}
		name, isStr := constString(s.Info, kvx.Key)
		if !isStr {
			return true
		}
		t := s.Info.TypeOf(kvx.Value)
		if t == nil {
			return true
		}
		n++
		impl := aggI != nil && types.Implements(t, aggI)
		c.Check(impl, rule, s.Name, "registered:"+name, c.P.Pos(kvx.Pos()), "aggregate `"+name+"` is registered with a type implementing uda.AggInterface ("+typeShort(t)+")")

		base := t
		if pt, ok := t.(*types.Pointer); ok {
			base = pt.Elem()
		}
		nt, ok := base.(*types.Named)
		if !ok {
			return true
		}
		var newFn *Func
		for _, cand := range []string{"(" + typeShort(nt) + ").New", "(*" + typeShort(nt) + ").New"} {
			if f := c.P.Funcs[cand]; f != nil {
				newFn = f
			}
		}
		if newFn == nil || newFn.Decl.Recv == nil || len(newFn.Decl.Recv.List[0].Names) == 0 {
			c.Hold(rule, typeShort(nt)+".New", "fresh-accumulator", c.P.Pos(kvx.Pos()), "New has no named receiver: it cannot return the prototype")
			return true
		}
		info := newFn.Pkg.TypesInfo
		recv := objOf(info, newFn.Decl.Recv.List[0].Names[0])
		fresh := true
		walkAll(newFn.Decl.Body, func(k ast.Node) bool {
			if r, ok := k.(*ast.ReturnStmt); ok && len(r.Results) >= 1 {
				e := unparen(r.Results[0])
				if u, ok := e.(*ast.UnaryExpr); ok {
					e = unparen(u.X)
				}
				if identObj(info, e) == recv {
					fresh = false
				}
			}
			return true
		})

		c.Check(fresh, rule, newFn.Key, "fresh-accumulator", c.P.Pos(newFn.Decl.Pos()), "New returns a fresh accumulator (not the shared registered prototype: state would leak between queries)")
		return true
	})

	c.Floor(rule, s.Name, "registered aggregates", n, 6)
}

func ruleEmptyInputHandled(c *Ctx) {
	const rule = "R23.3"
	for _, key := range []string{"(*uda/min.Min).Accum", "(*uda/max.Max).Accum"} {
		s := c.S(rule, key)
		if s == nil {
			continue
		}
		// columns converted from the input
		conv := map[types.Object]bool{}
		s.walk(func(n ast.Node) bool {
			if as, ok := n.(*ast.AssignStmt); ok && len(as.Rhs) == 1 && len(as.Lhs) >= 1 {
				if cx, ok := unparen(as.Rhs[0]).(*ast.CallExpr); ok && strings.HasPrefix(CalleeName(s.Info, cx), "uda.ColumnToFloat") {
					if o := identObj(s.Info, as.Lhs[0]); o != nil {
						conv[o] = true
					}
				}
			}
			return true
		})

		first := func(sub, top ast.Node) bool {
			ix, ok := sub.(*ast.IndexExpr)
			if !ok || !conv[identObj(s.Info, ix.X)] {
				return false
			}
			_, isConst := constInt(s.Info, ix.Index)
			return isConst
		}
		nonEmpty := func(f []Fact) bool {
			for _, x := range f {
				if b, ok := isCompareNode(x.Expr, token.EQL, token.NEQ, token.GTR); ok {
					isLen := mentionsCall(s.Info, b, "(utils/io.ColumnInterface).Len") || mentionsCall(s.Info, b, "builtin.len")
					if !isLen {
						continue
					}
					if b.Op.String() == "==" && !x.Val {
						return true
					}
					if (b.Op.String() == "!=" || b.Op.String() == ">") && x.Val {
						return true
					}
				}
			}
			return false
		}
		r := s.Run(Query{Target: first, Exempt: nonEmpty})
		if r.TargetSites == 0 {
			c.Hold(rule, s.Name, "first-element-only-when-non-empty", c.P.Pos(s.Body.Pos()), "the converted input column is never indexed with a constant (nothing to guard; seeding is judged by R23.4)")
			continue
		}
		c.reportHits(rule, s, "first-element-only-when-non-empty", r, "element 0 of the input column is read only behind the `input is not empty` edge", "the first element is read although the input may be empty (index out of range)")
	}
	_ = sort.Strings
}
