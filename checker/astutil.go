package main

import (
	"go/ast"
	"go/constant"
	"go/token"
	"go/types"
	"strings"
)

// walkPost visits n's sub-nodes children-first (an approximation of evaluation order:
// the arguments of a call are visited before the call itself). Function literal bodies
// are not entered: a closure body does not execute where it is written.
func walkPost(n ast.Node, f func(ast.Node)) {
	if n == nil {
		return
	}
	var rec func(ast.Node)
	rec = func(m ast.Node) {
		if m == nil {
			return
		}
		if _, ok := m.(*ast.FuncLit); ok {
			f(m)
			return
		}
		var kids []ast.Node
		first := true
		ast.Inspect(m, func(k ast.Node) bool {
			if first {
				first = false
				return true
			}
			if k != nil {
				kids = append(kids, k)
			}
			return false
		})
		for _, k := range kids {
			rec(k)
		}
		f(m)
	}
	rec(n)
}

// walkAll visits every node under n including function literal bodies (pre-order).
func walkAll(n ast.Node, f func(ast.Node) bool) {
	if n == nil {
		return
	}
	ast.Inspect(n, func(m ast.Node) bool {
		if m == nil {
			return false
		}
		return f(m)
	})
}

// Fact: expression Expr has truth value Val. For a switch case, Expr is `tag == caseExpr`
// represented with Tag/Case set.
type Fact struct {
	Expr ast.Expr
	Val  bool
	Tag  ast.Expr // non-nil for switch-case facts: Tag == Expr (Val) or != (¬Val)
	// Whole: Expr is the complete branch condition (not decomposed into atoms). Delivered only
	// to queries that ask for them (Query.WholeFacts); used for partial evaluation of the
	// condition under a finite valuation (evalBool).
	Whole bool
}

func unparen(e ast.Expr) ast.Expr {
	for {
		p, ok := e.(*ast.ParenExpr)
		if !ok {
			return e
		}
		e = p.X
	}
}

// implies lists the atomic facts that certainly hold on the given branch of cond.
func implies(cond ast.Expr, branch bool) []Fact {
	cond = unparen(cond)
	switch e := cond.(type) {
	case *ast.UnaryExpr:
		if e.Op == token.NOT {
			return implies(e.X, !branch)
		}
	case *ast.BinaryExpr:
		switch e.Op {
		case token.LAND:
			if branch {
				return append(implies(e.X, true), implies(e.Y, true)...)
			}
			return nil
		case token.LOR:
			if !branch {
				return append(implies(e.X, false), implies(e.Y, false)...)
			}
			return nil
		}
	}
	return []Fact{{Expr: cond, Val: branch}}
}

// nilTest recognises `x != nil` / `x == nil` / `nil != x` and returns x's object and
// whether the expression being TRUE means x is non-nil.
func nilTest(info *types.Info, e ast.Expr) (obj types.Object, trueMeansNonNil bool, ok bool) {
	b, isb := unparen(e).(*ast.BinaryExpr)
	if !isb || (b.Op != token.NEQ && b.Op != token.EQL) {
		return nil, false, false
	}
	x, y := unparen(b.X), unparen(b.Y)
	if isNilIdent(info, x) {
		x, y = y, x
	}
	if !isNilIdent(info, y) {
		return nil, false, false
	}
	id, isid := x.(*ast.Ident)
	if !isid {
		return nil, false, false
	}
	o := info.ObjectOf(id)
	if o == nil {
		return nil, false, false
	}
	return o, b.Op == token.NEQ, true
}

func isNilIdent(info *types.Info, e ast.Expr) bool {
	id, ok := unparen(e).(*ast.Ident)
	if !ok {
		return false
	}
	_, isNil := info.ObjectOf(id).(*types.Nil)
	return isNil
}

// fieldKey returns "pkg.Type.Field" for a selector expression that denotes a struct field.
func fieldKey(info *types.Info, e ast.Expr) string {
	sel, ok := unparen(e).(*ast.SelectorExpr)
	if !ok {
		return ""
	}
	s := info.Selections[sel]
	if s == nil || s.Kind() != types.FieldVal {
		return ""
	}
	t := s.Recv()
	// promoted field: name the struct that declares it, not the outer one
	idx := s.Index()
	for i := 0; i+1 < len(idx); i++ {
		if pt, ok := t.(*types.Pointer); ok {
			t = pt.Elem()
		}
		st, ok := t.Underlying().(*types.Struct)
		if !ok || idx[i] >= st.NumFields() {
			break
		}
		t = st.Field(idx[i]).Type()
	}
	if pt, ok := t.(*types.Pointer); ok {
		t = pt.Elem()
	}
	n, ok := t.(*types.Named)
	if !ok {
		return ""
	}
	pk := ""
	if n.Obj().Pkg() != nil {
		pk = short(n.Obj().Pkg().Path()) + "."
	}
	k := pk + n.Obj().Name() + "." + sel.Sel.Name
	if a, ok := fieldAlias[k]; ok {
		return a
	}
	return k
}

// objKey returns "pkg.Name" for an identifier/selector denoting a package-level object.
func objKey(info *types.Info, e ast.Expr) string {
	var id *ast.Ident
	switch x := unparen(e).(type) {
	case *ast.Ident:
		id = x
	case *ast.SelectorExpr:
		if info.Selections[x] != nil {
			return ""
		}
		id = x.Sel
	default:
		return ""
	}
	o := info.ObjectOf(id)
	if o == nil || o.Pkg() == nil {
		return ""
	}
	if o.Parent() != o.Pkg().Scope() {
		return ""
	}
	return short(o.Pkg().Path()) + "." + o.Name()
}

func identObj(info *types.Info, e ast.Expr) types.Object {
	if id, ok := unparen(e).(*ast.Ident); ok {
		return canonObject(info.ObjectOf(id))
	}
	return nil
}

// mentions reports whether expression tree n refers to object o.
func mentions(info *types.Info, n ast.Node, o types.Object) bool {
	found := false
	walkAll(n, func(m ast.Node) bool {
		if id, ok := m.(*ast.Ident); ok && canonObject(info.ObjectOf(id)) == canonObject(o) {
			found = true
		}
		return !found
	})
	return found
}

func constInt(info *types.Info, e ast.Expr) (int64, bool) {
	tv, ok := info.Types[e]
	if !ok || tv.Value == nil {
		return 0, false
	}
	v := constant.ToInt(tv.Value)
	if v.Kind() != constant.Int {
		return 0, false
	}
	i, exact := constant.Int64Val(v)
	return i, exact
}

func constString(info *types.Info, e ast.Expr) (string, bool) {
	tv, ok := info.Types[e]
	if !ok || tv.Value == nil || tv.Value.Kind() != constant.String {
		return "", false
	}
	return constant.StringVal(tv.Value), true
}

// callsIn lists the call expressions evaluated by node n in evaluation order (closures skipped).
func callsIn(n ast.Node) []*ast.CallExpr {
	var out []*ast.CallExpr
	walkPost(n, func(m ast.Node) {
		if c, ok := m.(*ast.CallExpr); ok {
			out = append(out, c)
		}
	})
	return out
}

// assignedErrObj: if call is the sole RHS of an assignment/definition/var spec found in stmt,
// return the object receiving its LAST result (conventionally the error). ok=false when the
// result is discarded (`_`) or the call is used as a bare statement / nested expression.
func assignedLastResult(info *types.Info, stmt ast.Node, call *ast.CallExpr) (types.Object, bool) {
	switch s := stmt.(type) {
	case *ast.AssignStmt:
		if len(s.Rhs) == 1 && unparen(s.Rhs[0]) == call && len(s.Lhs) >= 1 {
			id, ok := s.Lhs[len(s.Lhs)-1].(*ast.Ident)
			if !ok || id.Name == "_" {
				return nil, false
			}
			return info.ObjectOf(id), true
		}
	case *ast.ValueSpec:
		if len(s.Values) == 1 && unparen(s.Values[0]) == call && len(s.Names) >= 1 {
			id := s.Names[len(s.Names)-1]
			if id.Name == "_" {
				return nil, false
			}
			return info.ObjectOf(id), true
		}
	}
	return nil, false
}

func returnsError(f *types.Func) bool {
	sig, ok := f.Type().(*types.Signature)
	if !ok || sig.Results().Len() == 0 {
		return false
	}
	last := sig.Results().At(sig.Results().Len() - 1).Type()
	return isErrorType(last)
}

func isErrorType(t types.Type) bool {
	n, ok := t.(*types.Named)
	return ok && n.Obj().Pkg() == nil && n.Obj().Name() == "error"
}

func exprString(e ast.Node) string { return types.ExprString(e.(ast.Expr)) }

func hasPrefixAny(s string, ps ...string) bool {
	for _, p := range ps {
		if strings.HasPrefix(s, p) {
			return true
		}
	}
	return false
}

// evalBool evaluates a boolean expression under a partial valuation of its atoms (3-valued):
// atom(e) yields the constant value of a sub-expression when the valuation fixes it. Constants
// of the program are taken from the type checker. Returns (value, known).
func evalBool(info *types.Info, e ast.Expr, atom func(ast.Expr) (constant.Value, bool)) (bool, bool) {
	e = unparen(e)
	val := func(x ast.Expr) (constant.Value, bool) {
		x = unparen(x)
		if v, ok := atom(x); ok {
			return v, true
		}
		if tv, ok := info.Types[x]; ok && tv.Value != nil {
			return tv.Value, true
		}
		return nil, false
	}
	if v, ok := val(e); ok && v.Kind() == constant.Bool {
		return constant.BoolVal(v), true
	}
	switch x := e.(type) {
	case *ast.UnaryExpr:
		if x.Op == token.NOT {
			v, k := evalBool(info, x.X, atom)
			return !v, k
		}
	case *ast.BinaryExpr:
		switch x.Op {
		case token.LAND:
			a, ka := evalBool(info, x.X, atom)
			b, kb := evalBool(info, x.Y, atom)
			switch {
			case ka && !a, kb && !b:
				return false, true
			case ka && kb:
				return true, true
			}
			return false, false
		case token.LOR:
			a, ka := evalBool(info, x.X, atom)
			b, kb := evalBool(info, x.Y, atom)
			switch {
			case ka && a, kb && b:
				return true, true
			case ka && kb:
				return false, true
			}
			return false, false
		case token.EQL, token.NEQ, token.LSS, token.LEQ, token.GTR, token.GEQ:
			a, ka := val(x.X)
			b, kb := val(x.Y)
			if ka && kb {
				defer func() { recover() }()
				return constant.Compare(a, x.Op, b), true
			}
		}
	}
	return false, false
}

// infeasibleUnder reports whether the edge facts contradict the valuation.
func infeasibleUnder(info *types.Info, facts []Fact, atom func(ast.Expr) (constant.Value, bool)) bool {
	for _, f := range facts {
		switch {
		case f.Tag != nil:
			a, ka := atom(unparen(f.Tag))
			var b constant.Value
			kb := false
			if tv, ok := info.Types[f.Expr]; ok && tv.Value != nil {
				b, kb = tv.Value, true
			}
			if ka && kb && constant.Compare(a, token.EQL, b) != f.Val {
				return true
			}
		case f.Whole:
			if v, known := evalBool(info, f.Expr, atom); known && v != f.Val {
				return true
			}
		}
	}
	return false
}

// objOf: the object an identifier denotes, resolved through the helper-boundary aliases.
func objOf(info *types.Info, id *ast.Ident) types.Object { return canonObject(info.ObjectOf(id)) }

// paramObjC: paramObj resolved through the helper-boundary aliases (for use in rules).
func paramObjC(fn *Func, i int) types.Object { return canonObject(paramObj(fn, i)) }

// loopInfo abstracts over the two ways of writing an element loop:
//
//	for i, v := range X { … }        and        for i := 0; i < len(X); i++ { v := X[i]; … }
//
// Index / Elems are the (canonical) objects of the index variable and of the variables that hold
// the current element (the range value, or locals defined as X[i] in the body).
type loopInfo struct {
	Node  ast.Node
	Body  *ast.BlockStmt
	Over  ast.Expr
	Index types.Object
	Elems map[types.Object]bool
}

func asLoop(info *types.Info, n ast.Node) *loopInfo {
	switch x := n.(type) {
	case *ast.RangeStmt:
		li := &loopInfo{Node: x, Body: x.Body, Over: x.X, Elems: map[types.Object]bool{}}
		if x.Key != nil {
			li.Index = identObj(info, x.Key)
		}
		if x.Value != nil {
			if o := identObj(info, x.Value); o != nil {
				li.Elems[o] = true
			}
		}
		li.addBodyElems(info)
		return li
	case *ast.ForStmt:
		li := &loopInfo{Node: x, Body: x.Body, Elems: map[types.Object]bool{}}
		// i := 0 ; i < len(X) ; i++
		if as, ok := x.Init.(*ast.AssignStmt); ok && len(as.Lhs) == 1 {
			li.Index = identObj(info, as.Lhs[0])
		}
		if b, ok := unparen(x.Cond).(*ast.BinaryExpr); ok && li.Index != nil && (b.Op == token.LSS || b.Op == token.NEQ) && identObj(info, b.X) == li.Index {
			if cx, ok := unparen(b.Y).(*ast.CallExpr); ok && len(cx.Args) == 1 {
				if id, ok := unparen(cx.Fun).(*ast.Ident); ok && id.Name == "len" {
					li.Over = cx.Args[0]
				}
			} else {
				li.Over = nil
			}
		}
		li.addBodyElems(info)
		return li
	}
	return nil
}

// addBodyElems: locals defined in the loop body as Over[Index].
func (li *loopInfo) addBodyElems(info *types.Info) {
	if li.Over == nil || li.Index == nil {
		return
	}
	over := identObj(info, li.Over)
	for _, st := range li.Body.List {
		as, ok := st.(*ast.AssignStmt)
		if !ok || len(as.Lhs) != len(as.Rhs) {
			continue
		}
		for i, l := range as.Lhs {
			if ix, ok := unparen(as.Rhs[i]).(*ast.IndexExpr); ok && identObj(info, ix.Index) == li.Index {
				same := (over != nil && identObj(info, ix.X) == over) || types.ExprString(unparen(ix.X)) == types.ExprString(unparen(li.Over))
				if same {
					if o := identObj(info, l); o != nil {
						li.Elems[o] = true
					}
				}
			}
		}
	}
}

// isElem: e denotes the current element of the loop (the element variable, or Over[Index]).
func (li *loopInfo) isElem(info *types.Info, e ast.Expr) bool {
	if o := identObj(info, e); o != nil && li.Elems[o] {
		return true
	}
	if ix, ok := unparen(e).(*ast.IndexExpr); ok && li.Index != nil && identObj(info, ix.Index) == li.Index && li.Over != nil {
		return types.ExprString(unparen(ix.X)) == types.ExprString(unparen(li.Over))
	}
	return false
}

// defExpr returns the expression that defines local variable o when o is assigned exactly once
// inside body (a `:=`/`=` with a positionally matching right-hand side, or a `var` with a value)
// and its address is never taken; nil otherwise.
func defExpr(info *types.Info, body ast.Node, o types.Object) ast.Expr {
	if o == nil {
		return nil
	}
	var def ast.Expr
	n := 0
	walkAll(body, func(m ast.Node) bool {
		switch x := m.(type) {
		case *ast.AssignStmt:
			for i, l := range x.Lhs {
				if id, ok := unparen(l).(*ast.Ident); ok && info.ObjectOf(id) == o {
					n++
					if len(x.Rhs) == len(x.Lhs) && (x.Tok == token.DEFINE || x.Tok == token.ASSIGN) {
						def = x.Rhs[i]
					} else {
						n++
					}
				}
			}
		case *ast.ValueSpec:
			for i, id := range x.Names {
				if info.ObjectOf(id) == o && len(x.Values) == len(x.Names) {
					n++
					def = x.Values[i]
				} else if info.ObjectOf(id) == o && len(x.Values) != 0 {
					n += 2
				}
			}
		case *ast.IncDecStmt:
			if id, ok := unparen(x.X).(*ast.Ident); ok && info.ObjectOf(id) == o {
				n += 2
			}
		case *ast.RangeStmt:
			for _, e := range []ast.Expr{x.Key, x.Value} {
				if id, ok := e.(*ast.Ident); ok && info.ObjectOf(id) == o {
					n += 2
				}
			}
		case *ast.UnaryExpr:
			if x.Op == token.AND {
				if id, ok := unparen(x.X).(*ast.Ident); ok && info.ObjectOf(id) == o {
					n += 2
				}
			}
		}
		return true
	})
	if n != 1 {
		return nil
	}
	return def
}

// resolveLocal follows single-definition locals (at most 4 steps) to the expression they stand for.
func resolveLocal(info *types.Info, body ast.Node, e ast.Expr) ast.Expr {
	for i := 0; i < 4; i++ {
		id, ok := unparen(e).(*ast.Ident)
		if !ok {
			break
		}
		o := info.ObjectOf(id)
		if _, isVar := o.(*types.Var); !isVar {
			break
		}
		d := defExpr(info, body, o)
		if d == nil {
			break
		}
		e = d
	}
	return unparen(e)
}

// rawObj: the un-aliased object an identifier expression denotes (nil for other expressions).
func rawObj(info *types.Info, e ast.Expr) types.Object {
	if id, ok := unparen(e).(*ast.Ident); ok {
		return info.ObjectOf(id)
	}
	return nil
}
