package main

// Rules added in round 2 (third and fourth batch of independently seeded changes, DESIGN.md §9).

import (
	"fmt"
	"go/ast"
	"go/token"
	"go/types"
	"strings"
)

// assignsInLoops lists the assignments to object o that sit inside a for/range body of fn.
func assignsInLoops(info *types.Info, body ast.Node, o types.Object) (all []ast.Node, nonAccum []ast.Node) {
	var visit func(n ast.Node, inLoop bool)
	visit = func(n ast.Node, inLoop bool) {
		ast.Inspect(n, func(m ast.Node) bool {
			if m == nil {
				return false
			}
			switch x := m.(type) {
			case *ast.FuncLit:
				return false
			case *ast.ForStmt:
				if x != n {
					visit(x.Body, true)
					if x.Post != nil {
						visit(x.Post, true)
					}
					return false
				}
			case *ast.RangeStmt:
				if x != n {
					visit(x.Body, true)
					return false
				}
			case *ast.AssignStmt:
				if !inLoop {
					return true
				}
				for i, l := range x.Lhs {
					if identObj(info, l) != o {
						continue
					}
					all = append(all, x)
					if x.Tok != token.ASSIGN && x.Tok != token.DEFINE {
						continue // op-assign accumulates
					}
					var rhs ast.Expr
					if len(x.Rhs) == len(x.Lhs) {
						rhs = x.Rhs[i]
					} else if len(x.Rhs) == 1 {
						rhs = x.Rhs[0]
					}
					if rhs == nil || !mentions(info, rhs, o) {
						nonAccum = append(nonAccum, x)
					}
				}
			case *ast.IncDecStmt:
				if inLoop && identObj(info, x.X) == o {
					all = append(all, x)
				}
			}
			return true
		})
	}
	visit(body, false)
	return
}

// R12.3 — the backward scan reports every byte it placed in the result: the count handed back by
// readBackward is accumulated over all chunks of the file (never overwritten inside the chunk
// loop), and Reader.read subtracts exactly that count from what is left to fill. The caller cuts
// `resultBuffer[bytesLeftToFill:]`; an under-reported count drops the oldest rows of a LAST-N
// query, an over-written one forgets the chunks already copied.
func ruleBackwardScanAccounting(c *Ctx) {
	const rule = "R12.3"
	s := c.S(rule, "(*executor.ioExec).readBackward")
	if s == nil {
		return
	}
	sig := s.Fn.Obj.Type().(*types.Signature)
	idx := -1
	for i := 0; i < sig.Results().Len(); i++ {
		if b, ok := sig.Results().At(i).Type().Underlying().(*types.Basic); ok && b.Info()&types.IsInteger != 0 {
			idx = i
		}
	}
	if idx < 0 {
		c.Undecided(rule, s.Name, "count-result", "readBackward has no integer result: the byte count handed to Reader.read was not found")
		return
	}
	// objects that carry the count: the named result and/or identifiers returned at idx
	objs := map[types.Object]bool{}
	if v := sig.Results().At(idx); v.Name() != "" && v.Name() != "_" {
		objs[v] = true
	}
	s.walk(func(n ast.Node) bool {
		if _, ok := n.(*ast.FuncLit); ok {
			return false
		}
		if rs, ok := n.(*ast.ReturnStmt); ok && len(rs.Results) == sig.Results().Len() {
			if o := identObj(s.Info, rs.Results[idx]); o != nil {
				if _, isVar := o.(*types.Var); isVar {
					objs[o] = true
				}
			}
		}
		return true
	})

	nAssign := 0
	for o := range objs {
		all, bad := assignsInLoops(s.Info, s.Body, o)
		nAssign += len(all)
		for _, b := range bad {
			c.Violate(rule, s.Name, "chunk-count-accumulates", c.P.Pos(b.Pos()),
				"inside the chunk loop the reported byte count `"+o.Name()+"` is overwritten instead of accumulated: bytes copied from earlier chunks of the same file are forgotten, Reader.read then believes part of the result buffer is unfilled and slices the oldest rows away (LAST N returns fewer than N rows)", nil)
		}
		if len(bad) == 0 && len(all) > 0 {
			c.Hold(rule, s.Name, "chunk-count-accumulates", c.P.Pos(all[0].Pos()), fmt.Sprintf("%d update(s) of `%s` inside the chunk loop, all accumulating", len(all), o.Name()))
		}
	}
	c.Floor(rule, s.Name, "updates of the reported byte count inside the chunk loop", nAssign, 1)
	// caller: what is left to fill shrinks by exactly the reported count
	rd := c.S(rule, "(*executor.Reader).read")
	if rd == nil {
		return
	}
	found := false
	var cnt types.Object
	rd.walk(func(n ast.Node) bool {
		as, ok := n.(*ast.AssignStmt)
		if !ok || len(as.Rhs) != 1 {
			return true
		}
		if cx, ok := unparen(as.Rhs[0]).(*ast.CallExpr); ok && CalleeName(rd.Info, cx) == "(*executor.ioExec).readBackward" && len(as.Lhs) == sig.Results().Len() {
			cnt = identObj(rd.Info, as.Lhs[idx])
		}
		return true
	})

	if cnt == nil {
		c.Violate(rule, rd.Name, "left-to-fill-shrinks-by-count", c.P.Pos(rd.Body.Pos()), "Reader.read does not bind the byte count returned by readBackward", nil)
		return
	}
	rd.walk(func(n ast.Node) bool {
		as, ok := n.(*ast.AssignStmt)
		if !ok || len(as.Lhs) != 1 || len(as.Rhs) != 1 {
			return true
		}
		if as.Tok == token.SUB_ASSIGN && identObj(rd.Info, as.Rhs[0]) == cnt {
			found = true
		}
		if as.Tok == token.ASSIGN {
			if b, ok := unparen(as.Rhs[0]).(*ast.BinaryExpr); ok && b.Op == token.SUB && identObj(rd.Info, b.Y) == cnt &&
				identObj(rd.Info, b.X) != nil && identObj(rd.Info, b.X) == identObj(rd.Info, as.Lhs[0]) {
				found = true
			}
		}
		return true
	})

	c.Check(found, rule, rd.Name, "left-to-fill-shrinks-by-count", c.P.Pos(rd.Body.Pos()),
		"the bytes still to fill are reduced by exactly the count readBackward reported for the file")
}

// R29.4 — byte offsets and strides reach the row buffer exactly: in the row→column extraction
// helpers a value derived from the `offset` / record-length parameters flows into slice and index
// expressions only through additions/multiplications. A division, remainder, shift or mask of the
// offset (e.g. viewing the buffer as words and indexing with offset/8) silently floors offsets that
// are not multiples of the divisor and reads a neighbouring column, unless the very value is
// tested to be a multiple on the path. Followed into helpers the parameters are handed to.
func ruleOffsetsExact(c *Ctx) {
	const rule = "R29.4"
	n := 0
	seen := map[string]bool{}
	var check func(fn *Func, tainted map[types.Object]bool, depth int, via string)
	check = func(fn *Func, tainted map[types.Object]bool, depth int, via string) {
		if fn == nil || fn.Decl.Body == nil || depth > 3 {
			return
		}
		key := fn.Key + "|" + via
		if seen[key] {
			return
		}
		seen[key] = true
		info := fn.Pkg.TypesInfo
		s := c.P.ScopeOf(fn)
		// propagate through plain assignments to a fixed point (flow-insensitive)
		isT := func(e ast.Expr) bool {
			t := false
			walkAll(e, func(m ast.Node) bool {
				if id, ok := m.(*ast.Ident); ok && tainted[objOf(info, id)] {
					t = true
				}
				return !t
			})
			return t
		}
		for changed := true; changed; {
			changed = false
			walkAll(fn.Decl.Body, func(m ast.Node) bool {
				switch x := m.(type) {
				case *ast.AssignStmt:
					for i, l := range x.Lhs {
						o := identObj(info, l)
						if o == nil || tainted[o] {
							continue
						}
						var rhs ast.Expr
						if len(x.Rhs) == len(x.Lhs) {
							rhs = x.Rhs[i]
						} else if len(x.Rhs) == 1 {
							rhs = x.Rhs[0]
						}
						if rhs != nil && isT(rhs) {
							if b, ok := o.Type().Underlying().(*types.Basic); ok && b.Info()&types.IsInteger != 0 {
								tainted[o] = true
								changed = true
							}
						}
					}
				}
				return true
			})

		}
		walkAll(fn.Decl.Body, func(m ast.Node) bool {
			switch x := m.(type) {
			case *ast.BinaryExpr:
				lossy := x.Op == token.QUO || x.Op == token.REM || x.Op == token.SHR || x.Op == token.AND || x.Op == token.AND_NOT
				if !lossy || !isT(x.X) {
					return true
				}
				if tb, ok := info.TypeOf(x).Underlying().(*types.Basic); !ok || tb.Info()&types.IsInteger == 0 {
					return true
				}
				n++

				if x.Op == token.REM || x.Op == token.AND {
					if par := c.P.Parents(c.P.FileOf(fn.Pkg, x.Pos()))[x]; par != nil {
						if pb, ok := par.(*ast.BinaryExpr); ok && (pb.Op == token.EQL || pb.Op == token.NEQ) {
							c.Hold(rule, fn.Key, "offset-alignment-test", c.P.Pos(x.Pos()), "remainder of an offset compared with a constant: an alignment test, not an address computation")
							return true
						}
					}
				}

				sameOperand := func(e ast.Expr) bool {
					if a, b := identObj(info, e), identObj(info, x.X); a != nil || b != nil {
						return a == b
					}
					return types.ExprString(unparen(e)) == types.ExprString(unparen(x.X))
				}
				r := s.Run(Query{
					Target: func(sub, top ast.Node) bool { return sub == ast.Node(x) },
					Exempt: func(f []Fact) bool {
						for _, ft := range f {
							b, ok := isCompare(ft.Expr, token.EQL, token.NEQ)
							if !ok || ft.Tag != nil {
								continue
							}
							rem, isRem := unparen(b.X).(*ast.BinaryExpr)
							zero, isC := constInt(info, b.Y)
							if !isRem || !isC || zero != 0 || (rem.Op != token.REM && rem.Op != token.AND) {
								continue
							}
							if sameOperand(rem.X) && ft.Val == (b.Op == token.EQL) {
								return true
							}
						}
						return false
					},
				})
				if len(r.Hits) == 0 && r.TargetSites > 0 {
					c.Hold(rule, fn.Key, "offset-divided-behind-alignment-test", c.P.Pos(x.Pos()), "the offset is divided only behind a test that it is a multiple of the divisor")
				} else {
					c.Violate(rule, fn.Key, "offset-flows-through-lossy-op"+via, c.P.Pos(x.Pos()),
						"a byte offset/stride derived from the column offset is divided/shifted/masked ("+types.ExprString(x)+") without a test that this very value is a multiple of the divisor: a column whose offset is not a multiple is read from a neighbouring position (wrong values for records whose 64-bit columns are not 8-byte aligned)", r.firstPath())
				}
			case *ast.CallExpr:
				f := Callee(info, x)
				if f == nil || f.Pkg() == nil || !strings.HasPrefix(f.Pkg().Path(), modPrefix) {
					return true
				}
				callee := c.P.ByObj[f]
				if callee == nil || callee.Decl.Body == nil || callee == fn {
					return true
				}
				sig := f.Type().(*types.Signature)
				sub := map[types.Object]bool{}
				for i, a := range x.Args {
					if i < sig.Params().Len() && isT(a) {
						if b, ok := sig.Params().At(i).Type().Underlying().(*types.Basic); ok && b.Info()&types.IsInteger != 0 {
							sub[paramObjC(callee, i)] = true
						}
					}
				}
				if len(sub) > 0 {
					check(callee, sub, depth+1, via+"→"+shortCallee(callee.Key))
				}
			}
			return true
		})

	}
	helpers := 0
	for _, fn := range c.P.NonTestFuncs() {
		if fn.PkgShort() != "utils/io" || fn.Decl.Recv != nil || !strings.HasPrefix(fn.Obj.Name(), "get") || !strings.HasSuffix(fn.Obj.Name(), "Column") {
			continue
		}
		sig := fn.Obj.Type().(*types.Signature)
		t := map[types.Object]bool{}
		for i := 0; i < sig.Params().Len(); i++ {
			if b, ok := sig.Params().At(i).Type().Underlying().(*types.Basic); ok && b.Info()&types.IsInteger != 0 {
				if o := paramObjC(fn, i); o != nil && (i == 0 || i == 1) { // offset, record length
					t[o] = true
				}
			}
		}
		if len(t) == 0 {
			continue
		}
		helpers++
		before := n
		check(fn, t, 0, "")
		if n == before {
			c.Hold(rule, fn.Key, "offset-flows-exactly", c.P.Pos(fn.Decl.Pos()), "offset and record length reach the buffer only through additions (no division, remainder, shift or mask)")
		}
	}
	c.Floor(rule, "utils/io.get*Column", "extraction helpers", helpers, 9)
}

func (r QResult) firstPath() []string {
	if len(r.Hits) > 0 {
		return r.Hits[0].Path
	}
	return nil
}

// paramObj returns the object of fn's i-th parameter (flattened over grouped names).
func paramObj(fn *Func, i int) types.Object {
	k := 0
	for _, fld := range fn.Decl.Type.Params.List {
		if len(fld.Names) == 0 {
			if k == i {
				return nil
			}
			k++
			continue
		}
		for _, nm := range fld.Names {
			if k == i {
				return fn.Pkg.TypesInfo.ObjectOf(nm)
			}
			k++
		}
	}
	return nil
}

// R19.5 — the WHERE post-filter compares a float32 column in the column's own precision: the
// literal is rounded to the element type. Widening the stored float32 to float64 instead makes
// `=` never match a value such as 10.3 and moves boundary rows of <, <=, >, >= to the wrong side.
func ruleFilterComparesInColumnPrecision(c *Ctx) {
	const rule = "R19.5"
	nF32 := 0
	nBad := 0
	includesF32 := func(t types.Type) bool {
		if b, ok := t.Underlying().(*types.Basic); ok {
			return b.Kind() == types.Float32
		}
		if tp, ok := t.(*types.TypeParam); ok {
			iface, _ := tp.Constraint().Underlying().(*types.Interface)
			if iface == nil {
				return false
			}
			hit := false
			for i := 0; i < iface.NumEmbeddeds(); i++ {
				if u, ok := iface.EmbeddedType(i).(*types.Union); ok {
					for j := 0; j < u.Len(); j++ {
						if b, ok := u.Term(j).Type().Underlying().(*types.Basic); ok && b.Kind() == types.Float32 {
							hit = true
						}
					}
				} else if b, ok := iface.EmbeddedType(i).Underlying().(*types.Basic); ok && b.Kind() == types.Float32 {
					hit = true
				}
			}
			return hit
		}
		return false
	}
	for _, fn := range c.P.NonTestFuncs() {
		if fn.PkgShort() != "sqlparser" || fn.Decl.Body == nil {
			continue
		}
		info := fn.Pkg.TypesInfo
		walkAll(fn.Decl.Body, func(m ast.Node) bool {
			b, ok := m.(*ast.BinaryExpr)
			if !ok {
				return true
			}
			switch b.Op {
			case token.EQL, token.NEQ, token.LSS, token.LEQ, token.GTR, token.GEQ:
			default:
				return true
			}
			for _, side := range []ast.Expr{b.X, b.Y} {
				t := info.TypeOf(side)
				if t == nil {
					continue
				}
				if includesF32(t) {
					nF32++
					break
				}
			}

			for _, side := range []ast.Expr{b.X, b.Y} {
				cx, ok := unparen(side).(*ast.CallExpr)
				if !ok || len(cx.Args) != 1 {
					continue
				}
				tv, isType := info.Types[cx.Fun]
				if !isType || !tv.IsType() {
					continue
				}
				to, ok := tv.Type.Underlying().(*types.Basic)
				if !ok || to.Kind() != types.Float64 {
					continue
				}
				at := info.TypeOf(cx.Args[0])
				if at != nil && includesF32(at) {
					nBad++
					c.Violate(rule, fn.Key, "float32-compared-widened", c.P.Pos(b.Pos()),
						"a float32 value is widened to float64 for a comparison ("+types.ExprString(b)+"): the stored binary32 value of a literal such as 10.3 differs from the float64 literal, so `=` never matches and boundary rows of range predicates fall on the wrong side; compare in the column's type (round the literal to float32)", nil)
				}
			}
			return true
		})

	}
	if nBad == 0 {
		c.Hold(rule, "sqlparser", "float32-compared-in-own-precision", "", fmt.Sprintf("%d comparisons on float32 operands in package sqlparser, none widens the float32 side to float64", nF32))
	}
	c.Floor(rule, "sqlparser", "comparisons on float32 operands (post-filter of float32 columns)", nF32+nBad, 5)
}

// R30.3 — intraday slot indexes are a function of absolute time: in TimeToIndex (outside the daily
// branch) and in IndexToTime the position inside the year is an absolute duration from the start
// of the year (Time.Sub / Add / Unix arithmetic). Wall-clock accessors (Clock, Hour, Minute,
// Second, YearDay, Day …) are not injective in a zone with daylight saving (one local hour
// repeats, one is skipped), so an index composed from them maps two distinct intervals to one slot.
func ruleIndexFromAbsoluteTime(c *Ctx) {
	const rule = "R30.3"
	wall := map[string]bool{"Clock": true, "Hour": true, "Minute": true, "Second": true, "Nanosecond": true, "YearDay": true, "Day": true, "Date": true, "Weekday": true, "ISOWeek": true}
	for _, key := range []string{"utils/io.TimeToIndex", "utils/io.IndexToTime"} {
		s := c.S(rule, key)
		if s == nil {
			continue
		}
		// the daily branch: statements dominated by a test of the timeframe against the day
		// constant are excluded (a daily bucket is indexed by calendar day on purpose)
		isDailyGuard := func(e ast.Expr) bool {
			found := false
			walkAll(e, func(m ast.Node) bool {
				if b, ok := m.(*ast.BinaryExpr); ok && (b.Op == token.EQL || b.Op == token.GEQ) {
					for _, side := range []ast.Expr{b.X, b.Y} {
						if k := objKey(s.Info, side); strings.HasSuffix(k, ".Day") || strings.HasSuffix(k, "utils.Day") {
							found = true
						}
						if tv, ok := s.Info.Types[side]; ok && tv.Value != nil {
							if v, ok := constInt(s.Info, side); ok && v == int64(24*3600*1e9) {
								found = true
							}
						}
					}
				}
				return !found
			})
			return found
		}
		var daily []ast.Node
		s.walk(func(m ast.Node) bool {
			switch x := m.(type) {
			case *ast.IfStmt:
				if isDailyGuard(x.Cond) {
					daily = append(daily, x.Body)
				}
			case *ast.SwitchStmt: // `switch tf { case utils.Day: … }` and the tagless form
				for _, cl := range x.Body.List {
					cc, ok := cl.(*ast.CaseClause)
					if !ok {
						continue
					}
					for _, e := range cc.List {
						cond := e
						if x.Tag != nil {
							cond = &ast.BinaryExpr{X: x.Tag, Op: token.EQL, Y: e}
						}
						if isDailyGuard(cond) {
							daily = append(daily, cc)
						}
					}
				}
			}
			return true
		})

		inDaily := func(n ast.Node) bool {
			for _, d := range daily {
				if n.Pos() >= d.Pos() && n.End() <= d.End() {
					return true
				}
			}
			return false
		}
		nAbs, nWall := 0, 0
		s.walk(func(m ast.Node) bool {
			cx, ok := m.(*ast.CallExpr)
			if !ok {
				return true
			}
			f := Callee(s.Info, cx)
			if f == nil || f.Pkg() == nil || f.Pkg().Path() != "time" {
				return true
			}
			sig := f.Type().(*types.Signature)
			if sig.Recv() == nil || !strings.HasSuffix(types.TypeString(sig.Recv().Type(), nil), "time.Time") {
				return true
			}
			switch {
			case f.Name() == "Sub" || f.Name() == "Add" || f.Name() == "Unix" || f.Name() == "UnixNano":
				nAbs++
			case wall[f.Name()] && !inDaily(cx):

				nWall++
				c.Violate(rule, s.Name, "wall-clock-field-in-intraday-index:"+f.Name(), c.P.Pos(cx.Pos()),
					"the intraday slot mapping uses the wall-clock accessor Time."+f.Name()+"(): local clock fields are not a bijection onto absolute time in a zone with daylight saving (the repeated hour maps two intervals to one slot, the skipped hour leaves slots that convert back to other slots)", nil)
			}
			return true
		})

		if nWall == 0 {
			c.Hold(rule, s.Name, "intraday-index-from-absolute-duration", c.P.Pos(s.Body.Pos()), fmt.Sprintf("%d absolute-time operations (Sub/Add/Unix), no wall-clock accessor outside the daily branch", nAbs))
		}
		c.Floor(rule, s.Name, "absolute-time operations (Sub/Add)", nAbs, 1)
	}
}

// R6.5 — bytes handed back by the WAL file reader are used only after its error was tested:
// wal.Read returns a nil/short buffer together with io.EOF / ShortReadError, so an index, slice
// or decode of the result before the nil-error edge panics on a log that ends (or is torn) at
// that record. Checked for every caller of wal.Read in the server packages.
func ruleReadResultAfterErrCheck(c *Ctx) {
	const rule = "R6.5"
	const reader = "executor/wal.Read"
	if c.F(rule, reader) == nil {
		return
	}
	sites := 0
	for _, fn := range c.P.NonTestFuncs() {
		if fn.Decl.Body == nil || !(fn.PkgShort() == "executor" || fn.PkgShort() == "executor/wal") {
			continue
		}
		info := fn.Pkg.TypesInfo
		var bufs []types.Object
		walkAll(fn.Decl.Body, func(m ast.Node) bool {
			if as, ok := m.(*ast.AssignStmt); ok && len(as.Rhs) == 1 && len(as.Lhs) == 3 {
				if cx, ok := unparen(as.Rhs[0]).(*ast.CallExpr); ok && CalleeName(info, cx) == reader {
					if o := identObj(info, as.Lhs[0]); o != nil {
						bufs = append(bufs, o)
					}
				}
			}
			return true
		})

		if len(bufs) == 0 {
			continue
		}
		s := c.P.ScopeOf(fn)
		for _, o := range bufs {
			sites++
			use := func(sub, top ast.Node) bool {
				switch x := sub.(type) {
				case *ast.IndexExpr:
					return identObj(info, x.X) == o
				case *ast.SliceExpr:
					return identObj(info, x.X) == o
				case *ast.CallExpr:
					if CalleeName(info, x) == reader {
						return false
					}
					for _, a := range x.Args {
						if identObj(info, a) == o {
							return true
						}
					}
				}
				return false
			}
			r := s.Run(Query{Target: use, Barrier: callPred(s, reader), NeedOK: true})
			c.reportHits(rule, s, "read-result-used-after-error-test:"+canonObj(o), r,
				"the buffer returned by wal.Read is indexed/decoded only on the edge where its error was tested nil",
				"the buffer returned by wal.Read is indexed/decoded before its error is tested: at end of file (or on a short read) the result is nil/short and the access panics — a WAL that ends right after a record's message id crashes replay instead of stopping cleanly")
		}
	}
	c.Floor(rule, "executor", "callers binding the result of wal.Read", sites, 4)
}

func canonObj(o types.Object) string {
	if o == nil {
		return "?"
	}
	return "·"
}
