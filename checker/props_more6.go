package main

// Rules added after the fifth batch of independently seeded changes (waves 4–5).

import (
	"os"
	"fmt"
	"go/ast"
	"go/constant"
	"go/token"
	"go/types"
	"strings"
)

// R30.5 — the daily slot → time mapping is calendar arithmetic: IndexToTime is evaluated with
// tf = utils.Day (finite-domain evaluation) and no reachable return is a Time.Add of a duration.
// "start of year + index × 24h" is not local midnight of day `index` in a zone whose offset on
// that day differs from the offset on January 1 (daylight saving): TimeToIndex then maps the
// result to the previous day, and a replica, which rebuilds epochs with IndexToTime, stores daily
// bars one slot early.
func ruleDailyIndexToTimeOnCalendar(c *Ctx) {
	const rule = "R30.5"
	s := c.S(rule, "utils/io.IndexToTime")
	if s == nil {
		return
	}
	info := s.Info
	tf := paramObjC(s.Fn, 1)
	dayObj := c.P.ByPath["utils"]
	var dayVal constant.Value
	if dayObj != nil {
		if k, ok := dayObj.Types.Scope().Lookup("Day").(*types.Const); ok {
			dayVal = k.Val()
		}
	}
	if tf == nil || dayVal == nil {
		c.Undecided(rule, s.Name, "anchors", "timeframe parameter of IndexToTime or constant utils.Day not found")
		return
	}
	atom := func(e ast.Expr) (constant.Value, bool) {
		if identObj(info, e) == tf {
			return dayVal, true
		}
		return nil, false
	}
	r := s.Run(Query{WholeFacts: true, Exempt: func(f []Fact) bool { return infeasibleUnder(info, f, atom) },
		Target: func(sub, top ast.Node) bool { _, ok := sub.(*ast.ReturnStmt); return ok }})
	c.Floor(rule, s.Name, "returns reachable for the daily timeframe", len(r.Hits), 1)
	// is an expression (through single local definitions) a Time.Add?
	var usesAdd func(e ast.Expr, depth int) ast.Node
	usesAdd = func(e ast.Expr, depth int) ast.Node {
		if depth > 4 {
			return nil
		}
		e = unparen(e)
		if cx, ok := e.(*ast.CallExpr); ok {
			switch CalleeName(info, cx) {
			case "(time.Time).Add":
				return cx
			case "(time.Time).AddDate", "time.Date":
				return nil
			}
			if sel, ok := unparen(cx.Fun).(*ast.SelectorExpr); ok {
				return usesAdd(sel.X, depth+1)
			}
		}
		if o := identObj(info, e); o != nil {
			var found ast.Node
			n := 0
			s.walk(func(m ast.Node) bool {
				if as, ok := m.(*ast.AssignStmt); ok && len(as.Lhs) == len(as.Rhs) {
					for i, l := range as.Lhs {
						if identObj(info, l) == o {
							n++
							found = usesAdd(as.Rhs[i], depth+1)
						}
					}
				}
				return true
			})
			if n == 1 {
				return found
			}
		}
		return nil
	}
	for _, h := range r.Hits {
		rs := h.Node.(*ast.ReturnStmt)
		var bad ast.Node
		for _, e := range rs.Results {
			if b := usesAdd(e, 0); b != nil {
				bad = b
			}
		}
		c.Check(bad == nil, rule, s.Name, "daily-return-is-calendar-arithmetic", h.Pos,
			"for tf = Day the time of a slot is built with AddDate / time.Date (calendar days), not by adding index × 24h to the start of the year (wrong by an hour — i.e. the previous day — in a zone whose offset on that day differs from January 1)")
	}
}

// R26.6 — a replica that goes away is always deregistered: in GetWALStream, once the stream's
// channel was put into the StreamChannels map, every exit passes `delete(StreamChannels, …)` (or a
// deferred one). A handler that returns on another way (e.g. a context-cancelled branch) leaves a
// channel nobody reads in the map; the fan-out fills its buffer and then blocks for ever, the other
// replicas stop receiving and the writer stalls.
func ruleReplicaDeregistered(c *Ctx) {
	const rule = "R26.6"
	const fld = "replication.GRPCReplicationServer.StreamChannels"
	s := c.S(rule, "(*replication.GRPCReplicationServer).GetWALStream")
	if s == nil {
		return
	}
	info := s.Info
	register := func(sub, top ast.Node) bool {
		as, ok := sub.(*ast.AssignStmt)
		if !ok {
			return false
		}
		for _, l := range as.Lhs {
			if ix, ok := unparen(l).(*ast.IndexExpr); ok && fieldKey(info, ix.X) == fld {
				return true
			}
		}
		return false
	}
	isDelete := func(n ast.Node) bool {
		found := false
		walkAll(n, func(m ast.Node) bool {
			if cx, ok := m.(*ast.CallExpr); ok && CalleeName(info, cx) == "builtin.delete" && len(cx.Args) == 2 && fieldKey(info, cx.Args[0]) == fld {
				found = true
			}
			return !found
		})
		return found
	}
	deregister := func(sub, top ast.Node) bool {
		switch x := sub.(type) {
		case *ast.CallExpr:
			return CalleeName(info, x) == "builtin.delete" && len(x.Args) == 2 && fieldKey(info, x.Args[0]) == fld
		case *ast.DeferStmt:
			return isDelete(x.Call)
		}
		return false
	}
	// a defer placed BEFORE the registration also covers every exit
	deferredEarly := false
	s.walk(func(m ast.Node) bool {
		if d, ok := m.(*ast.DeferStmt); ok && isDelete(d.Call) {
			deferredEarly = true
		}
		return true
	})
	r := s.Run(Query{Start: register, Barrier: deregister, ExitIsTarget: true})
	c.Floor(rule, s.Name, "registrations in the stream map", r.StartSites, 1)
	if deferredEarly {
		r.Hits = nil
	}
	c.reportHits(rule, s, "every-exit-deregisters-the-replica", r,
		"after the replica's channel was registered, every exit of the handler removes it from the map",
		"the handler can return without removing the replica's channel from the map: the fan-out keeps sending into a channel nobody reads, blocks when its buffer is full and stalls every other replica and the writer")
}

// R27.5 — the wire type string is looked up as it is: the table that decodes a type string
// (typeStrMap) is indexed with the string received, not with a transformed copy (re-sliced,
// trimmed, lower-cased …). The encoder emits the table's own keys ("i8", "f4", "U16" …); a
// normalisation that keeps "the last two characters" turns U16 into 16 and STRING16 columns no
// longer decode.
func ruleTypeStringLookedUpVerbatim(c *Ctx) {
	const rule = "R27.5"
	n := 0
	for _, fn := range c.P.NonTestFuncs() {
		if fn.PkgShort() != "utils/io" || fn.Decl.Body == nil {
			continue
		}
		info := fn.Pkg.TypesInfo
		s := c.P.ScopeOf(fn)
		walkAll(fn.Decl.Body, func(m ast.Node) bool {
			ix, ok := m.(*ast.IndexExpr)
			if !ok || objKey(info, ix.X) != "utils/io.typeStrMap" {
				return true
			}
			n++
			key := unparen(ix.Index)
			okKey := false
			why := types.ExprString(key)
			if o := identObj(info, key); o != nil {
				// a parameter, a range value, or a local with exactly one definition that is itself such a value
				okKey = true
				cnt := 0
				walkAll(fn.Decl.Body, func(k ast.Node) bool {
					if as, ok := k.(*ast.AssignStmt); ok && len(as.Lhs) == len(as.Rhs) {
						for i, l := range as.Lhs {
							if identObj(info, l) == o {
								cnt++
								if _, plain := unparen(as.Rhs[i]).(*ast.Ident); !plain {
									if _, isIdx := unparen(as.Rhs[i]).(*ast.IndexExpr); !isIdx {
										okKey = false
										why = o.Name() + " := " + types.ExprString(as.Rhs[i])
									}
								}
							}
						}
					}
					return true
				})
				_ = cnt
			} else if _, isIdx := key.(*ast.IndexExpr); isIdx {
				okKey = true // ColumnTypes[i]
			} else if sel, isSel := key.(*ast.SelectorExpr); isSel && info.Selections[sel] != nil {
				okKey = true // a field
			}
			c.Check(okKey, rule, s.Name, "type-string-key-is-the-received-string", c.P.Pos(ix.Pos()),
				"typeStrMap is indexed with the wire string itself ("+why+"); a transformed key decodes some of the encoder's own type strings to 'unsupported'")
			return true
		})
	}
	c.Floor(rule, "utils/io", "lookups in typeStrMap", n, 2)
}

// R28.7 — the decoder accepts what the encoder emits, including an empty payload: ParseTGData is
// evaluated with the data length of a write command = 0 (a FIXED bucket whose only column is
// Epoch has zero data bytes; offset and index are still there) and the statement that slices the
// command's buffer must stay reachable. An over-strict `dataLen <= 0` sanity check drops that
// command and every command after it in the transaction group.
func ruleEmptyPayloadDecodes(c *Ctx) {
	const rule = "R28.7"
	s := c.S(rule, fnParseTGData)
	if s == nil {
		return
	}
	info := s.Info
	// the slice that becomes the command's buffer: a SliceExpr whose High mentions a local L that
	// is defined by a 32-bit decode; L is the data length
	var lenObj types.Object
	var sliceSite ast.Node
	s.walk(func(m ast.Node) bool {
		se, ok := m.(*ast.SliceExpr)
		if !ok || se.High == nil || lenObj != nil {
			return true
		}
		// High = cursor + offsetLen + indexLen + dataLen  (at least three addends)
		adds := 0
		var cand types.Object
		walkAll(se.High, func(k ast.Node) bool {
			if b, ok := k.(*ast.BinaryExpr); ok && b.Op == token.ADD {
				adds++
			}
			if id, ok := k.(*ast.Ident); ok {
				if o := objOf(info, id); o != nil {
					// defined from io.ToInt32(...)
					s.walk(func(d ast.Node) bool {
						if as, ok := d.(*ast.AssignStmt); ok && len(as.Lhs) == 1 && len(as.Rhs) == 1 && identObj(info, as.Lhs[0]) == o {
							found := false
							walkAll(as.Rhs[0], func(x ast.Node) bool {
								if cx, ok := x.(*ast.CallExpr); ok && CalleeName(info, cx) == "utils/io.ToInt32" {
									found = true
								}
								return !found
							})
							if found {
								cand = o
							}
						}
						return true
					})
				}
			}
			return true
		})
		if adds >= 2 && cand != nil {
			lenObj, sliceSite = cand, se
		}
		return true
	})
	if lenObj == nil {
		c.Undecided(rule, s.Name, "data-length-variable", "the slice that takes offset+index+data of a write command was not found")
		return
	}
	zero := constant.MakeInt64(0)
	atom := func(e ast.Expr) (constant.Value, bool) {
		if identObj(info, e) == lenObj {
			return zero, true
		}
		if cx, ok := e.(*ast.CallExpr); ok && len(cx.Args) == 1 {
			if tv, isT := info.Types[cx.Fun]; isT && tv.IsType() && identObj(info, cx.Args[0]) == lenObj {
				return zero, true
			}
		}
		return nil, false
	}
	r := s.Run(Query{WholeFacts: true, Exempt: func(f []Fact) bool { return infeasibleUnder(info, f, atom) },
		Target: func(sub, top ast.Node) bool { return sub == sliceSite }})
	c.Check(len(r.Hits) > 0, rule, s.Name, "empty-payload-command-is-decoded", c.P.Pos(sliceSite.Pos()),
		"with a data length of 0 the decoder still reaches the statement that takes the command's offset/index/payload (an Epoch-only FIXED bucket writes commands with an empty payload)")
}

// R31.5 — week windows use the ISO week-numbering year: wherever Time.ISOWeek() is called in the
// timeframe code, both results are used. The ISO week number alone (or paired with the calendar
// year) is ambiguous around New Year: the week of Mon 2019-12-30 is week 1 of ISO year 2020.
func ruleISOWeekBothResults(c *Ctx) {
	const rule = "R31.5"
	n := 0
	for _, fn := range c.P.NonTestFuncs() {
		ps := fn.PkgShort()
		if fn.Decl.Body == nil || !(ps == "utils" || strings.HasPrefix(ps, "contrib/candler") || strings.HasPrefix(ps, "contrib/ondiskagg")) {
			continue
		}
		info := fn.Pkg.TypesInfo
		par := c.P.Parents(c.P.FileOf(fn.Pkg, fn.Decl.Pos()))
		walkAll(fn.Decl.Body, func(m ast.Node) bool {
			cx, ok := m.(*ast.CallExpr)
			if !ok || CalleeName(info, cx) != "(time.Time).ISOWeek" {
				return true
			}
			n++
			okUse := false
			if as, ok := par[cx].(*ast.AssignStmt); ok && len(as.Lhs) == 2 {
				y, yok := as.Lhs[0].(*ast.Ident)
				w, wok := as.Lhs[1].(*ast.Ident)
				if yok && wok && y.Name != "_" && w.Name != "_" {
					// both are read somewhere
					yo, wo := info.ObjectOf(y), info.ObjectOf(w)
					yUsed, wUsed := false, false
					walkAll(fn.Decl.Body, func(k ast.Node) bool {
						if id, ok := k.(*ast.Ident); ok && id != y && id != w {
							if info.ObjectOf(id) == yo {
								yUsed = true
							}
							if info.ObjectOf(id) == wo {
								wUsed = true
							}
						}
						return true
					})
					okUse = yUsed && wUsed
				}
			}
			c.Check(okUse, rule, fn.Key, "iso-year-and-week-both-used", c.P.Pos(cx.Pos()),
				"both results of ISOWeek() — the ISO year and the week number — are bound and read (the week number with the calendar year, or alone, misplaces the days of a week that spans New Year)")
			return true
		})
	}
	c.Floor(rule, "utils", "ISOWeek call sites", n, 2)
}

// R32.5 — the records handed to the triggers are the records that were written: in
// FlushCommandsToWAL the per-file write list produced for the transaction group is not replaced or
// filtered before it is walked for AppendRecord (the range variable holding it is never assigned
// in the loop). Coalescing "superseded" writes to one slot is invisible on disk but drops the
// superseded records from what the triggers see.
func ruleTriggerListUnfiltered(c *Ctx) {
	const rule = "R32.5"
	s := c.S(rule, fnFlushCommandsToWAL)
	if s == nil {
		return
	}
	info := s.Info
	n := 0
	s.walk(func(m ast.Node) bool {
		li := asLoop(info, m)
		if li == nil {
			return true
		}
		has := false
		walkAll(li.Body, func(k ast.Node) bool {
			if cx, ok := k.(*ast.CallExpr); ok && strings.HasSuffix(CalleeName(info, cx), "TriggerPluginDispatcher).AppendRecord") {
				has = true
			}
			return !has
		})
		rs, isRange := m.(*ast.RangeStmt)
		if !has || !isRange || rs.Value == nil {
			return true
		}
		vo := identObj(info, rs.Value)
		if vo == nil {
			return true
		}
		if _, isSlice := vo.Type().Underlying().(*types.Slice); !isSlice {
			return true // inner loop over the records themselves
		}
		n++
		var bad ast.Node
		walkAll(rs.Body, func(k ast.Node) bool {
			if as, ok := k.(*ast.AssignStmt); ok {
				for _, l := range as.Lhs {
					if identObj(info, l) == vo && bad == nil {
						bad = as
					}
				}
			}
			return true
		})
		pos := c.P.Pos(rs.Pos())
		if bad != nil {
			pos = c.P.Pos(bad.Pos())
		}
		c.Check(bad == nil, rule, s.Name, "write-list-not-replaced-before-dispatch", pos,
			"the list of a file's writes is walked for the triggers as serializeTG produced it (it is not reassigned — filtered, coalesced, reordered — inside the per-file loop)")
		return true
	})
	c.Floor(rule, s.Name, "per-file loops that feed the trigger dispatcher", n, 1)
	_ = fmt.Sprint
}

// dependsOnLoopElem: e depends (through definitions inside the loop body) on the loop's element
// variable / index; a map lookup in a container declared outside the loop does NOT count even if
// its key depends on the element (that is a shared memo).
func dependsOnLoopElem(info *types.Info, li *loopInfo, e ast.Expr, depth int, seen map[types.Object]bool) (dep bool, viaOuterMap ast.Node) {
	if depth > 6 || e == nil {
		return false, nil
	}
	e = unparen(e)
	if ix, ok := e.(*ast.IndexExpr); ok {
		if t := info.TypeOf(ix.X); t != nil {
			if _, isMap := t.Underlying().(*types.Map); isMap {
				if o := identObj(info, ix.X); o != nil && (o.Pos() < li.Body.Pos() || o.Pos() > li.Body.End()) {
					return false, ix
				}
			}
		}
	}
	walkAll(e, func(m ast.Node) bool {
		if dep || viaOuterMap != nil {
			return false
		}
		switch x := m.(type) {
		case *ast.IndexExpr:
			if x != e {
				d, via := dependsOnLoopElem(info, li, x, depth+1, seen)
				dep = dep || d
				if via != nil {
					viaOuterMap = via
				}
				return false
			}
		case *ast.Ident:
			o := objOf(info, x)
			if o == nil || seen[o] {
				return true
			}
			if li.Elems[o] || o == li.Index {
				dep = true
				return false
			}
			if _, isVar := o.(*types.Var); !isVar {
				return true
			}
			seen[o] = true
			// definitions inside the loop body
			walkAll(li.Body, func(d ast.Node) bool {
				if as, ok := d.(*ast.AssignStmt); ok {
					for i, l := range as.Lhs {
						if identObj(info, l) != o {
							continue
						}
						var rhs ast.Expr
						if len(as.Rhs) == len(as.Lhs) {
							rhs = as.Rhs[i]
						} else if len(as.Rhs) == 1 {
							rhs = as.Rhs[0]
						}
						d2, via := dependsOnLoopElem(info, li, rhs, depth+1, seen)
						dep = dep || d2
						if via != nil {
							viaOuterMap = via
						}
					}
				}
				return true
			})
		}
		return true
	})
	return dep, viaOuterMap
}

// R13.7 — every bucket of a query is described by its own file header: in
// ParseResult.GetDataShapes (and GetRowLen / GetRowType) the value stored under a bucket's key is
// computed from that same qualified file — never taken from a container that is shared between
// the iterations (one shape vector per "record format"). Buckets that share timeframe and
// attribute group may have different columns; decoding one with another's layout swaps values
// between columns without any error.
func ruleShapesFromOwnFile(c *Ctx) {
	const rule = "R13.7"
	n := 0
	for _, key := range []string{"(*planner.ParseResult).GetDataShapes", "(*planner.ParseResult).GetRowLen", "(*planner.ParseResult).GetRowType"} {
		if c.P.Funcs[key] == nil {
			continue
		}
		s := c.S(rule, key)
		if s == nil {
			continue
		}
		info := s.Info
		s.walk(func(m ast.Node) bool {
			li := asLoop(info, m)
			if li == nil {
				return true
			}
			walkAll(li.Body, func(k ast.Node) bool {
				as, ok := k.(*ast.AssignStmt)
				if !ok || len(as.Lhs) != 1 || len(as.Rhs) != 1 {
					return true
				}
				ix, ok := unparen(as.Lhs[0]).(*ast.IndexExpr)
				if !ok {
					return true
				}
				if t := info.TypeOf(ix.X); t == nil {
					return true
				} else if _, isMap := t.Underlying().(*types.Map); !isMap {
					return true
				}
				// result maps only: the container is a named result or returned
				mo := identObj(info, ix.X)
				if mo == nil || (mo.Pos() > li.Body.Pos() && mo.Pos() < li.Body.End()) {
					return true
				}
				isResult := false
				sig := s.Fn.Obj.Type().(*types.Signature)
				for i := 0; i < sig.Results().Len(); i++ {
					if sig.Results().At(i) == mo {
						isResult = true
					}
				}
				walkAll(s.Body, func(r ast.Node) bool {
					if rs, ok := r.(*ast.ReturnStmt); ok {
						for _, e := range rs.Results {
							if identObj(info, e) == mo {
								isResult = true
							}
						}
					}
					return true
				})
				if !isResult {
					return true
				}
				n++
				dep, via := dependsOnLoopElem(info, li, as.Rhs[0], 0, map[types.Object]bool{})
				okv := dep && via == nil
				why := "computed from the iteration's own qualified file"
				if via != nil {
					why = "taken from " + types.ExprString(via.(ast.Expr)) + ", a container shared between the iterations"
				} else if !dep {
					why = "does not depend on the iteration's file"
				}
				c.Check(okv, rule, s.Name, "per-bucket-value-from-own-file", c.P.Pos(as.Pos()),
					"the value stored for a bucket key is "+why+" (every bucket has its own header; two buckets of one timeframe/attribute group can have different columns)")
				return true
			})
			return true
		})
	}
	c.Floor(rule, "planner.ParseResult", "per-bucket entries of the result maps", n, 2)
}

// R33.6 — a CSV integer is parsed with the width of its column: in the loader, the bitSize given
// to strconv.ParseInt / ParseUint is not larger than the integer type its result is converted
// to. Parsing with 64 bits and casting to int8/int16/int32 accepts out-of-range fields and stores
// the wrapped-around value while the import reports success.
func ruleParseWidthMatchesColumn(c *Ctx) {
	const rule = "R33.6"
	n := 0
	for _, fn := range c.P.NonTestFuncs() {
		if !strings.HasPrefix(fn.PkgShort(), "cmd/connect/loader") || fn.Decl.Body == nil {
			continue
		}
		info := fn.Pkg.TypesInfo
		sizes := fn.Pkg.TypesSizes
		walkAll(fn.Decl.Body, func(m ast.Node) bool {
			as, ok := m.(*ast.AssignStmt)
			if !ok || len(as.Rhs) != 1 || len(as.Lhs) != 2 {
				return true
			}
			cx, ok := unparen(as.Rhs[0]).(*ast.CallExpr)
			if !ok || len(cx.Args) != 3 {
				return true
			}
			nm := CalleeName(info, cx)
			if nm != "strconv.ParseInt" && nm != "strconv.ParseUint" {
				return true
			}
			bits, isConst := constInt(info, cx.Args[2])
			val := identObj(info, as.Lhs[0])
			if val == nil {
				return true // stored directly into a 64-bit element
			}
			// conversions of val in this function
			walkAll(fn.Decl.Body, func(k ast.Node) bool {
				conv, ok := k.(*ast.CallExpr)
				if !ok || len(conv.Args) != 1 || identObj(info, conv.Args[0]) != val {
					return true
				}
				tv, isT := info.Types[conv.Fun]
				if !isT || !tv.IsType() {
					return true
				}
				n++
				var width int64 = -1
				switch t := tv.Type.(type) {
				case *types.TypeParam:
					// the narrowest type of the constraint's type set
					if iface, ok := t.Constraint().Underlying().(*types.Interface); ok {
						for i := 0; i < iface.NumEmbeddeds(); i++ {
							if u, ok := iface.EmbeddedType(i).(*types.Union); ok {
								for j := 0; j < u.Len(); j++ {
									if b, ok := u.Term(j).Type().Underlying().(*types.Basic); ok && b.Info()&types.IsInteger != 0 {
										w := sizes.Sizeof(b) * 8
										if width < 0 || w < width {
											width = w
										}
									}
								}
							}
						}
					}
				default:
					if b, ok := tv.Type.Underlying().(*types.Basic); ok && b.Info()&types.IsInteger != 0 {
						width = sizes.Sizeof(b) * 8
					}
				}
				if width < 0 {
					return true
				}
				okW := isConst && bits > 0 && bits <= width
				c.Check(okW, rule, fn.Key, fmt.Sprintf("parse-width<=column-width:%s", types.ExprString(conv.Fun)), c.P.Pos(conv.Pos()),
					fmt.Sprintf("%s(…, bitSize=%s) is converted to a %d-bit integer: the parse must reject what the column cannot hold (bitSize ≤ %d)", shortCallee(nm), types.ExprString(cx.Args[2]), width, width))
				return true
			})
			return true
		})
	}
	c.Floor(rule, "cmd/connect/loader", "narrowing conversions of parsed integers", n, 4)
}

// R18.10 — a write command is queued only when it is complete: in WriteRecords, after
// QueueWriteCommand(x) no field of x is assigned until x is bound to a new command. The WAL
// goroutine may take a queued command at any moment; a command that is still being filled is
// serialized with the rows appended so far and the rest are lost (and the access is a data race).
func ruleQueuedCommandImmutable(c *Ctx) {
	const rule = "R18.10"
	s := c.S(rule, fnWriteRecords)
	if s == nil {
		return
	}
	info := s.Info
	n := 0
	for _, site := range s.sites(callPred(s, fnQueueWriteCommand)) {
		call := site.(*ast.CallExpr)
		if len(call.Args) != 1 {
			continue
		}
		x := identObj(info, call.Args[0])
		if x == nil {
			continue
		}
		n++
		r := s.Run(Query{
			Start: func(sub, _ ast.Node) bool { return sub == ast.Node(call) },
			Target: func(sub, _ ast.Node) bool {
				as, ok := sub.(*ast.AssignStmt)
				if !ok {
					return false
				}
				for _, l := range as.Lhs {
					if sel, ok := unparen(l).(*ast.SelectorExpr); ok && identObj(info, sel.X) == x {
						return true
					}
				}
				return false
			},
			Barrier: func(sub, _ ast.Node) bool {
				as, ok := sub.(*ast.AssignStmt)
				if !ok {
					return false
				}
				for _, l := range as.Lhs {
					if identObj(info, l) == x {
						return true
					}
				}
				return false
			},
		})
		c.reportHits(rule, s, "no-field-write-after-queueing", r,
			"after a command was queued its fields are not written until the variable is bound to a new command",
			"a command that was already handed to the WAL queue is still modified: a flush that takes it in between logs and applies only part of the rows of the interval (and races with the writer)")
	}
	c.Floor(rule, s.Name, "QueueWriteCommand call sites", n, 2)
}

// R6.6 — what a WAL record reader hands back drives the replay tables only after its error was
// tested nil. readTGData / readTransactionInfo return zero values together with a non-stop error
// (garbage length, bad checksum, invalid field); fullRead only stops the scan on EOF and short
// reads, so a result used without the nil-error edge is recorded under TG ID 0: the second
// damaged record in one log is then a "duplicate" of the first, Replay gives the whole log up
// and every intact committed transaction group before the damage is dropped. An edge on which a
// result is compared equal to a constant that no error return of the reader can yield (the
// `case CHECKPOINT:` of the destination switch) is as good as the nil-error edge.
// The replay tables are the local maps of Replay that are read somewhere (write-only
// bookkeeping maps are not state).
func ruleReplayRecordResultsAfterErrTest(c *Ctx) {
	const rule = "R6.6"
	s := c.S(rule, fnReplay)
	if s == nil {
		return
	}
	info := s.Info
	// live tables
	written, read := map[types.Object]bool{}, map[types.Object]bool{}
	lhsIdx := map[ast.Node]bool{}
	s.walk(func(m ast.Node) bool {
		if as, ok := m.(*ast.AssignStmt); ok {
			for _, l := range as.Lhs {
				if ix, ok := unparen(l).(*ast.IndexExpr); ok {
					lhsIdx[ix] = true
				}
			}
		}
		return true
	})
	isMap := func(o types.Object) bool {
		if o == nil {
			return false
		}
		_, ok := o.Type().Underlying().(*types.Map)
		return ok
	}
	s.walk(func(m ast.Node) bool {
		switch x := m.(type) {
		case *ast.IndexExpr:
			if o := identObj(info, x.X); isMap(o) {
				if lhsIdx[x] {
					written[o] = true
				} else {
					read[o] = true
				}
			}
		case *ast.RangeStmt:
			if o := identObj(info, x.X); isMap(o) {
				read[o] = true
			}
		}
		return true
	})
	tables := 0
	for o := range read {
		if written[o] {
			tables++
		}
	}
	c.Floor(rule, s.Name, "replay tables (local maps written in the scan and read again)", tables, 2)
	isTable := func(e ast.Expr) bool { o := identObj(info, e); return o != nil && read[o] && written[o] }

	nSites := 0
	for _, reader := range []string{fnReadTGData, fnReadTxnInfo} {
		rf := c.F(rule, reader)
		if rf == nil {
			continue
		}
		errConst := errorReturnConstants(rf)
		for _, site := range s.sites(callPred(s, reader)) {
			call := site.(*ast.CallExpr)
			var objs []types.Object
			s.walk(func(m ast.Node) bool {
				if as, ok := m.(*ast.AssignStmt); ok && len(as.Rhs) == 1 && unparen(as.Rhs[0]) == ast.Expr(call) && len(as.Lhs) >= 2 {
					for _, l := range as.Lhs[:len(as.Lhs)-1] {
						objs = append(objs, identObj(info, l)) // nil for _
					}
				}
				return true
			})
			if len(objs) == 0 {
				c.Undecided(rule, s.Name, "reader-results-bound:"+shortCallee(reader), "the results of "+reader+" are not bound by a plain assignment: the rule cannot follow them")
				continue
			}
			nSites++
			any := func(n ast.Node) bool {
				for _, o := range objs {
					if o != nil && mentions(info, n, o) {
						return true
					}
				}
				return false
			}
			use := func(sub, _ ast.Node) bool {
				switch x := sub.(type) {
				case *ast.IndexExpr:
					return isTable(x.X) && any(x.Index)
				case *ast.AssignStmt:
					for i, l := range x.Lhs {
						if ix, ok := unparen(l).(*ast.IndexExpr); ok && isTable(ix.X) {
							if len(x.Rhs) == len(x.Lhs) && any(x.Rhs[i]) {
								return true
							}
						}
					}
				}
				return false
			}
			impossibleOnError := func(facts []Fact) bool {
				if os.Getenv("DBG66") != "" {
					for _, f := range facts {
						tg := ""
						if f.Tag != nil {
							tg = types.ExprString(f.Tag)
						}
						fmt.Fprintf(os.Stderr, "DBG66 %s fact expr=%s val=%v tag=%s whole=%v\n", shortCallee(reader), types.ExprString(f.Expr), f.Val, tg, f.Whole)
					}
				}
				for _, f := range facts {
					if !f.Val || f.Whole {
						continue
					}
					var subj, k ast.Expr
					if f.Tag != nil {
						subj, k = f.Tag, f.Expr
					} else if b, ok := unparen(f.Expr).(*ast.BinaryExpr); ok && b.Op == token.EQL {
						subj, k = b.X, b.Y
						if identObj(info, subj) == nil {
							subj, k = b.Y, b.X
						}
					}
					if subj == nil {
						continue
					}
					so := identObj(info, subj)
					tv, ok := info.Types[k]
					if so == nil || !ok || tv.Value == nil {
						continue
					}
					for i, o := range objs {
						if o != nil && canonObject(o) == canonObject(so) && i < len(errConst) && errConst[i] != nil && !errConst[i][tv.Value.ExactString()] {
							return true
						}
					}
				}
				return false
			}
			r := s.Run(Query{Target: use, Barrier: func(sub, _ ast.Node) bool { return sub == ast.Node(call) }, NeedOK: true, Exempt: impossibleOnError})
			c.reportHits(rule, s, "record-results-reach-replay-tables-after-error-test:"+shortCallee(reader), r,
				"the replay tables are keyed/filled from the record only on the edge where the reader's error was tested nil (or on a branch no error return of the reader can take)",
				"a replay table is keyed/filled from the results of "+shortCallee(reader)+" although its error was not tested nil: a damaged record (garbage length, bad checksum) is recorded under the zero TG ID, the next one is a 'duplicate', Replay gives the log up and the intact committed transaction groups before the damage are dropped")
		}
	}
	c.Floor(rule, s.Name, "record reader call sites in the scan", nSites, 2)
}

// errorReturnConstants lists, per non-error result of fn, the constant values it takes on the
// returns whose error is not the literal nil; nil for a result that is not constant on all of them.
func errorReturnConstants(fn *Func) []map[string]bool {
	info := fn.Pkg.TypesInfo
	sig, _ := info.ObjectOf(fn.Decl.Name).Type().(*types.Signature)
	if sig == nil || sig.Results().Len() < 2 {
		return nil
	}
	n := sig.Results().Len() - 1
	out := make([]map[string]bool, n)
	for i := range out {
		out[i] = map[string]bool{}
	}
	walkAll(fn.Decl.Body, func(m ast.Node) bool {
		if _, ok := m.(*ast.FuncLit); ok {
			return false
		}
		rs, ok := m.(*ast.ReturnStmt)
		if !ok {
			return true
		}
		if len(rs.Results) != n+1 {
			for i := range out {
				out[i] = nil
			}
			return true
		}
		if id, ok := unparen(rs.Results[n]).(*ast.Ident); ok && id.Name == "nil" {
			return true
		}
		for i := 0; i < n; i++ {
			if out[i] == nil {
				continue
			}
			if tv, ok := info.Types[rs.Results[i]]; ok && tv.Value != nil {
				out[i][tv.Value.ExactString()] = true
			} else {
				out[i] = nil
			}
		}
		return true
	})
	return out
}
