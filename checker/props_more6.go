package main

// Rules added after the fifth batch of independently seeded changes (waves 4–5).

import (
	"fmt"
	"go/ast"
	"go/constant"
	"go/token"
	"go/types"
	"strings"
)

// R30.5 — the daily slot → time mapping is calendar arithmetic: IndexToTime is evaluated with
// tf = utils.Day (finite-domain evaluation) and no reachable return is a Time.Add of a duration.
// "start of year + index × 24h" is not local midnight of day `index` in a zone whose offset on
// that day differs from the offset on January 1 (daylight saving): TimeToIndex then maps the
// result to the previous day, and a replica, which rebuilds epochs with IndexToTime, stores daily
// bars one slot early.
func ruleDailyIndexToTimeOnCalendar(c *Ctx) {
	const rule = "R30.5"
	s := c.S(rule, "utils/io.IndexToTime")
	if s == nil {
		return
	}
	info := s.Info
	tf := paramObjC(s.Fn, 1)
	dayObj := c.P.ByPath["utils"]
	var dayVal constant.Value
	if dayObj != nil {
		if k, ok := dayObj.Types.Scope().Lookup("Day").(*types.Const); ok {
			dayVal = k.Val()
		}
	}
	if tf == nil || dayVal == nil {
		c.Undecided(rule, s.Name, "anchors", "timeframe parameter of IndexToTime or constant utils.Day not found")
		return
	}
	atom := func(e ast.Expr) (constant.Value, bool) {
		if identObj(info, e) == tf {
			return dayVal, true
		}
		return nil, false
	}
	r := s.Run(Query{WholeFacts: true, Exempt: func(f []Fact) bool { return infeasibleUnder(info, f, atom) },
		Target: func(sub, top ast.Node) bool { _, ok := sub.(*ast.ReturnStmt); return ok }})
	c.Floor(rule, s.Name, "returns reachable for the daily timeframe", len(r.Hits), 1)
	// is an expression (through single local definitions) a Time.Add?
	var usesAdd func(e ast.Expr, depth int) ast.Node
	usesAdd = func(e ast.Expr, depth int) ast.Node {
		if depth > 4 {
			return nil
		}
		e = unparen(e)
		if cx, ok := e.(*ast.CallExpr); ok {
			switch CalleeName(info, cx) {
			case "(time.Time).Add":
				return cx
			case "(time.Time).AddDate", "time.Date":
				return nil
			}
			if sel, ok := unparen(cx.Fun).(*ast.SelectorExpr); ok {
				return usesAdd(sel.X, depth+1)
			}
		}
		if o := identObj(info, e); o != nil {
			var found ast.Node
			n := 0
			s.walk(func(m ast.Node) bool {
				if as, ok := m.(*ast.AssignStmt); ok && len(as.Lhs) == len(as.Rhs) {
					for i, l := range as.Lhs {
						if identObj(info, l) == o {
							n++
							found = usesAdd(as.Rhs[i], depth+1)
						}
					}
				}
				return true
			})
			if n == 1 {
				return found
			}
		}
		return nil
	}
	for _, h := range r.Hits {
		rs := h.Node.(*ast.ReturnStmt)
		var bad ast.Node
		for _, e := range rs.Results {
			if b := usesAdd(e, 0); b != nil {
				bad = b
			}
		}
		c.Check(bad == nil, rule, s.Name, "daily-return-is-calendar-arithmetic", h.Pos,
			"for tf = Day the time of a slot is built with AddDate / time.Date (calendar days), not by adding index × 24h to the start of the year (wrong by an hour — i.e. the previous day — in a zone whose offset on that day differs from January 1)")
	}
}

// R26.6 — a replica that goes away is always deregistered: in GetWALStream, once the stream's
// channel was put into the StreamChannels map, every exit passes `delete(StreamChannels, …)` (or a
// deferred one). A handler that returns on another way (e.g. a context-cancelled branch) leaves a
// channel nobody reads in the map; the fan-out fills its buffer and then blocks for ever, the other
// replicas stop receiving and the writer stalls.
func ruleReplicaDeregistered(c *Ctx) {
	const rule = "R26.6"
	const fld = "replication.GRPCReplicationServer.StreamChannels"
	s := c.S(rule, "(*replication.GRPCReplicationServer).GetWALStream")
	if s == nil {
		return
	}
	info := s.Info
	register := func(sub, top ast.Node) bool {
		as, ok := sub.(*ast.AssignStmt)
		if !ok {
			return false
		}
		for _, l := range as.Lhs {
			if ix, ok := unparen(l).(*ast.IndexExpr); ok && fieldKey(info, ix.X) == fld {
				return true
			}
		}
		return false
	}
	isDelete := func(n ast.Node) bool {
		found := false
		walkAll(n, func(m ast.Node) bool {
			if cx, ok := m.(*ast.CallExpr); ok && CalleeName(info, cx) == "builtin.delete" && len(cx.Args) == 2 && fieldKey(info, cx.Args[0]) == fld {
				found = true
			}
			return !found
		})
		return found
	}
	deregister := func(sub, top ast.Node) bool {
		switch x := sub.(type) {
		case *ast.CallExpr:
			return CalleeName(info, x) == "builtin.delete" && len(x.Args) == 2 && fieldKey(info, x.Args[0]) == fld
		case *ast.DeferStmt:
			return isDelete(x.Call)
		}
		return false
	}
	// a defer placed BEFORE the registration also covers every exit
	deferredEarly := false
	s.walk(func(m ast.Node) bool {
		if d, ok := m.(*ast.DeferStmt); ok && isDelete(d.Call) {
			deferredEarly = true
		}
		return true
	})
	r := s.Run(Query{Start: register, Barrier: deregister, ExitIsTarget: true})
	c.Floor(rule, s.Name, "registrations in the stream map", r.StartSites, 1)
	if deferredEarly {
		r.Hits = nil
	}
	c.reportHits(rule, s, "every-exit-deregisters-the-replica", r,
		"after the replica's channel was registered, every exit of the handler removes it from the map",
		"the handler can return without removing the replica's channel from the map: the fan-out keeps sending into a channel nobody reads, blocks when its buffer is full and stalls every other replica and the writer")
}

// R27.5 — the wire type string is looked up as it is: the table that decodes a type string
// (typeStrMap) is indexed with the string received, not with a transformed copy (re-sliced,
// trimmed, lower-cased …). The encoder emits the table's own keys ("i8", "f4", "U16" …); a
// normalisation that keeps "the last two characters" turns U16 into 16 and STRING16 columns no
// longer decode.
func ruleTypeStringLookedUpVerbatim(c *Ctx) {
	const rule = "R27.5"
	n := 0
	for _, fn := range c.P.NonTestFuncs() {
		if fn.PkgShort() != "utils/io" || fn.Decl.Body == nil {
			continue
		}
		info := fn.Pkg.TypesInfo
		s := c.P.ScopeOf(fn)
		walkAll(fn.Decl.Body, func(m ast.Node) bool {
			ix, ok := m.(*ast.IndexExpr)
			if !ok || objKey(info, ix.X) != "utils/io.typeStrMap" {
				return true
			}
			n++
			key := unparen(ix.Index)
			okKey := false
			why := types.ExprString(key)
			if o := identObj(info, key); o != nil {
				// a parameter, a range value, or a local with exactly one definition that is itself such a value
				okKey = true
				cnt := 0
				walkAll(fn.Decl.Body, func(k ast.Node) bool {
					if as, ok := k.(*ast.AssignStmt); ok && len(as.Lhs) == len(as.Rhs) {
						for i, l := range as.Lhs {
							if identObj(info, l) == o {
								cnt++
								if _, plain := unparen(as.Rhs[i]).(*ast.Ident); !plain {
									if _, isIdx := unparen(as.Rhs[i]).(*ast.IndexExpr); !isIdx {
										okKey = false
										why = o.Name() + " := " + types.ExprString(as.Rhs[i])
									}
								}
							}
						}
					}
					return true
				})
				_ = cnt
			} else if _, isIdx := key.(*ast.IndexExpr); isIdx {
				okKey = true // ColumnTypes[i]
			} else if sel, isSel := key.(*ast.SelectorExpr); isSel && info.Selections[sel] != nil {
				okKey = true // a field
			}
			c.Check(okKey, rule, s.Name, "type-string-key-is-the-received-string", c.P.Pos(ix.Pos()),
				"typeStrMap is indexed with the wire string itself ("+why+"); a transformed key decodes some of the encoder's own type strings to 'unsupported'")
			return true
		})
	}
	c.Floor(rule, "utils/io", "lookups in typeStrMap", n, 2)
}

// R28.7 — the decoder accepts what the encoder emits, including an empty payload: ParseTGData is
// evaluated with the data length of a write command = 0 (a FIXED bucket whose only column is
// Epoch has zero data bytes; offset and index are still there) and the statement that slices the
// command's buffer must stay reachable. An over-strict `dataLen <= 0` sanity check drops that
// command and every command after it in the transaction group.
func ruleEmptyPayloadDecodes(c *Ctx) {
	const rule = "R28.7"
	s := c.S(rule, fnParseTGData)
	if s == nil {
		return
	}
	info := s.Info
	// the slice that becomes the command's buffer: a SliceExpr whose High mentions a local L that
	// is defined by a 32-bit decode; L is the data length
	var lenObj types.Object
	var sliceSite ast.Node
	s.walk(func(m ast.Node) bool {
		se, ok := m.(*ast.SliceExpr)
		if !ok || se.High == nil || lenObj != nil {
			return true
		}
		// High = cursor + offsetLen + indexLen + dataLen  (at least three addends)
		adds := 0
		var cand types.Object
		walkAll(se.High, func(k ast.Node) bool {
			if b, ok := k.(*ast.BinaryExpr); ok && b.Op == token.ADD {
				adds++
			}
			if id, ok := k.(*ast.Ident); ok {
				if o := objOf(info, id); o != nil {
					// defined from io.ToInt32(...)
					s.walk(func(d ast.Node) bool {
						if as, ok := d.(*ast.AssignStmt); ok && len(as.Lhs) == 1 && len(as.Rhs) == 1 && identObj(info, as.Lhs[0]) == o {
							found := false
							walkAll(as.Rhs[0], func(x ast.Node) bool {
								if cx, ok := x.(*ast.CallExpr); ok && CalleeName(info, cx) == "utils/io.ToInt32" {
									found = true
								}
								return !found
							})
							if found {
								cand = o
							}
						}
						return true
					})
				}
			}
			return true
		})
		if adds >= 2 && cand != nil {
			lenObj, sliceSite = cand, se
		}
		return true
	})
	if lenObj == nil {
		c.Undecided(rule, s.Name, "data-length-variable", "the slice that takes offset+index+data of a write command was not found")
		return
	}
	zero := constant.MakeInt64(0)
	atom := func(e ast.Expr) (constant.Value, bool) {
		if identObj(info, e) == lenObj {
			return zero, true
		}
		if cx, ok := e.(*ast.CallExpr); ok && len(cx.Args) == 1 {
			if tv, isT := info.Types[cx.Fun]; isT && tv.IsType() && identObj(info, cx.Args[0]) == lenObj {
				return zero, true
			}
		}
		return nil, false
	}
	r := s.Run(Query{WholeFacts: true, Exempt: func(f []Fact) bool { return infeasibleUnder(info, f, atom) },
		Target: func(sub, top ast.Node) bool { return sub == sliceSite }})
	c.Check(len(r.Hits) > 0, rule, s.Name, "empty-payload-command-is-decoded", c.P.Pos(sliceSite.Pos()),
		"with a data length of 0 the decoder still reaches the statement that takes the command's offset/index/payload (an Epoch-only FIXED bucket writes commands with an empty payload)")
}

// R31.5 — week windows use the ISO week-numbering year: wherever Time.ISOWeek() is called in the
// timeframe code, both results are used. The ISO week number alone (or paired with the calendar
// year) is ambiguous around New Year: the week of Mon 2019-12-30 is week 1 of ISO year 2020.
func ruleISOWeekBothResults(c *Ctx) {
	const rule = "R31.5"
	n := 0
	for _, fn := range c.P.NonTestFuncs() {
		ps := fn.PkgShort()
		if fn.Decl.Body == nil || !(ps == "utils" || strings.HasPrefix(ps, "contrib/candler") || strings.HasPrefix(ps, "contrib/ondiskagg")) {
			continue
		}
		info := fn.Pkg.TypesInfo
		par := c.P.Parents(c.P.FileOf(fn.Pkg, fn.Decl.Pos()))
		walkAll(fn.Decl.Body, func(m ast.Node) bool {
			cx, ok := m.(*ast.CallExpr)
			if !ok || CalleeName(info, cx) != "(time.Time).ISOWeek" {
				return true
			}
			n++
			okUse := false
			if as, ok := par[cx].(*ast.AssignStmt); ok && len(as.Lhs) == 2 {
				y, yok := as.Lhs[0].(*ast.Ident)
				w, wok := as.Lhs[1].(*ast.Ident)
				if yok && wok && y.Name != "_" && w.Name != "_" {
					// both are read somewhere
					yo, wo := info.ObjectOf(y), info.ObjectOf(w)
					yUsed, wUsed := false, false
					walkAll(fn.Decl.Body, func(k ast.Node) bool {
						if id, ok := k.(*ast.Ident); ok && id != y && id != w {
							if info.ObjectOf(id) == yo {
								yUsed = true
							}
							if info.ObjectOf(id) == wo {
								wUsed = true
							}
						}
						return true
					})
					okUse = yUsed && wUsed
				}
			}
			c.Check(okUse, rule, fn.Key, "iso-year-and-week-both-used", c.P.Pos(cx.Pos()),
				"both results of ISOWeek() — the ISO year and the week number — are bound and read (the week number with the calendar year, or alone, misplaces the days of a week that spans New Year)")
			return true
		})
	}
	c.Floor(rule, "utils", "ISOWeek call sites", n, 2)
}

// R32.5 — the records handed to the triggers are the records that were written: in
// FlushCommandsToWAL the per-file write list produced for the transaction group is not replaced or
// filtered before it is walked for AppendRecord (the range variable holding it is never assigned
// in the loop). Coalescing "superseded" writes to one slot is invisible on disk but drops the
// superseded records from what the triggers see.
func ruleTriggerListUnfiltered(c *Ctx) {
	const rule = "R32.5"
	s := c.S(rule, fnFlushCommandsToWAL)
	if s == nil {
		return
	}
	info := s.Info
	n := 0
	s.walk(func(m ast.Node) bool {
		li := asLoop(info, m)
		if li == nil {
			return true
		}
		has := false
		walkAll(li.Body, func(k ast.Node) bool {
			if cx, ok := k.(*ast.CallExpr); ok && strings.HasSuffix(CalleeName(info, cx), "TriggerPluginDispatcher).AppendRecord") {
				has = true
			}
			return !has
		})
		rs, isRange := m.(*ast.RangeStmt)
		if !has || !isRange || rs.Value == nil {
			return true
		}
		vo := identObj(info, rs.Value)
		if vo == nil {
			return true
		}
		if _, isSlice := vo.Type().Underlying().(*types.Slice); !isSlice {
			return true // inner loop over the records themselves
		}
		n++
		var bad ast.Node
		walkAll(rs.Body, func(k ast.Node) bool {
			if as, ok := k.(*ast.AssignStmt); ok {
				for _, l := range as.Lhs {
					if identObj(info, l) == vo && bad == nil {
						bad = as
					}
				}
			}
			return true
		})
		pos := c.P.Pos(rs.Pos())
		if bad != nil {
			pos = c.P.Pos(bad.Pos())
		}
		c.Check(bad == nil, rule, s.Name, "write-list-not-replaced-before-dispatch", pos,
			"the list of a file's writes is walked for the triggers as serializeTG produced it (it is not reassigned — filtered, coalesced, reordered — inside the per-file loop)")
		return true
	})
	c.Floor(rule, s.Name, "per-file loops that feed the trigger dispatcher", n, 1)
	_ = fmt.Sprint
}
