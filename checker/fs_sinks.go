package main

// K3: file-system mutation sinks and gate dominance (DESIGN table T-FS).

import (
	"fmt"
	"go/ast"
	"sort"
	"strings"
)

type SinkSite struct {
	Fn     *Func
	Call   *ast.CallExpr
	Prim   string
	Pos    string
	Detail string
}

// server scope for the who-may-mutate rules.
var serverScope = []string{"executor", "catalog", "frontend", "planner", "sqlparser", "replication",
	"internal/di", "utils/io", "utils", "plugins", "contrib/ondiskagg", "contrib/candler", "uda", "cmd/start", "metrics", "models", "proto"}

func inServerScope(f *Func) bool {
	ps := f.PkgShort()
	if ps == "utils/test" || strings.HasPrefix(ps, "utils/test/") {
		return false
	}
	for _, s := range serverScope {
		if ps == s || strings.HasPrefix(ps, s+"/") {
			return true
		}
	}
	return false
}

const osWriteFlags = 0x1 | 0x2 | 0x40 | 0x200 | 0x400 // O_WRONLY|O_RDWR|O_CREATE|O_TRUNC|O_APPEND (linux)

var pathMutators = map[string]bool{
	"os.Create": true, "os.CreateTemp": true, "os.WriteFile": true, "io/ioutil.WriteFile": true,
	"os.Remove": true, "os.RemoveAll": true, "os.Rename": true, "os.Mkdir": true, "os.MkdirAll": true,
	"os.MkdirTemp": true, "os.Truncate": true, "os.Symlink": true, "os.Link": true, "os.Chmod": true,
	"os.Chown": true, "os.Chtimes": true, "(*os.File).Truncate": true, "syscall.Unlink": true,
	"syscall.Rename": true, "syscall.Mkdir": true, "syscall.Rmdir": true, "syscall.Truncate": true,
	"io/ioutil.TempFile": true, "io/ioutil.TempDir": true,
}

// fsSinkSites lists every call site in scope that creates, opens-for-writing, renames,
// truncates or removes a file-system object.
func (p *Prog) fsSinkSites(scope func(*Func) bool) []SinkSite {
	var out []SinkSite
	for _, fn := range p.NonTestFuncs() {
		if fn.Decl.Body == nil || !scope(fn) {
			continue
		}
		info := fn.Pkg.TypesInfo
		walkAll(fn.Decl.Body, func(n ast.Node) bool {
			call, ok := n.(*ast.CallExpr)
			if !ok {
				return true
			}
			name := CalleeName(info, call)
			switch {
			case name == "os.OpenFile" || name == "syscall.Open":
				if len(call.Args) >= 2 {
					if v, ok := constInt(info, call.Args[1]); ok {
						if v&osWriteFlags == 0 {
							return true // read-only open
						}
						out = append(out, SinkSite{fn, call, name, p.Pos(call.Pos()), fmt.Sprintf("flags=%#x", v)})
						return true
					}
				}
				out = append(out, SinkSite{fn, call, name, p.Pos(call.Pos()), "non-constant flags"})
			case pathMutators[name]:
				out = append(out, SinkSite{fn, call, name, p.Pos(call.Pos()), ""})
			}
			return true
		})
	}
	sort.Slice(out, func(i, j int) bool { return out[i].Pos < out[j].Pos })
	return out
}

// checkGateDominance reports every sink site whose enclosing function is neither a gate nor
// reachable only through gates. gates: function key -> reason.
func (c *Ctx) checkGateDominance(rule string, sites []SinkSite, gates map[string]string, what string) {
	gset := map[string]bool{}
	for k := range gates {
		gset[k] = true
	}
	dom := c.P.GateDominated(gset)
	g := c.P.CG()
	for _, st := range sites {
		construct := st.Prim
		if dom[st.Fn.Key] {
			why := "gate"
			if !gset[st.Fn.Key] {
				why = "reachable only through gates"
			} else {
				why = "gate: " + gates[st.Fn.Key]
			}
			c.Hold(rule, st.Fn.Key, construct, st.Pos, what+" site accepted ("+why+") "+st.Detail)
			continue
		}
		// find an ungated caller chain for the report
		var path []string
		cur := st.Fn.Key
		seen := map[string]bool{cur: true}
		path = append(path, cur+" @ "+st.Pos)
		for i := 0; i < 8; i++ {
			next := ""
			for _, e := range g.In[cur] {
				if c.P.IsTestFile(e.From.Decl.Pos()) || seen[e.From.Key] {
					continue
				}
				if !gset[e.From.Key] && !dom[e.From.Key] {
					next = e.From.Key
					path = append(path, "called from "+next+" @ "+e.Pos)
					break
				}
			}
			if next == "" {
				break
			}
			seen[next] = true
			cur = next
		}
		c.Violate(rule, st.Fn.Key, construct, st.Pos,
			what+" outside the owning gates: "+st.Prim+" in "+st.Fn.Key+" is not below any function of the frozen gate table "+st.Detail, path)
	}
}

// checkDominated: `callee` may run only below the given gates (every non-test incoming call
// edge comes from a gate or from a function that is itself reachable only through gates).
func (c *Ctx) checkDominated(rule, callee string, gates map[string]string, what string) {
	if c.F(rule, callee) == nil {
		return
	}
	gset := map[string]bool{}
	for k := range gates {
		gset[k] = true
		if c.P.Funcs[k] == nil {
			c.Undecided(rule, k, "gate", "unresolved gate function "+k)
		}
	}
	dom := c.P.GateDominated(gset)
	pos := c.P.Pos(c.P.Funcs[callee].Decl.Pos())
	if dom[callee] && !gset[callee] {
		c.Hold(rule, callee, "callers-within-gates", pos, what+": every caller is one of "+strings.Join(sortedKeys(gset), ", ")+" or reachable only through them")
		return
	}
	n := 0
	for _, e := range c.P.CG().In[callee] {
		if c.P.IsTestFile(e.From.Decl.Pos()) || e.From.Key == callee {
			continue
		}
		if gset[e.From.Key] || dom[e.From.Key] {
			continue
		}
		n++
		c.Violate(rule, callee, "caller:"+e.From.Key, e.Pos, what+": called ("+e.Kind+") from "+e.From.Key+", which is not below the allowed gates "+strings.Join(sortedKeys(gset), ", "), nil)
	}
	if n == 0 {
		c.Violate(rule, callee, "callers-within-gates", pos, what+": function has no caller below the allowed gates (dead or entry point)", nil)
	}
}
