package main

import (
	"fmt"
	"go/ast"
	"go/constant"
	"go/token"
	"go/types"
	"sort"
	"strings"
)

// ---- C08 -----------------------------------------------------------------------------------

// R8.1 — a slot index is never the empty-slot marker 0 (interval analysis of TimeToIndex).
func ruleSlotIndexPositive(c *Ctx) {
	const rule = "R8.1"
	s := c.S(rule, "utils/io.TimeToIndex")
	if s == nil {
		return
	}
	n := 0
	var assumptions []string
	// a returned value: the result expression of a return, or — for the single-exit form
	// `var index …; switch/if { index = e1 … index = e2 }; return index` — every expression
	// assigned to the returned local (plain assignments only)
	type retVal struct {
		at ast.Node
		e  ast.Expr
	}
	var vals []retVal
	s.walk(func(m ast.Node) bool {
		r, ok := m.(*ast.ReturnStmt)
		if !ok || len(r.Results) != 1 {
			return true
		}
		o := rawObj(s.Info, r.Results[0])
		_, isVar := o.(*types.Var)
		var defs []retVal
		plain := isVar && o.Parent() != nil && o.Parent() != s.Pkg.Types.Scope()
		if plain {
			s.walk(func(k ast.Node) bool {
				switch x := k.(type) {
				case *ast.AssignStmt:
					for i, l := range x.Lhs {
						if rawObj(s.Info, l) == o {
							if (x.Tok == token.ASSIGN || x.Tok == token.DEFINE) && len(x.Rhs) == len(x.Lhs) {
								defs = append(defs, retVal{x, x.Rhs[i]})
							} else {
								plain = false
							}
						}
					}
				case *ast.IncDecStmt:
					if rawObj(s.Info, x.X) == o {
						plain = false
					}
				case *ast.ValueSpec:
					for i, id := range x.Names {
						if s.Info.ObjectOf(id) == o && len(x.Values) == len(x.Names) {
							defs = append(defs, retVal{x, x.Values[i]})
						}
					}
				}
				return true
			})
		}
		if plain && len(defs) >= 2 {
			vals = append(vals, defs...)
		} else {
			vals = append(vals, retVal{r, r.Results[0]})
		}
		return true
	})
	branchDesc := func(at ast.Node) string {
		d := s.guardDesc(at)
		if !strings.HasPrefix(d, "case[") {
			return d
		}
		// `switch T { case V:` is the same branch as `if T == V`
		par := c.P.Parents(c.P.FileOf(s.Pkg, at.Pos()))
		for m := par[at]; m != nil; m = par[m] {
			if cc, ok := m.(*ast.CaseClause); ok {
				if blk, ok := par[cc].(*ast.BlockStmt); ok {
					if sw, ok := par[blk].(*ast.SwitchStmt); ok && sw.Tag != nil && len(cc.List) == 1 {
						return "if[" + canonExpr(s.Info, sw.Tag) + "==" + canonExpr(s.Info, cc.List[0]) + "]"
					}
				}
				break
			}
		}
		return d
	}
	for _, rv := range vals {
		r := rv.at
		n++
		v := s.evalInterval(rv.e, 0, &assumptions)
		construct := "slot-index-min:" + branchDesc(r)
		switch {
		case !v.ok:
			c.Undecided(rule, s.Name, construct, "cannot bound the returned index (expression form not covered by the interval summaries): "+exprString(rv.e))
		case v.lo >= 1:
			c.Hold(rule, s.Name, construct, c.P.Pos(r.Pos()), fmt.Sprintf("returned index ∈ [%g, %g] ≥ 1", v.lo, v.hi))
		default:
			c.Violate(rule, s.Name, construct, c.P.Pos(r.Pos()),
				fmt.Sprintf("returned slot index ∈ [%g, %g] can be 0, the empty-slot marker: readers treat the row as a hole and IndexToOffset(0) lies inside the file header", v.lo, v.hi), nil)
		}
	}

	c.Floor(rule, s.Name, "return paths", n, 2)
	for _, a := range uniq(assumptions) {
		c.Note("R8.1 assumption: %s", a)
	}
	// IndexToOffset(index) = (index-1)*recordSize + Headersize ⇒ index ≥ 1 ⇔ offset ≥ Headersize
	if o := c.S(rule, "utils/io.IndexToOffset"); o != nil {
		ok := false
		o.walk(func(m ast.Node) bool {
			if r, isR := m.(*ast.ReturnStmt); isR && len(r.Results) == 1 {
				if b, isB := unparen(r.Results[0]).(*ast.BinaryExpr); isB && b.Op == token.ADD {
					if objKey(o.Info, b.Y) == "utils/io.Headersize" || objKey(o.Info, b.X) == "utils/io.Headersize" {
						ok = true
					}
				}
			}
			return true
		})

		c.Check(ok, rule, o.Name, "offset-is-header-plus-slot", c.P.Pos(o.Body.Pos()), "IndexToOffset adds Headersize to the (index-1)-scaled slot, so index ≥ 1 keeps data out of the header")
	}
}

func uniq(in []string) []string {
	seen := map[string]bool{}
	var out []string
	for _, s := range in {
		if !seen[s] {
			seen[s] = true
			out = append(out, s)
		}
	}
	return out
}

// R8.2 — loop-carried "previous row" variables that are compared together are updated together.
func rulePairedPrevState(c *Ctx) {
	const rule = "R8.2"
	s := c.S(rule, fnWriteRecords)
	if s == nil {
		return
	}
	file := c.P.FileOf(s.Pkg, s.Body.Pos())
	par := c.P.Parents(file)
	// candidates: function-level variables compared (==, !=) with another identifier inside a loop
	// and assigned inside that loop
	var loop *ast.ForStmt
	s.walk(func(m ast.Node) bool {
		if fs, ok := m.(*ast.ForStmt); ok && loop == nil {
			loop = fs
		}
		return true
	})

	if loop == nil {
		c.Undecided(rule, s.Name, "row-loop", "no for loop found in WriteRecords")
		return
	}
	declaredOutside := func(o types.Object) bool { return o != nil && (o.Pos() < loop.Pos() || o.Pos() > loop.End()) }
	group := map[types.Object]bool{}
	walkAll(loop.Body, func(m ast.Node) bool {
		// conditions of if statements and of the cases of a tagless switch (the same decision
		// written as `switch { case a == b: … }`)
		var conds []ast.Expr
		switch x := m.(type) {
		case *ast.IfStmt:
			conds = append(conds, x.Cond)
		case *ast.SwitchStmt:
			if x.Tag == nil {
				for _, cc := range x.Body.List {
					conds = append(conds, cc.(*ast.CaseClause).List...)
				}
			}
		}
		for _, cond := range conds {
			walkAll(cond, func(k ast.Node) bool {
				if b, ok := isCompareNode(k, token.EQL, token.NEQ); ok {

					ox, _ := identObj(s.Info, b.X).(*types.Var)
					oy, _ := identObj(s.Info, b.Y).(*types.Var)
					if ox == nil || oy == nil {
						return true
					}
					if declaredOutside(oy) && !declaredOutside(ox) && !isParam(s, oy) {
						group[oy] = true
					}
					if declaredOutside(ox) && !declaredOutside(oy) && !isParam(s, ox) {
						group[ox] = true
					}
				}
				return true
			})
		}
		return true
	})

	// keep only those assigned inside the loop
	assignedIn := map[types.Object][]*ast.AssignStmt{}
	walkAll(loop.Body, func(m ast.Node) bool {
		if as, ok := m.(*ast.AssignStmt); ok {
			for _, l := range as.Lhs {
				if o := identObj(s.Info, l); group[o] {
					assignedIn[o] = append(assignedIn[o], as)
				}
			}
		}
		return true
	})

	var members []types.Object
	for o := range group {
		if len(assignedIn[o]) > 0 || true {
			members = append(members, o)
		}
	}
	sort.Slice(members, func(i, j int) bool { return members[i].Name() < members[j].Name() })
	c.Floor(rule, s.Name, "previous-row state variables", len(members), 2)
	var names []string
	for _, o := range members {
		names = append(names, o.Name())
	}
	// every block that assigns one member assigns all members
	blocks := map[ast.Node]map[types.Object]bool{}
	firstStmt := map[ast.Node]ast.Node{}
	for o, list := range assignedIn {
		for _, as := range list {
			var blk ast.Node
			switch b := par[as].(type) {
			case *ast.BlockStmt:
				blk = b
				firstStmt[blk] = b.List[0]
			case *ast.CaseClause:
				blk = b
				firstStmt[blk] = b.Body[0]
			}
			if blk != nil {
				if blocks[blk] == nil {
					blocks[blk] = map[types.Object]bool{}
				}
				blocks[blk][o] = true
			}
		}
	}
	var blks []ast.Node
	for b := range blocks {
		blks = append(blks, b)
	}
	sort.Slice(blks, func(i, j int) bool { return blks[i].Pos() < blks[j].Pos() })
	c.Floor(rule, s.Name, "blocks updating previous-row state", len(blks), 2)
	for i, blk := range blks {
		var missing []string
		for _, o := range members {
			if !blocks[blk][o] {
				missing = append(missing, o.Name())
			}
		}
		construct := fmt.Sprintf("update-block#%d:%s", i+1, s.guardDesc(firstStmt[blk]))
		if len(missing) == 0 {
			c.Hold(rule, s.Name, construct, c.P.Pos(blk.Pos()), "block updates all of "+strings.Join(names, ", ")+" together")
		} else {
			c.Violate(rule, s.Name, construct, c.P.Pos(blk.Pos()),
				"the variables "+strings.Join(names, ", ")+" are compared together to decide whether a row belongs to the previous write command, but this block updates only part of them (missing: "+strings.Join(missing, ", ")+
					"): for unsorted input spanning years a later row is merged into the wrong year's command", nil)
		}
	}
}

func isParam(s *Scope, o types.Object) bool {
	if s.Type == nil || s.Type.Params == nil {
		return false
	}
	for _, f := range s.Type.Params.List {
		for _, nm := range f.Names {
			if objOf(s.Info, nm) == o {
				return true
			}
		}
	}
	return false
}

// R8.3 — per-file write order is request order (slices, never maps of writes).
func ruleWriteOrderPreserved(c *Ctx) {
	const rule = "R8.3"
	for _, key := range []string{"executor.writeFixedBuffer", "executor.writeVariableLengthBuffer"} {
		s := c.S(rule, key)
		if s == nil {
			continue
		}
		file := c.P.FileOf(s.Pkg, s.Body.Pos())
		par := c.P.Parents(file)
		sites := s.sites(callPred(s, fnWBTF, fnWBTFI))
		c.Floor(rule, s.Name, "primary write sites", len(sites), 1)
		for _, n := range sites {
			ok, why := false, "write is not inside a range loop over the writes slice parameter"
			for m := par[n]; m != nil; m = par[m] {
				if rs, isR := m.(*ast.RangeStmt); isR {
					o := identObj(s.Info, rs.X)
					_, isSlice := s.Info.TypeOf(rs.X).Underlying().(*types.Slice)
					if isSlice && o != nil && isParam(s, o) {
						ok, why = true, "writes are applied while ranging over the slice parameter "+o.Name()+" in order"
					} else if !isSlice {
						why = "writes are applied while ranging over a non-slice (map order is random)"
					}
					break
				}
			}
			c.Check(ok, rule, s.Name, "apply-in-slice-order", c.P.Pos(n.Pos()), why)
		}
		// the slice is not reordered in the function
		reorder := s.sites(callPred(s, "sort.Sort", "sort.Slice", "sort.Stable", "sort.SliceStable", "slices.Sort", "slices.SortFunc", "slices.Reverse"))
		c.Check(len(reorder) == 0, rule, s.Name, "no-reordering", c.P.Pos(s.Body.Pos()), "the per-file write list is not reordered before it is applied")
	}
	if s := c.S(rule, fnSerializeTG); s != nil {
		// result type: map[string][]T
		sig := s.Fn.Obj.Type().(*types.Signature)
		ok := false
		if sig.Results().Len() == 2 {
			if m, isMap := sig.Results().At(1).Type().Underlying().(*types.Map); isMap {
				_, ok = m.Elem().Underlying().(*types.Slice)
			}
		}
		c.Check(ok, rule, s.Name, "per-file-lists-are-slices", c.P.Pos(s.Fn.Decl.Pos()), "serializeTG returns map[file][]buffer: order inside one file is kept in a slice")
		// the append happens in a loop that is not a map range
		file := c.P.FileOf(s.Pkg, s.Body.Pos())
		par := c.P.Parents(file)
		n := 0
		s.walk(func(m ast.Node) bool {
			as, isAs := m.(*ast.AssignStmt)
			if !isAs || len(as.Lhs) != 1 || len(as.Rhs) != 1 {
				return true
			}
			ix, isIx := unparen(as.Lhs[0]).(*ast.IndexExpr)
			call, isCall := unparen(as.Rhs[0]).(*ast.CallExpr)
			if !isIx || !isCall || CalleeName(s.Info, call) != "builtin.append" {
				return true
			}
			if _, isMap := s.Info.TypeOf(ix.X).Underlying().(*types.Map); !isMap {
				return true
			}
			n++
			good := true
			for p := par[as]; p != nil; p = par[p] {
				if rs, isR := p.(*ast.RangeStmt); isR {
					if _, isMapR := s.Info.TypeOf(rs.X).Underlying().(*types.Map); isMapR {
						good = false
					}
				}
			}
			c.Check(good, rule, s.Name, "append-in-command-order", c.P.Pos(as.Pos()), "per-file lists are appended while iterating the command slice (not a map)")
			return true
		})

		c.Floor(rule, s.Name, "appends to the per-file lists", n, 1)
	}
	if s := c.S(rule, fnFlushToWAL); s != nil {
		// commands are drained from the channel into a slice by ascending index
		ok := false
		s.walk(func(m ast.Node) bool {
			if as, isAs := m.(*ast.AssignStmt); isAs && len(as.Lhs) == 1 && len(as.Rhs) == 1 {
				if _, isIx := unparen(as.Lhs[0]).(*ast.IndexExpr); isIx {
					if u, isU := unparen(as.Rhs[0]).(*ast.UnaryExpr); isU && u.Op == token.ARROW && fieldKey(s.Info, u.X) == "executor.TransactionPipe.writeChannel" {
						ok = true
					}
				}
			}
			return true
		})

		c.Check(ok, rule, s.Name, "drain-in-queue-order", c.P.Pos(s.Body.Pos()), "queued commands are received from the FIFO channel into consecutive slice slots")
	}
}

// R8.4 — offset and index of a write command come from the one slot mapping.
func ruleSlotMappingUsed(c *Ctx) {
	const rule = "R8.4"
	s := c.S(rule, fnWriteRecords)
	if s == nil {
		return
	}
	c.F(rule, "utils/io.TimeToIndex")
	c.F(rule, "utils/io.IndexToOffset")
	defs := func(o types.Object) []ast.Expr {
		var out []ast.Expr
		s.walk(func(m ast.Node) bool {
			if as, ok := m.(*ast.AssignStmt); ok && len(as.Lhs) == len(as.Rhs) {
				for i, l := range as.Lhs {
					if identObj(s.Info, l) == o {
						out = append(out, as.Rhs[i])
					}
				}
			}
			return true
		})

		return out
	}
	sites := s.sites(callPred(s, "(*executor.WALFileType).WriteCommand"))
	c.Floor(rule, s.Name, "WriteCommand constructions", len(sites), 2)
	for i, n := range sites {
		call := n.(*ast.CallExpr)
		if len(call.Args) < 5 {
			c.Undecided(rule, s.Name, "WriteCommand-arity", "unexpected WriteCommand signature")
			continue
		}
		offO, idxO := identObj(s.Info, call.Args[3]), identObj(s.Info, call.Args[4])
		okIdx, okOff := idxO != nil, offO != nil
		var timeArg types.Object
		for _, d := range defs(idxO) {
			cx, isC := unparen(d).(*ast.CallExpr)
			if !isC || CalleeName(s.Info, cx) != "utils/io.TimeToIndex" {
				okIdx = false
			} else {
				timeArg = identObj(s.Info, cx.Args[0])
			}
		}
		if len(defs(idxO)) == 0 {
			okIdx = false
		}
		for _, d := range defs(offO) {
			cx, isC := unparen(d).(*ast.CallExpr)
			if !isC || CalleeName(s.Info, cx) != "utils/io.IndexToOffset" || identObj(s.Info, cx.Args[0]) != idxO {
				okOff = false
			}
		}
		if len(defs(offO)) == 0 {
			okOff = false
		}
		c.Check(okIdx, rule, s.Name, fmt.Sprintf("command#%d-index-from-TimeToIndex", i+1), c.P.Pos(call.Pos()), "the command's index is io.TimeToIndex of the row time")
		c.Check(okOff, rule, s.Name, fmt.Sprintf("command#%d-offset-from-that-index", i+1), c.P.Pos(call.Pos()), "the command's offset is io.IndexToOffset of the same index value")
		_ = timeArg
	}
}

// ---- C09 -----------------------------------------------------------------------------------

// R9.1 — a cursor-advancing copy into an estimated buffer is guarded on every path.
func ruleBoundedAssembly(c *Ctx) {
	const rule = "R9.1"
	s := c.S(rule, "(*executor.Reader).readSecondStage")
	if s == nil {
		return
	}
	copies := 0
	appends := 0
	for _, n := range s.sites(func(sub, top ast.Node) bool { return isCall(s.Info, sub, "builtin.copy") }) {
		call := n.(*ast.CallExpr)
		se, ok := unparen(call.Args[0]).(*ast.SliceExpr)
		if !ok || se.Low == nil || se.High != nil {
			continue // not copy(dst[cursor:], src)
		}
		cur := identObj(s.Info, se.Low)
		dst := identObj(s.Info, se.X)
		src := call.Args[1]
		if cur == nil || dst == nil {
			continue
		}
		top := s.topOf(call)
		if _, discarded := top.(*ast.ExprStmt); !discarded {
			continue // result used: the caller can see a short copy
		}
		copies++
		// guard fact: ¬(cur + len(src) > B)  or  cur + len(src) <= B, B anything mentioning len/cap/size var
		guard := func(f []Fact) bool {
			for _, x := range f {
				b, ok := unparen(x.Expr).(*ast.BinaryExpr)
				if !ok {
					continue
				}
				lhs, op := b.X, b.Op
				if !(mentions(s.Info, lhs, cur)) {
					continue
				}
				srcO := identObj(s.Info, src)
				if srcO != nil && !mentions(s.Info, lhs, srcO) {
					continue
				}
				if (op == token.GTR || op == token.GEQ) && !x.Val {
					return true
				}
				if (op == token.LEQ || op == token.LSS) && x.Val {
					return true
				}
			}
			return false
		}
		r := s.Run(Query{Target: func(sub, _ ast.Node) bool { return sub == ast.Node(call) }, Exempt: guard})
		construct := "unchecked-cursor-copy:" + dst.Name()
		if len(r.Hits) == 0 {
			c.Hold(rule, s.Name, construct, c.P.Pos(call.Pos()), "the copy is reachable only through an edge establishing cursor+len(src) ≤ capacity")
		} else {
			c.Violate(rule, s.Name, construct, c.P.Pos(call.Pos()),
				"copy into a buffer sized from an ESTIMATE is reachable on a path where cursor+len(src) was found too large and the buffer was grown only once (no loop): the copy truncates silently (result discarded), the cursor still advances by len(src) and the final re-slice panics when a bucket decompresses to more than the estimate", r.Hits[0].Path)
		}
	}
	s.walk(func(m ast.Node) bool {
		if call, ok := m.(*ast.CallExpr); ok && CalleeName(s.Info, call) == "builtin.append" {
			appends++
		}
		return true
	})

	c.Floor(rule, s.Name, "result assembly sites (cursor copies or appends)", copies+appends, 1)
	if copies == 0 {
		c.Hold(rule, s.Name, "assembly-by-append", c.P.Pos(s.Body.Pos()), fmt.Sprintf("result is assembled with append (%d sites): growth is bounded by construction", appends))
	}
}

// R9.2 — merged variable-length data is sorted by interval ticks before it is written.
func ruleSortBeforeWrite(c *Ctx) {
	const rule = "R9.2"
	s := c.S(rule, fnWBTFI)
	if s == nil {
		return
	}
	var fp types.Object
	if s.Type.Params != nil && len(s.Type.Params.List) > 0 && len(s.Type.Params.List[0].Names) > 0 {
		fp = objOf(s.Info, s.Type.Params.List[0].Names[0])
	}
	var sortedObj types.Object
	sorted := func(sub, top ast.Node) bool {
		call, ok := sub.(*ast.CallExpr)
		if !ok {
			return false
		}
		switch CalleeName(s.Info, call) {
		case "sort.Stable", "sort.Sort":
			if len(call.Args) == 1 {
				if in, ok := unparen(call.Args[0]).(*ast.CallExpr); ok && CalleeName(s.Info, in) == "executor.NewByIntervalTicks" {
					sortedObj = identObj(s.Info, in.Args[0])
					return true
				}
			}
		}
		return false
	}
	write := func(sub, top ast.Node) bool { return methodOn(s.Info, sub, fp, "Write", "WriteAt") }
	r := s.Run(Query{Target: write, Barrier: sorted})
	c.Floor(rule, s.Name, "sort sites", r.BarrierSites, 1)
	c.reportHits(rule, s, "sort-before-write", r, "every write to the data file is preceded by a sort of the merged records by interval ticks", "merged records can be written unsorted: records of one interval come back out of time order")
	// what is sorted is what is written (directly or after compression)
	ok := false
	s.walk(func(m ast.Node) bool {
		call, isC := m.(*ast.CallExpr)
		if !isC || sortedObj == nil {
			return true
		}
		if methodOn(s.Info, call, fp, "Write") && len(call.Args) == 1 && identObj(s.Info, call.Args[0]) == sortedObj {
			ok = true
		}
		if strings.HasSuffix(CalleeName(s.Info, call), "snappy.Encode") && len(call.Args) == 2 && identObj(s.Info, call.Args[1]) == sortedObj {
			ok = true
		}
		return true
	})

	c.Check(ok, rule, s.Name, "sorted-buffer-is-written", c.P.Pos(s.Body.Pos()), "the buffer handed to the sort is the one written (directly or via snappy.Encode)")
	// stable sort: equal ticks keep arrival order
	stable := len(s.sites(callPred(s, "sort.Stable"))) > 0
	c.Check(stable, rule, s.Name, "stable-sort", c.P.Pos(s.Body.Pos()), "the sort is stable (records with equal ticks keep write order)")
}

// R9.3 / R9.4 — every reader of the ticks trailer agrees with its writer (unsigned 32 bit).
func ruleTicksCodecAgreement(c *Ctx) {
	const rule = "R9.3"
	// encoder result type
	if f := c.F(rule, "utils/io.GetIntervalTicks32Bit"); f != nil {
		res := f.Obj.Type().(*types.Signature).Results()
		ok := res.Len() == 1 && types.TypeString(res.At(0).Type(), nil) == "uint32"
		c.Check(ok, rule, f.Key, "encoder-result-uint32", c.P.Pos(f.Decl.Pos()), "the ticks encoder returns uint32")
	}
	if s := c.S(rule, "executor.appendIntervalTicks"); s != nil {
		ok := false
		for _, n := range s.sites(callPred(s, "utils/io.Serialize")) {
			call := n.(*ast.CallExpr)
			if len(call.Args) == 2 && types.TypeString(s.Info.TypeOf(call.Args[1]), nil) == "uint32" {
				ok = true
			}
		}
		c.Check(ok, rule, s.Name, "trailer-serialized-as-uint32", c.P.Pos(s.Body.Pos()), "the ticks trailer is serialized from a uint32 operand (4 bytes)")
	}
	// decoders: Less compares unsigned 32-bit values decoded from the trailing 4 bytes
	if s := c.S(rule, "(*executor.ByIntervalTicks).Less"); s != nil {
		n := 0
		s.walk(func(m ast.Node) bool {
			if r, ok := m.(*ast.ReturnStmt); ok && len(r.Results) == 1 {
				if b, ok := unparen(r.Results[0]).(*ast.BinaryExpr); ok {
					n++
					tx, ty := types.TypeString(s.Info.TypeOf(b.X), nil), types.TypeString(s.Info.TypeOf(b.Y), nil)
					c.Check(tx == "uint32" && ty == "uint32" && b.Op == token.LSS, rule, s.Name, "unsigned-compare", c.P.Pos(b.Pos()),
						"Less compares "+tx+" "+b.Op.String()+" "+ty+" (must be uint32 < uint32: a signed compare orders the second half of every interval before the first)")
				}
			}
			return true
		})

		c.Floor(rule, s.Name, "comparisons", n, 1)
		dec := 0
		s.walk(func(m ast.Node) bool {
			if call, ok := m.(*ast.CallExpr); ok && decodePrims[CalleeName(s.Info, call)] {
				dec++
				c.Check(CalleeName(s.Info, call) == "utils/io.ToUInt32", rule, s.Name, fmt.Sprintf("decode-primitive#%d", dec), c.P.Pos(call.Pos()), "ticks decoded with the unsigned 32-bit primitive")
			}
			return true
		})

		c.Floor(rule, s.Name, "decode sites", dec, 2)
	}
	for _, key := range []string{"executor.RewriteBuffer", "replication.serializeVariableRecords"} {
		s := c.S(rule, key)
		if s == nil {
			continue
		}
		n := 0
		for _, site := range s.sites(callPred(s, "executor.GetTimeFromTicks")) {
			call := site.(*ast.CallExpr)
			n++
			t := types.TypeString(s.Info.TypeOf(call.Args[2]), nil)
			src := call.Args[2]
			if o := identObj(s.Info, src); o != nil {
				s.walk(func(m ast.Node) bool {
					if as, ok := m.(*ast.AssignStmt); ok && len(as.Lhs) == len(as.Rhs) {
						for i, l := range as.Lhs {
							if identObj(s.Info, l) == o {
								src = as.Rhs[i]
							}
						}
					}
					return true
				})

			}
			okPrim := false
			if cx, isC := unparen(src).(*ast.CallExpr); isC {
				nm := CalleeName(s.Info, cx)
				okPrim = nm == "utils/io.ToUInt32" || nm == "(encoding/binary.littleEndian).Uint32"
			}
			c.Check(t == "uint32" && okPrim, rule, s.Name, "ticks-decoded-unsigned", c.P.Pos(call.Pos()), "the ticks handed to GetTimeFromTicks are a uint32 decoded with the unsigned primitive")
		}
		c.Floor(rule, s.Name, "GetTimeFromTicks call sites", n, 1)
	}
	// R9.4 framing constants
	const r4 = "R9.4"
	want := map[string]int64{"executor.epochLenBytes": 8, "executor.nanosecLenBytes": 4, "executor.intervalTicksLenBytes": 4, "utils/io.epochLenBytes": 8}
	var keys []string
	for k := range want {
		keys = append(keys, k)
	}
	sort.Strings(keys)
	for _, k := range keys {
		i := strings.LastIndex(k, ".")
		pkg := c.P.ByPath[k[:i]]
		if pkg == nil {
			c.Undecided(r4, k, "anchor", "package not found")
			continue
		}
		o, ok := pkg.Types.Scope().Lookup(k[i+1:]).(*types.Const)
		if !ok {
			c.Undecided(r4, k, "anchor", "constant not found")
			continue
		}
		v, _ := constant.Int64Val(constant.ToInt(o.Val()))
		c.Check(v == want[k], r4, k, "value", c.P.Pos(o.Pos()), fmt.Sprintf("%s = %d (record framing: epoch 8 bytes, ticks/nanoseconds trailer 4 bytes)", k, v))
	}
	if s := c.S(r4, "(*utils/io.TimeBucketInfo).GetVariableRecordLength"); s != nil {
		ok := false
		s.walk(func(m ast.Node) bool {
			if as, isAs := m.(*ast.AssignStmt); isAs && len(as.Rhs) == 1 {
				if b, isB := unparen(as.Rhs[0]).(*ast.BinaryExpr); isB && b.Op == token.ADD {
					if v, isC := constInt(s.Info, b.Y); isC && v == 4 {
						ok = true
					}
				}
			}
			return true
		})

		c.Check(ok, r4, s.Name, "variable-record-length-adds-4", c.P.Pos(s.Body.Pos()), "variable record length = field bytes + 4-byte ticks trailer")
	}
}

// ---- C10 -----------------------------------------------------------------------------------

func ruleTicksScaleAgreement(c *Ctx) {
	const rule = "R10.1"
	var enc, dec constant.Value
	var encPos, decPos token.Pos
	if pkg := c.P.ByPath["utils/io"]; pkg != nil {
		if o, ok := pkg.Types.Scope().Lookup("ticksPerIntervalDivSecsPerDay").(*types.Const); ok {
			enc, encPos = o.Val(), o.Pos()
		}
	}
	if f := c.F(rule, "executor.GetTimeFromTicks"); f != nil {
		for id, o := range f.Pkg.TypesInfo.Defs {
			if k, ok := o.(*types.Const); ok && id.Pos() >= f.Decl.Pos() && id.End() <= f.Decl.End() && k.Name() == "ticksPerIntervalDivSecsPerDay" {
				dec, decPos = k.Val(), k.Pos()
			}
		}
		if dec == nil {
			// may have been replaced by a reference to the shared constant
			uses := false
			walkAll(f.Decl.Body, func(m ast.Node) bool {
				if objKeyNode(f.Pkg.TypesInfo, m) == "utils/io.ticksPerIntervalDivSecsPerDay" || objKeyNode(f.Pkg.TypesInfo, m) == "utils/io.TicksPerIntervalDivSecsPerDay" {
					uses = true
				}
				return true
			})

			if uses {
				dec, decPos = enc, f.Decl.Pos()
			}
		}
	}
	if enc == nil || dec == nil {
		c.Undecided(rule, "ticksPerIntervalDivSecsPerDay", "anchor", "scale constant not found on the encoder or decoder side")
	} else {
		ef, _ := constant.Float64Val(enc)
		df, _ := constant.Float64Val(dec)
		c.Check(ef == df, rule, "executor.GetTimeFromTicks", "scale-constant-equal", c.P.Pos(decPos),
			fmt.Sprintf("encoder scale %v (%s) == decoder scale %v", ef, c.P.Pos(encPos), df))
	}
	// R10.2: encoder truncates (floor), decoder parameter is uint32
	const r2 = "R10.2"
	if s := c.S(r2, "utils/io.GetIntervalTicks32Bit"); s != nil {
		rounding := s.sites(callPred(s, "math.Round", "math.Ceil", "math.RoundToEven"))
		c.Check(len(rounding) == 0, r2, s.Name, "truncating-conversion", c.P.Pos(s.Body.Pos()), "the encoder converts with the truncating uint32(float64) conversion, so the decoded time is never later than the original")
		ok := false
		s.walk(func(m ast.Node) bool {
			if r, isR := m.(*ast.ReturnStmt); isR && len(r.Results) == 1 {
				if call, isC := unparen(r.Results[0]).(*ast.CallExpr); isC {
					if tv, has := s.Info.Types[call.Fun]; has && tv.IsType() && types.TypeString(tv.Type, nil) == "uint32" {
						ok = true
					}
				}
			}
			return true
		})

		c.Check(ok, r2, s.Name, "returns-uint32-conversion", c.P.Pos(s.Body.Pos()), "the encoder's result is a direct uint32 conversion")
	}
	if f := c.F(r2, "executor.GetTimeFromTicks"); f != nil {
		p := f.Obj.Type().(*types.Signature).Params()
		ok := p.Len() == 3 && types.TypeString(p.At(2).Type(), nil) == "uint32"
		c.Check(ok, r2, f.Key, "decoder-param-uint32", c.P.Pos(f.Decl.Pos()), "the decoder takes the ticks as uint32")
	}
	// R10.3: single decoder, both results consumed
	const r3 = "R10.3"
	n := 0
	for _, e := range c.P.CG().In["executor.GetTimeFromTicks"] {
		if c.P.IsTestFile(e.From.Decl.Pos()) || e.Site == nil {
			continue
		}
		n++
		s := c.P.ScopeOf(e.From)
		top := s.topOf(e.Site)
		ok := false
		if as, isAs := top.(*ast.AssignStmt); isAs && len(as.Lhs) == 2 {
			ok = true
			for _, l := range as.Lhs {
				if id, isId := l.(*ast.Ident); isId && id.Name == "_" {
					ok = false
				}
			}
		}
		c.Check(ok, r3, e.From.Key, "both-results-used", e.Pos, "seconds AND nanoseconds returned by GetTimeFromTicks are both consumed (dropping the seconds loses the position inside intervals longer than 1 s)")
	}
	c.Floor(r3, "module", "GetTimeFromTicks call sites", n, 2)
}

func objKeyNode(info *types.Info, n ast.Node) string {
	if e, ok := n.(ast.Expr); ok {
		return objKey(info, e)
	}
	return ""
}

// ---- C11 / C12 -----------------------------------------------------------------------------

// R11.1 — search-and-slice loops: when the loop is exhausted without a hit the result must
// not silently keep the rows it held before the loop.
func ruleSearchLoopNotFound(c *Ctx) {
	const rule = "R11.1"
	s := c.S(rule, "executor.trimResultsToRange")
	if s == nil {
		return
	}
	file := c.P.FileOf(s.Pkg, s.Body.Pos())
	par := c.P.Parents(file)
	loops := 0
	s.walk(func(m ast.Node) bool {
		fs, ok := m.(*ast.ForStmt)
		if !ok {
			return true
		}

		walkAll(fs.Body, func(k ast.Node) bool {
			is, ok := k.(*ast.IfStmt)
			if !ok || len(is.Body.List) < 2 {
				return true
			}
			br, isBr := is.Body.List[len(is.Body.List)-1].(*ast.BranchStmt)
			if !isBr || br.Tok != token.BREAK {
				return true
			}
			assigned := map[types.Object]bool{}
			for _, st := range is.Body.List[:len(is.Body.List)-1] {
				if as, isAs := st.(*ast.AssignStmt); isAs {
					for _, l := range as.Lhs {
						if o := identObj(s.Info, l); o != nil {
							assigned[o] = true
						}
					}
				}
			}
			loops++
			if len(assigned) != 1 {
				c.Hold(rule, s.Name, fmt.Sprintf("search-loop#%d", loops), c.P.Pos(fs.Pos()), "the hit branch records more than the result slice (a found-flag/index): the not-found case is distinguishable")
				return true
			}
			var x types.Object
			for o := range assigned {
				x = o
			}

			nonEmptyBefore := isParam(s, x)
			s.walk(func(q ast.Node) bool {
				as, isAs := q.(*ast.AssignStmt)
				if !isAs || as.Pos() >= fs.Pos() {
					return true
				}
				for i, l := range as.Lhs {
					if identObj(s.Info, l) == x && i < len(as.Rhs) && !isNilIdent(s.Info, as.Rhs[i]) {
						nonEmptyBefore = true
					}
				}
				return true
			})

			handled := false
			if blk, isBlk := par[fs].(*ast.BlockStmt); isBlk {
				after := false
				for _, st := range blk.List {
					if st == ast.Stmt(fs) {
						after = true
						continue
					}
					if !after {
						continue
					}
					if as, isAs := st.(*ast.AssignStmt); isAs {
						for _, l := range as.Lhs {
							if identObj(s.Info, l) == x {
								handled = true
							}
						}
					}
					if _, isIf := st.(*ast.IfStmt); isIf {
						handled = true
					}
					break
				}
			}
			construct := fmt.Sprintf("search-loop#%d:%s", loops, x.Name())
			if !nonEmptyBefore || handled {
				c.Hold(rule, s.Name, construct, c.P.Pos(fs.Pos()), "exhausting the loop leaves an empty result (nothing held before the loop) or the not-found case is handled right after it")
			} else {
				c.Violate(rule, s.Name, construct, c.P.Pos(fs.Pos()),
					"search-and-slice loop: `"+x.Name()+"` already holds rows when the loop starts, is re-sliced only inside the hit branch, and nothing after the loop handles the case where no row satisfies the end condition — all rows after the range end are returned", nil)
			}
			return true
		})

		return true
	})

	c.Floor(rule, s.Name, "search-and-slice loops", loops, 1)
}

// R11.2 / R12.1 — variable-length results are trimmed to the range, then to the limit.
func ruleTrimOrder(c *Ctx) {
	const rule = "R11.2"
	s := c.S(rule, "(*executor.Reader).Read")
	if s == nil {
		return
	}
	trimR := callPred(s, "executor.trimResultsToRange")
	trimL := callPred(s, "executor.trimResultsToLimit")
	notVar := func(f []Fact) bool {
		for _, x := range f {
			if b, ok := isCompare(x.Expr, token.EQL); ok && !x.Val && (objKey(s.Info, b.Y) == "utils/io.VARIABLE" || objKey(s.Info, b.X) == "utils/io.VARIABLE") {
				return true
			}
			if b, ok := isCompare(x.Expr, token.NEQ); ok && x.Val && (objKey(s.Info, b.Y) == "utils/io.VARIABLE" || objKey(s.Info, b.X) == "utils/io.VARIABLE") {
				return true
			}
		}
		return false
	}
	r := s.Run(Query{Target: callPred(s, "utils/io.NewRowSeries"), Barrier: trimR, Exempt: notVar})
	c.Floor(rule, s.Name, "NewRowSeries sites", r.TargetSites, 1)
	c.Floor(rule, s.Name, "trimResultsToRange sites", r.BarrierSites, 1)
	c.reportHits(rule, s, "variable-results-trimmed-to-range", r, "on the VARIABLE edge the row series is built only from a buffer that passed trimResultsToRange", "variable-length results can be returned without trimming to the requested range")
	const r12 = "R12.1"
	r2 := s.Run(Query{Target: trimL, Barrier: trimR})
	c.Floor(r12, s.Name, "trimResultsToLimit sites", r2.TargetSites, 1)
	c.reportHits(r12, s, "limit-after-range", r2, "the row limit is applied to the range-trimmed buffer, never before it", "LIMIT is applied before the range trim: rows outside the range consume the limit")
	// the limit call consumes the range call's result
	ok := false
	for _, n := range s.sites(trimL) {
		call := n.(*ast.CallExpr)
		if len(call.Args) == 3 {
			o := identObj(s.Info, call.Args[2])
			s.walk(func(m ast.Node) bool {
				if as, isAs := m.(*ast.AssignStmt); isAs && len(as.Lhs) == 1 && len(as.Rhs) == 1 && identObj(s.Info, as.Lhs[0]) == o && o != nil {
					if cx, isC := unparen(as.Rhs[0]).(*ast.CallExpr); isC && CalleeName(s.Info, cx) == "executor.trimResultsToRange" {
						ok = true
					}
				}
				return true
			})

		}
	}
	c.Check(ok, r12, s.Name, "limit-consumes-range-result", c.P.Pos(s.Body.Pos()), "trimResultsToLimit's input is the variable assigned from trimResultsToRange")
	// R12.2: an unlimited reverse scan is refused
	const r122 = "R12.2"
	if rd := c.S(r122, "(*executor.Reader).read"); rd != nil {
		back := callPred(rd, "(*executor.ioExec).readBackward")
		unlimited := func(f []Fact) bool {
			for _, x := range f {
				if b, ok := isCompare(x.Expr, token.NEQ); ok && x.Val && (objKey(rd.Info, b.Y) == "math.MaxInt32" || objKey(rd.Info, b.X) == "math.MaxInt32") {
					return true
				}
				if b, ok := isCompare(x.Expr, token.EQL); ok && !x.Val && (objKey(rd.Info, b.Y) == "math.MaxInt32" || objKey(rd.Info, b.X) == "math.MaxInt32") {
					return true
				}
			}
			return false
		}
		// prune the "limited" edge: on the unlimited edge, a backward read must be unreachable
		// unless direction != LAST was established
		notLast := func(f []Fact) bool {
			if unlimited(f) {
				return true
			}
			for _, x := range f {
				if b, ok := isCompare(x.Expr, token.EQL); ok && !x.Val && (objKey(rd.Info, b.Y) == "utils/io.LAST" || objKey(rd.Info, b.X) == "utils/io.LAST") {
					return true
				}
			}
			return false
		}
		rr := rd.Run(Query{Target: back, Exempt: notLast})
		c.Floor(r122, rd.Name, "readBackward sites", rr.TargetSites, 1)
		c.reportHits(r122, rd, "unlimited-reverse-scan-refused", rr,
			"a backward read is reachable only with a row limit (Limit.Number != MaxInt32) or after the direction was found not to be LAST: an unlimited LAST read returns an error before any file is scanned",
			"a backward read is reachable on a path where neither a row limit nor a direction other than LAST was established: an unlimited reverse scan is not refused")
	}
}
