package main

// Whole-module call graph over the type-checked syntax.
//
//   * static calls and method calls are resolved with typeutil.Callee;
//   * a call through an interface method is resolved by class-hierarchy analysis over every
//     named type declared in the module (plus *os.File for the io interfaces);
//   * a reference to a function or method that is not in call position (method value,
//     function stored in a field, passed as an argument) is treated as a potential call from
//     the referencing function — sound for "who may cause this to run";
//   * the body of a function literal is attributed to the enclosing declared function.
//
// External (non-module) callees are nodes without bodies, identified by their full name.

import (
	"go/ast"
	"go/types"
	"sort"
	"strings"

	"golang.org/x/tools/go/types/typeutil"
)

type CGEdge struct {
	From *Func
	To   string // callee key (module function key or external full name)
	Site *ast.CallExpr
	Pos  string
	Kind string // static | iface | ref | go | defer
	Node ast.Node
}

type CallGraph struct {
	Out map[string][]*CGEdge
	In  map[string][]*CGEdge
	N   int
}

func (p *Prog) CG() *CallGraph {
	if p.cg != nil {
		return p.cg
	}
	g := &CallGraph{Out: map[string][]*CGEdge{}, In: map[string][]*CGEdge{}}
	// all named types of the module, for CHA
	var named []types.Type
	for _, pkg := range p.Pkgs {
		sc := pkg.Types.Scope()
		for _, n := range sc.Names() {
			if tn, ok := sc.Lookup(n).(*types.TypeName); ok && !tn.IsAlias() {
				if _, isIface := tn.Type().Underlying().(*types.Interface); isIface {
					continue
				}
				named = append(named, tn.Type(), types.NewPointer(tn.Type()))
			}
		}
	}
	var msc typeutil.MethodSetCache
	implCache := map[*types.Func][]*types.Func{}
	impls := func(m *types.Func) []*types.Func {
		if r, ok := implCache[m]; ok {
			return r
		}
		var out []*types.Func
		sig := m.Type().(*types.Signature)
		recv := sig.Recv()
		if recv != nil {
			if iface, ok := recv.Type().Underlying().(*types.Interface); ok {
				for _, t := range named {
					if !types.Implements(t, iface) {
						continue
					}
					sel := msc.MethodSet(t).Lookup(m.Pkg(), m.Name())
					if sel == nil {
						continue
					}
					if f, ok := sel.Obj().(*types.Func); ok {
						out = append(out, f)
					}
				}
			}
		}
		// dedupe
		seen := map[*types.Func]bool{}
		var ded []*types.Func
		for _, f := range out {
			if !seen[f] {
				seen[f] = true
				ded = append(ded, f)
			}
		}
		implCache[m] = ded
		return ded
	}
	add := func(e *CGEdge) {
		g.Out[e.From.Key] = append(g.Out[e.From.Key], e)
		g.In[e.To] = append(g.In[e.To], e)
		g.N++
	}
	keyOf := func(f *types.Func) string {
		if f == nil {
			return ""
		}
		if fn := p.ByObj[f]; fn != nil {
			return fn.Key
		}
		if o := f.Origin(); o != nil {
			if fn := p.ByObj[o]; fn != nil {
				return fn.Key
			}
		}
		return short(f.FullName())
	}
	for _, fn := range p.FuncSeq {
		if fn.Decl.Body == nil {
			continue
		}
		info := fn.Pkg.TypesInfo
		callFun := map[ast.Expr]bool{}
		kindOf := map[*ast.CallExpr]string{}
		walkAll(fn.Decl.Body, func(n ast.Node) bool {
			switch s := n.(type) {
			case *ast.GoStmt:
				kindOf[s.Call] = "go"
			case *ast.DeferStmt:
				kindOf[s.Call] = "defer"
			}
			return true
		})
		walkAll(fn.Decl.Body, func(n ast.Node) bool {
			call, ok := n.(*ast.CallExpr)
			if !ok {
				return true
			}
			callFun[unparen(call.Fun)] = true
			if sel, ok := unparen(call.Fun).(*ast.SelectorExpr); ok {
				callFun[sel.Sel] = true
			}
			f := Callee(info, call)
			if f == nil {
				return true
			}
			kind := "static"
			if k := kindOf[call]; k != "" {
				kind = k
			}
			sig, _ := f.Type().(*types.Signature)
			if sig != nil && sig.Recv() != nil {
				if _, isIface := sig.Recv().Type().Underlying().(*types.Interface); isIface {
					add(&CGEdge{From: fn, To: keyOf(f), Site: call, Pos: p.Pos(call.Pos()), Kind: "iface-decl", Node: call})
					for _, im := range impls(f) {
						add(&CGEdge{From: fn, To: keyOf(im), Site: call, Pos: p.Pos(call.Pos()), Kind: "iface", Node: call})
					}
					return true
				}
			}
			add(&CGEdge{From: fn, To: keyOf(f), Site: call, Pos: p.Pos(call.Pos()), Kind: kind, Node: call})
			return true
		})
		// references not in call position
		walkAll(fn.Decl.Body, func(n ast.Node) bool {
			var id *ast.Ident
			switch x := n.(type) {
			case *ast.SelectorExpr:
				if callFun[x] {
					return true
				}
				id = x.Sel
				if callFun[id] {
					// selector is the Fun of a call handled above
					return true
				}
			case *ast.Ident:
				if callFun[x] {
					return true
				}
				id = x
			default:
				return true
			}
			f, ok := info.Uses[id].(*types.Func)
			if !ok {
				return true
			}
			// skip the Sel ident of a selector we already processed as a whole
			add(&CGEdge{From: fn, To: keyOf(f), Pos: p.Pos(id.Pos()), Kind: "ref", Node: id})
			return true
		})
	}
	for k := range g.Out {
		es := g.Out[k]
		sort.SliceStable(es, func(i, j int) bool { return es[i].Pos < es[j].Pos })
	}
	p.cg = g
	return g
}

// Reach returns the set of function keys reachable from the given roots (including the roots),
// optionally not expanding through the functions in stop.
func (g *CallGraph) Reach(roots []string, stop map[string]bool) map[string]bool {
	seen := map[string]bool{}
	var work []string
	for _, r := range roots {
		if !seen[r] {
			seen[r] = true
			work = append(work, r)
		}
	}
	for len(work) > 0 {
		k := work[len(work)-1]
		work = work[:len(work)-1]
		if stop[k] {
			continue
		}
		for _, e := range g.Out[k] {
			if !seen[e.To] {
				seen[e.To] = true
				work = append(work, e.To)
			}
		}
	}
	return seen
}

// ReachesAny computes the set of module functions from which some key in sinks is reachable.
func (g *CallGraph) ReachesAny(sinks map[string]bool) map[string]bool {
	seen := map[string]bool{}
	var work []string
	for s := range sinks {
		seen[s] = true
		work = append(work, s)
	}
	for len(work) > 0 {
		k := work[len(work)-1]
		work = work[:len(work)-1]
		for _, e := range g.In[k] {
			if !seen[e.From.Key] {
				seen[e.From.Key] = true
				work = append(work, e.From.Key)
			}
		}
	}
	return seen
}

// PathTo returns one call path (function keys) from root to a function satisfying pred, or nil.
func (g *CallGraph) PathTo(root string, pred func(string) bool) []string {
	prev := map[string]string{root: ""}
	queue := []string{root}
	for len(queue) > 0 {
		k := queue[0]
		queue = queue[1:]
		if pred(k) {
			var rev []string
			for c := k; c != ""; c = prev[c] {
				rev = append(rev, c)
			}
			for l, r := 0, len(rev)-1; l < r; l, r = l+1, r-1 {
				rev[l], rev[r] = rev[r], rev[l]
			}
			return rev
		}
		for _, e := range g.Out[k] {
			if _, ok := prev[e.To]; !ok {
				prev[e.To] = k
				queue = append(queue, e.To)
			}
		}
	}
	return nil
}

// Callers returns the distinct non-test module functions with an edge to key.
func (p *Prog) Callers(key string, includeTests bool) []*Func {
	seen := map[*Func]bool{}
	var out []*Func
	for _, e := range p.CG().In[key] {
		if !includeTests && p.IsTestFile(e.From.Decl.Pos()) {
			continue
		}
		if !seen[e.From] {
			seen[e.From] = true
			out = append(out, e.From)
		}
	}
	sort.Slice(out, func(i, j int) bool { return out[i].Key < out[j].Key })
	return out
}

// GateDominated computes the set of functions all of whose (non-test) incoming edges come from
// gates or gate-dominated functions. A function without any caller is dominated only if it is
// itself a gate.
func (p *Prog) GateDominated(gates map[string]bool) map[string]bool {
	ck := strings.Join(sortedKeys(gates), "|")
	if p.domCache == nil {
		p.domCache = map[string]map[string]bool{}
	}
	if d, ok := p.domCache[ck]; ok {
		return d
	}
	d := p.gateDominated(gates)
	p.domCache[ck] = d
	return d
}

func (p *Prog) gateDominated(gates map[string]bool) map[string]bool {
	g := p.CG()
	dom := map[string]bool{}
	for _, f := range p.FuncSeq {
		dom[f.Key] = true
	}
	changed := true
	for changed {
		changed = false
		for _, f := range p.FuncSeq {
			if !dom[f.Key] || gates[f.Key] {
				continue
			}
			n := 0
			ok := true
			for _, e := range g.In[f.Key] {
				if p.IsTestFile(e.From.Decl.Pos()) {
					continue
				}
				if e.From.Key == f.Key {
					continue
				}
				n++
				if !gates[e.From.Key] && !dom[e.From.Key] {
					ok = false
					break
				}
			}
			if n == 0 || !ok {
				dom[f.Key] = false
				changed = true
			}
		}
	}
	for k := range gates {
		dom[k] = true
	}
	return dom
}
