package main

// Anchors and predicates shared by the WAL rules (DESIGN §3).

import (
	"go/ast"
	"go/types"
	"sort"
	"strings"
)

const (
	fnFlushToWAL         = "(*executor.WALFileType).FlushToWAL"
	fnFlushCommandsToWAL = "(*executor.WALFileType).FlushCommandsToWAL"
	fnWritePrimary       = "(*executor.WALFileType).writePrimary"
	fnWTI                = "(*executor.WALFileType).WriteTransactionInfo"
	fnWriteStatus        = "(*executor.WALFileType).WriteStatus"
	fnCreateCheckpoint   = "(*executor.WALFileType).CreateCheckpoint"
	fnSyncWAL            = "(*executor.WALFileType).SyncWAL"
	fnRequestFlush       = "(*executor.WALFileType).RequestFlush"
	fnShutdown           = "(*executor.WALFileType).Shutdown"
	fnReplay             = "(*executor.WALFileType).Replay"
	fnReplayTGData       = "(*executor.WALFileType).replayTGData"
	fnReadTGData         = "(*executor.WALFileType).readTGData"
	fnReadTxnInfo        = "(*executor.WALFileType).readTransactionInfo"
	fnDelete             = "(*executor.WALFileType).Delete"
	fnNeedsReplay        = "(*executor.WALFileType).NeedsReplay"
	fnQueueWriteCommand  = "(*executor.WALFileType).QueueWriteCommand"
	fnCleanup            = "(*executor.WALCleaner).CleanupOldWALFiles"
	fnTakeOver           = "executor.TakeOverWALFile"
	fnWBTF               = "executor.WriteBufferToFile"
	fnWBTFI              = "executor.WriteBufferToFileIndirect"
	fnParseTGData        = "executor.ParseTGData"
	fnSerializeTG        = "executor.serializeTG"
	fnWriteCSM           = "(*executor.Writer).WriteCSM"
	fnWriteRecords       = "(*executor.Writer).WriteRecords"
	fnGetInitWALFile     = "(*internal/di.Container).GetInitWALFile"
	fnSyncfs             = "utils/io.Syncfs"
	fldFilePtr           = "executor.WALFileType.FilePtr"
	fldWALBypass         = "executor.WALFileType.WALBypass"
	fldLastCommitted     = "executor.WALFileType.lastCommittedTGID"
)

// recvField returns the field key of the receiver expression of a method call
// (`wf.FilePtr.Sync()` -> executor.WALFileType.FilePtr), "" otherwise.
func recvField(info *types.Info, call *ast.CallExpr) string {
	sel, ok := unparen(call.Fun).(*ast.SelectorExpr)
	if !ok {
		return ""
	}
	return fieldKey(info, sel.X)
}

// isFileMethodOn matches calls of (*os.File).<method> whose receiver is the given struct field.
func isFileMethodOn(info *types.Info, n ast.Node, field string, methods ...string) bool {
	c, ok := n.(*ast.CallExpr)
	if !ok {
		return false
	}
	name := CalleeName(info, c)
	for _, m := range methods {
		if name == "(*os.File)."+m && recvField(info, c) == field {
			return true
		}
	}
	return false
}

func isCall(info *types.Info, n ast.Node, names ...string) bool {
	c, ok := n.(*ast.CallExpr)
	if !ok {
		return false
	}
	name := CalleeName(info, c)
	for _, m := range names {
		if name == m {
			return true
		}
	}
	return false
}

// isWTI matches WriteTransactionInfo(_, dest, status) with the named constant arguments
// (empty string = any).
func isWTI(info *types.Info, n ast.Node, dest, status string) bool {
	c, ok := n.(*ast.CallExpr)
	if !ok || CalleeName(info, c) != fnWTI || len(c.Args) != 3 {
		return false
	}
	if dest != "" && objKey(info, c.Args[1]) != "executor."+dest {
		return false
	}
	if status != "" && objKey(info, c.Args[2]) != "executor."+status {
		return false
	}
	return true
}

// wrapperSet computes the module functions that are "wrappers" of a barrier: every normal
// exit that may carry a nil error has passed the barrier (result-checked when needOK).
// Inlining bound: depth levels (DESIGN §2.3, bound 4).
func (p *Prog) wrapperSet(base func(s *Scope) EvPred, needOK bool, depth int) map[string]bool {
	set := map[string]bool{}
	for d := 0; d < depth; d++ {
		added := false
		for _, fn := range p.NonTestFuncs() {
			if set[fn.Key] || fn.Decl.Body == nil {
				continue
			}
			s := p.ScopeOf(fn)
			b := base(s)
			pred := func(sub, top ast.Node) bool {
				if b(sub, top) {
					return true
				}
				if c, ok := sub.(*ast.CallExpr); ok {
					return set[CalleeName(s.Info, c)]
				}
				return false
			}
			// cheap pre-filter: any barrier site at all?
			has := false
			walkAll(fn.Decl.Body, func(n ast.Node) bool {
				if has {
					return false
				}
				if _, isLit := n.(*ast.FuncLit); isLit {
					return false
				}
				if pred(n, n) {
					has = true
				}
				return !has
			})

			if !has {
				continue
			}
			r := s.Run(Query{Barrier: pred, NeedOK: needOK, ExitIsTarget: true, OnlyNilErrorReturns: true})
			if len(r.Hits) == 0 {
				set[fn.Key] = true
				added = true
			}
		}
		if !added {
			break
		}
	}
	return set
}

// withWrappers extends a base predicate with calls to its wrapper functions.
func withWrappers(s *Scope, base EvPred, wr map[string]bool) EvPred {
	return func(sub, top ast.Node) bool {
		if base(sub, top) {
			return true
		}
		if c, ok := sub.(*ast.CallExpr); ok {
			return wr[CalleeName(s.Info, c)]
		}
		return false
	}
}

// walSyncPred: the WAL durability point — (*os.File).Sync on WALFileType.FilePtr.
func walSyncPred(s *Scope) EvPred {
	return func(sub, top ast.Node) bool { return isFileMethodOn(s.Info, sub, fldFilePtr, "Sync") }
}

// primaryWriters: module functions from which a primary-file write primitive is reachable.
func (p *Prog) primaryReachers() map[string]bool {
	return p.CG().ReachesAny(map[string]bool{fnWBTF: true, fnWBTFI: true})
}

// callReaches matches calls (not references) whose static callee is in set.
func callReaches(s *Scope, set map[string]bool) EvPred {
	return func(sub, top ast.Node) bool {
		c, ok := sub.(*ast.CallExpr)
		if !ok {
			return false
		}
		n := CalleeName(s.Info, c)
		return n != "" && set[n]
	}
}

func sortedKeys(m map[string]bool) []string {
	var out []string
	for k, v := range m {
		if v {
			out = append(out, k)
		}
	}
	sort.Strings(out)
	return out
}

// reportHits converts query hits into violations, or a single "holds" obligation.
func (c *Ctx) reportHits(rule string, s *Scope, construct string, r QResult, holdsDetail, violDetail string) bool {
	if len(r.Hits) == 0 {
		pos := s.P.Pos(s.Body.Pos())
		c.Hold(rule, s.Name, construct, pos, holdsDetail)
		return true
	}
	for _, h := range r.Hits {
		desc := construct
		c.Violate(rule, s.Name, desc, h.Pos, violDetail+": "+nodeDesc(s, h.Node)+" — "+h.Why, h.Path)
	}
	return false
}

func nodeDesc(s *Scope, n ast.Node) string {
	switch x := n.(type) {
	case *ast.CallExpr:
		return "call " + types.ExprString(x.Fun)
	case *ast.ReturnStmt:
		var parts []string
		for _, r := range x.Results {
			parts = append(parts, types.ExprString(r))
		}
		return "return " + strings.Join(parts, ", ")
	case *ast.BlockStmt:
		return "end of function body"
	case ast.Expr:
		return types.ExprString(x)
	case *ast.AssignStmt:
		var parts []string
		for _, r := range x.Lhs {
			parts = append(parts, types.ExprString(r))
		}
		return "assignment to " + strings.Join(parts, ", ")
	case *ast.GoStmt:
		return "go " + types.ExprString(x.Call.Fun)
	case *ast.SendStmt:
		return "send on " + types.ExprString(x.Chan)
	}
	return "node"
}

// errEdgeQuery: starting right after the call `site` (whose error result is bound to an
// object), follow only paths on which that error is NOT known to be nil and report targets.
func errEdgeQuery(s *Scope, site *ast.CallExpr, top ast.Node, target EvPred, exitIsTarget bool) (QResult, bool) {
	obj, ok := assignedLastResult(s.Info, top, site)
	if !ok || obj == nil {
		return QResult{}, false
	}
	q := Query{
		Start:               func(sub, _ ast.Node) bool { return sub == ast.Node(site) },
		Target:              target,
		FailObj:             obj,
		ExitIsTarget:        exitIsTarget,
		OnlyNilErrorReturns: exitIsTarget,
	}
	return s.Run(q), true
}

// topOf finds the CFG node containing sub.
func (s *Scope) topOf(sub ast.Node) ast.Node {
	for _, b := range s.X().blocks {
		for _, top := range b.nodes {
			if top.Pos() <= sub.Pos() && sub.End() <= top.End() {
				found := false
				events(top, func(m ast.Node) {
					if m == sub {
						found = true
					}
				})
				if found {
					return top
				}
			}
		}
	}
	return nil
}

// sites collects the sub-nodes of the function (outside closures) satisfying pred.
func (s *Scope) sites(pred EvPred) []ast.Node {
	var out []ast.Node
	seen := map[ast.Node]bool{}
	for _, b := range s.X().blocks {
		for _, top := range b.nodes {
			events(top, func(m ast.Node) {
				if !seen[m] && pred(m, top) {
					seen[m] = true
					out = append(out, m)
				}
			})
		}
	}
	sort.Slice(out, func(i, j int) bool { return out[i].Pos() < out[j].Pos() })
	return out
}
