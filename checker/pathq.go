package main

// K1/K2: path queries over go/cfg graphs.
//
// A query asks: starting at function entry (or right after a Start event), is there a path
// that reaches a Target event without having passed a Barrier event?  Barriers can be
// "result-checked": a barrier call that returns an error only counts on the edge where that
// error was tested nil (or when it is returned to the caller directly).  Edges can be
// exempted by facts that hold on them (guard variables, switch cases).

import (
	"fmt"
	"go/ast"
	"go/types"

	"golang.org/x/tools/go/cfg"
	"golang.org/x/tools/go/packages"
)

type Scope struct {
	P    *Prog
	Pkg  *packages.Package
	Info *types.Info
	Body *ast.BlockStmt
	G    *cfg.CFG
	Fn   *Func // enclosing declared function
	Name string
	Type *ast.FuncType
	xg   *xgraph
	// Anchor: the scope was resolved as a rule anchor (Ctx.S): it is analysed together with
	// its private helpers (inline.go). Scopes made while iterating over all functions are not.
	Anchor bool
	// paramBounds: value ranges a rule assumes for parameters during interval evaluation (K8).
	paramBounds  map[types.Object]ival
	dateUnfolded bool
}

// walk visits the scope's body and, for an anchor, the bodies of its private helpers.
func (s *Scope) walk(f func(ast.Node) bool) {
	walkAll(s.Body, f)
	if s.Anchor && s.Fn != nil && s.Body == s.Fn.Decl.Body {
		for _, h := range s.P.privateHelpers(s.Fn) {
			walkAll(h.Decl.Body, f)
		}
	}
}

// walkDeep visits node in source order and, where an extracted private helper of the anchor is
// called, the helper's body (depth <= 3).
func (s *Scope) walkDeep(node ast.Node, f func(ast.Node) bool) {
	helpers := map[string]*Func{}
	if s.Anchor && s.Fn != nil {
		for _, h := range s.P.privateHelpers(s.Fn) {
			helpers[h.Key] = h
		}
	}
	var rec func(n ast.Node, depth int)
	rec = func(n ast.Node, depth int) {
		walkAll(n, func(m ast.Node) bool {
			if !f(m) {
				return false
			}
			if cx, ok := m.(*ast.CallExpr); ok && depth < 3 && len(helpers) > 0 {
				if h := helpers[CalleeName(s.Info, cx)]; h != nil {
					rec(h.Decl.Body, depth+1)
				}
			}
			return true
		})
	}
	rec(node, 0)
}

func (p *Prog) ScopeOf(fn *Func) *Scope {
	if fn == nil || fn.Decl.Body == nil {
		return nil
	}
	return &Scope{P: p, Pkg: fn.Pkg, Info: fn.Pkg.TypesInfo, Body: fn.Decl.Body,
		G: p.CFG(fn.Pkg, fn.Decl.Body), Fn: fn, Name: fn.Key, Type: fn.Decl.Type}
}

func (p *Prog) ScopeOfLit(fn *Func, lit *ast.FuncLit) *Scope {
	return &Scope{P: p, Pkg: fn.Pkg, Info: fn.Pkg.TypesInfo, Body: lit.Body,
		G: p.CFG(fn.Pkg, lit.Body), Fn: fn, Name: fn.Key + "$lit@" + p.Pos(lit.Pos()), Type: lit.Type}
}

// Event predicates receive the sub-node and the CFG node (statement/expression) containing it.
type EvPred func(sub, top ast.Node) bool

type Query struct {
	Start   EvPred // nil: from function entry
	Target  EvPred
	Barrier EvPred
	// NeedOK: a Barrier that is a call returning an error counts only once that error has
	// been tested nil on the path (or is returned to the caller).
	NeedOK bool
	// Exempt: edges on which these facts hold are not followed.
	Exempt func(facts []Fact) bool
	// ExitIsTarget: a normal function exit (return or falling off the end) is a target.
	ExitIsTarget bool
	// OnlyNilErrorReturns (with ExitIsTarget): only returns that may yield a nil error
	// count (returns whose last result is syntactically a non-nil error value are skipped).
	OnlyNilErrorReturns bool
	// FailObj: follow only the FAILURE edge of the error bound at the Start event: while the
	// variable has not been assigned again, edges on which it is known nil are not followed
	// (a later `err = g(); if err != nil` on the same variable is a different error and does
	// not restrict the paths).
	FailObj types.Object
	// WholeFacts: also hand the undecomposed branch conditions to Exempt (for partial evaluation).
	WholeFacts bool
	// StrictOK: a barrier call that appears directly as a result of a return statement does
	// NOT count as passed (used when the target is that very return and carries data).
	StrictOK bool
}

type Hit struct {
	Node ast.Node // the target sub-node (or return stmt / body end)
	Pos  string
	Path []string // witness: positions of blocks along the path
	Why  string
	// LastCond/LastVal: the last branch condition decided on the witness path and its value
	LastCond ast.Expr
	LastVal  bool
}

type QResult struct {
	Hits         []Hit
	TargetSites  int // distinct target sub-nodes seen anywhere in the function (reachable or not)
	BarrierSites int
	StartSites   int
}

type pstate struct {
	blk     int32
	started bool
	kind    uint8 // 0 clear, 1 pending, 2 passed
	obj     types.Object
	// nilness of one variable known from the way a spliced helper returned: ret is carried
	// over the return edge (1 non-nil, 2 nil) until the binding statement ran, then nn/nnVal
	ret   int8
	nn    types.Object
	nnVal int8
	// failLive: the error bound at the Start event (Query.FailObj) has not been reassigned yet
	failLive bool
}

const (
	stClear   = 0
	stPending = 1
	stPassed  = 2
)

// events lists the sub-nodes of a CFG node in evaluation order, with defer/go handled:
// only the arguments of a deferred/spawned call are evaluated at the statement.
func events(top ast.Node, f func(sub ast.Node)) {
	switch s := top.(type) {
	case *ast.DeferStmt:
		for _, a := range s.Call.Args {
			walkPost(a, f)
		}
		f(s)
		return
	case *ast.GoStmt:
		for _, a := range s.Call.Args {
			walkPost(a, f)
		}
		f(s)
		return
	}
	walkPost(top, f)
}

func (s *Scope) blockFacts(b *cfg.Block, succ int) []Fact {
	if len(b.Succs) != 2 {
		return nil
	}
	t := b.Succs[0]
	branch := succ == 0
	var last ast.Node
	if len(b.Nodes) > 0 {
		last = b.Nodes[len(b.Nodes)-1]
	}
	switch t.Kind {
	case cfg.KindIfThen:
		if is, ok := t.Stmt.(*ast.IfStmt); ok && last == ast.Node(is.Cond) {
			return append(implies(is.Cond, branch), Fact{Expr: is.Cond, Val: branch, Whole: true})
		}
	case cfg.KindForBody:
		if fs, ok := t.Stmt.(*ast.ForStmt); ok && fs.Cond != nil && last == ast.Node(fs.Cond) {
			return append(implies(fs.Cond, branch), Fact{Expr: fs.Cond, Val: branch, Whole: true})
		}
	case cfg.KindSwitchCaseBody:
		cc, _ := t.Stmt.(*ast.CaseClause)
		if cc == nil {
			return nil
		}
		if e, ok := last.(ast.Expr); ok {
			for _, ce := range cc.List {
				if ce == e {
					tag := s.switchTag(cc)
					if tag == nil {
						// tagless switch: case expr is a boolean condition
						return append(implies(e, branch), Fact{Expr: e, Val: branch, Whole: true})
					}
					return []Fact{{Expr: e, Val: branch, Tag: tag}}
				}
			}
		}
	}
	return nil
}

func (s *Scope) switchTag(cc *ast.CaseClause) ast.Expr {
	var tag ast.Expr
	found := false
	s.walk(func(n ast.Node) bool { // helper bodies included: their blocks are part of the expanded graph
		if found {
			return false
		}
		if sw, ok := n.(*ast.SwitchStmt); ok {
			for _, c := range sw.Body.List {
				if c == ast.Stmt(cc) {
					tag = sw.Tag
					found = true
					return false
				}
			}
		}
		return true
	})
	return tag
}

// isNonNilErrorReturn: the return's last result is certainly a non-nil error
// (a call to fmt.Errorf/errors.New, a composite literal / conversion of an error type,
// or an identifier that was tested non-nil is NOT tracked here — only syntactic forms).
func (s *Scope) lastResultCertainlyNonNil(r *ast.ReturnStmt) bool {
	if len(r.Results) == 0 {
		return false
	}
	e := unparen(r.Results[len(r.Results)-1])
	switch x := e.(type) {
	case *ast.CallExpr:
		switch CalleeName(s.Info, x) {
		case "fmt.Errorf", "errors.New":
			return true
		}
		// conversion to a named error type, e.g. wal.ShortReadError("..."), WALCreateError(..)
		if tv, ok := s.Info.Types[x.Fun]; ok && tv.IsType() {
			return true
		}
	case *ast.CompositeLit:
		return true
	case *ast.UnaryExpr:
		if _, ok := x.X.(*ast.CompositeLit); ok {
			return true
		}
	case *ast.Ident:
		if o := s.Info.ObjectOf(x); o != nil {
			return s.knownNonNilAt(o, r)
		}
	}
	return false
}

// knownNonNilAt: `at` lies in a branch of an enclosing if-statement whose condition implies
// o != nil, and o is not assigned between the branch start and `at`.
func (s *Scope) knownNonNilAt(o types.Object, at ast.Node) bool {
	file := s.P.FileOf(s.Pkg, at.Pos())
	if file == nil {
		return false
	}
	par := s.P.Parents(file)
	child := at
	for n := par[at]; n != nil; child, n = n, par[n] {
		if _, isLit := n.(*ast.FuncLit); isLit {
			return false
		}
		if _, isDecl := n.(*ast.FuncDecl); isDecl {
			return false
		}
		is, ok := n.(*ast.IfStmt)
		if !ok {
			continue
		}
		var facts []Fact
		if child == ast.Node(is.Body) {
			facts = implies(is.Cond, true)
		} else if is.Else != nil && child == ast.Node(is.Else) {
			facts = implies(is.Cond, false)
		} else {
			continue
		}
		for _, f := range facts {
			o2, trueNonNil, ok := nilTest(s.Info, f.Expr)
			if !ok || o2 != o || f.Val != trueNonNil {
				continue
			}
			reassigned := false
			walkAll(child, func(m ast.Node) bool {
				if as, ok := m.(*ast.AssignStmt); ok && as.Pos() < at.Pos() {
					for _, l := range as.Lhs {
						if identObj(s.Info, l) == o {
							reassigned = true
						}
					}
				}
				return !reassigned
			})
			if !reassigned {
				return true
			}
		}
	}
	return false
}

// Run executes the query and returns every target reachable without passing the barrier.
func (s *Scope) Run(q Query) QResult {
	var res QResult
	if s.G == nil || len(s.G.Blocks) == 0 {
		return res
	}
	g := s.X()
	// count sites
	seenT := map[ast.Node]bool{}
	seenB := map[ast.Node]bool{}
	seenS := map[ast.Node]bool{}
	for _, b := range g.blocks {
		for _, top := range b.nodes {
			events(top, func(sub ast.Node) {
				if q.Target != nil && q.Target(sub, top) && !seenT[sub] {
					seenT[sub] = true
					res.TargetSites++
				}
				if q.Barrier != nil && !seenB[sub] && q.Barrier(sub, top) {
					seenB[sub] = true
					res.BarrierSites++
				}
				if q.Start != nil && !seenS[sub] && q.Start(sub, top) {
					seenS[sub] = true
					res.StartSites++
				}
			})
		}
	}
	type qitem struct {
		st   pstate
		prev int
		cond ast.Expr // the branch condition decided on the edge into this state (nil: unconditional)
		val  bool
	}
	var queue []qitem
	visited := map[pstate]bool{}
	push := func(st pstate, prev int, cond ast.Expr, val bool) {
		if visited[st] {
			return
		}
		visited[st] = true
		queue = append(queue, qitem{st, prev, cond, val})
	}
	push(pstate{blk: 0, started: q.Start == nil, kind: stClear}, -1, nil, false)
	// lastCond: the last branch decision on the witness path (for construct keys that name the
	// guard through which an exit is reached, independent of if / switch form)
	lastCond := func(i int) (ast.Expr, bool) {
		for ; i >= 0; i = queue[i].prev {
			if queue[i].cond != nil {
				return queue[i].cond, queue[i].val
			}
		}
		return nil, false
	}
	reported := map[ast.Node]bool{}
	pathOf := func(i int) []string {
		var rev []string
		for ; i >= 0; i = queue[i].prev {
			xb := g.blocks[queue[i].st.blk]
			b := xb.b
			pos := "?"
			if len(xb.nodes) > 0 {
				pos = s.P.Pos(xb.nodes[0].Pos())
			} else if b.Stmt != nil {
				pos = s.P.Pos(b.Stmt.Pos())
			}
			tag := ""
			if xb.inl > 0 {
				tag = fmt.Sprintf("+%d", xb.inl)
			}
			rev = append(rev, fmt.Sprintf("b%d%s(%s)@%s", b.Index, tag, b.Kind, pos))
		}
		for l, r := 0, len(rev)-1; l < r; l, r = l+1, r-1 {
			rev[l], rev[r] = rev[r], rev[l]
		}
		return rev
	}
	for qi := 0; qi < len(queue); qi++ {
		st := queue[qi].st
		xb := g.blocks[st.blk]
		b := xb.b
		if !xb.live {
			continue
		}
		cur := st
		report := func(n ast.Node, why string) {
			if reported[n] {
				return
			}
			reported[n] = true
			lc, lv := lastCond(qi)
			res.Hits = append(res.Hits, Hit{Node: n, Pos: s.P.Pos(n.Pos()), Path: pathOf(qi), Why: why, LastCond: lc, LastVal: lv})
		}
		endsInReturn := false
		endsNoReturn := false
		var startTop ast.Node
		helperFailed := false // `return helper(…)` right after the spliced helper returned a non-nil error
		for ni, top := range xb.nodes {
			if ni == 0 && cur.ret != 0 {
				if xb.bindObj != nil {
					cur.nn, cur.nnVal = xb.bindObj, cur.ret
				} else if rs, ok := top.(*ast.ReturnStmt); ok && cur.ret == 1 && len(rs.Results) > 0 {
					if _, isCall := unparen(rs.Results[len(rs.Results)-1]).(*ast.CallExpr); isCall && len(rs.Results) == 1 {
						helperFailed = true
					}
				}
				cur.ret = 0
			} else if cur.nn != nil {
				// a later assignment to the variable ends the knowledge
				if as, ok := top.(*ast.AssignStmt); ok {
					for _, l := range as.Lhs {
						if id, ok := l.(*ast.Ident); ok && s.Info.ObjectOf(id) == cur.nn {
							cur.nn, cur.nnVal = nil, 0
						}
					}
				}
			}
			if cur.failLive && top != startTop {
				if as, ok := top.(*ast.AssignStmt); ok {
					for _, l := range as.Lhs {
						if id, ok := l.(*ast.Ident); ok && s.Info.ObjectOf(id) == q.FailObj {
							cur.failLive = false
						}
					}
				}
			}
			events(top, func(sub ast.Node) {
				if q.Start != nil && q.Start(sub, top) {
					// an event that is both Target and Start (loop progress queries) is
					// judged as a target first, then restarts the query
					if cur.started && cur.kind != stPassed && q.Target != nil && q.Target(sub, top) {
						report(sub, "target reached without passing the barrier")
					}
					cur.started = true
					cur.kind = stClear
					cur.obj = nil
					cur.failLive = q.FailObj != nil
					startTop = top
					return
				}
				if !cur.started {
					return
				}
				if q.Barrier != nil && q.Barrier(sub, top) {
					if !q.NeedOK {
						cur.kind, cur.obj = stPassed, nil
						return
					}
					call, _ := sub.(*ast.CallExpr)
					if call == nil {
						cur.kind, cur.obj = stPassed, nil
						return
					}
					cf := Callee(s.Info, call)
					if cf != nil && !returnsError(cf) {
						cur.kind, cur.obj = stPassed, nil
						return
					}
					if rs, ok := top.(*ast.ReturnStmt); ok && !q.StrictOK {
						for _, r := range rs.Results {
							if unparen(r) == ast.Expr(call) {
								cur.kind, cur.obj = stPassed, nil // error handed to the caller
								return
							}
						}
					}
					if o, ok := assignedLastResult(s.Info, top, call); ok && o != nil {
						if cur.kind != stPassed {
							cur.kind, cur.obj = stPending, o
						}
						return
					}
					// result discarded: does not count
					return
				}
				if cur.kind != stPassed && q.Target != nil && q.Target(sub, top) {
					report(sub, "target reached without passing the barrier")
				}
			})
			if rs, ok := top.(*ast.ReturnStmt); ok {
				endsInReturn = true
				if cur.started && cur.kind != stPassed && q.ExitIsTarget && xb.inl == 0 {
					if !(q.OnlyNilErrorReturns && (helperFailed || s.lastResultCertainlyNonNil(rs))) {
						report(rs, "return reached without passing the barrier")
					}
				}
			}
		}
		if len(xb.nodes) > 0 {
			if es, ok := xb.nodes[len(xb.nodes)-1].(*ast.ExprStmt); ok {
				if c, ok := es.X.(*ast.CallExpr); ok && !mayReturn(s.Info)(c) {
					endsNoReturn = true
				}
			}
		}
		if xb.noSucc && xb.inl == 0 {
			if b.Kind == cfg.KindSelectAfterCase {
				continue // a select without default blocks until a case is ready: not an exit
			}
			if !endsInReturn && !endsNoReturn && q.ExitIsTarget && cur.started && cur.kind != stPassed {
				report(s.Body, "end of function reached without passing the barrier")
			}
			continue
		}
		for i, succ := range xb.succs {
			facts := xb.facts[i]
			if !q.WholeFacts {
				facts = withoutWhole(facts)
			}
			if q.Exempt != nil && len(facts) > 0 && q.Exempt(facts) {
				continue
			}
			if cur.failLive {
				skip := false
				for _, f := range facts {
					if f.Tag != nil || f.Whole {
						continue
					}
					if o, trueNonNil, ok := nilTest(s.Info, f.Expr); ok && o == q.FailObj && f.Val != trueNonNil {
						skip = true // the error is nil on this edge
					}
				}
				if skip {
					continue
				}
			}
			nst := cur
			nst.blk = int32(succ)
			if i < len(xb.retVal) && xb.retVal[i] != 0 {
				nst.ret = xb.retVal[i]
				nst.nn, nst.nnVal = nil, 0
			}
			if cur.nn != nil {
				infeasible := false
				for _, f := range facts {
					if f.Tag != nil || f.Whole {
						continue
					}
					if o, trueNonNil, ok := nilTest(s.Info, f.Expr); ok && s.rawObj(f.Expr) == cur.nn || (ok && o == cur.nn) {
						nonNil := f.Val == trueNonNil
						if nonNil != (cur.nnVal == 1) {
							infeasible = true
						}
					}
				}
				if infeasible {
					continue
				}
			}
			if cur.kind == stPending {
				for _, f := range facts {
					if f.Tag != nil {
						continue
					}
					if o, trueNonNil, ok := nilTest(s.Info, f.Expr); ok && o == cur.obj {
						nonNil := f.Val == trueNonNil
						if nonNil {
							nst.kind, nst.obj = stClear, nil
						} else {
							nst.kind, nst.obj = stPassed, nil
						}
					}
				}
			}
			var ec ast.Expr
			ev := false
			for _, f := range xb.facts[i] {
				if f.Whole {
					ec, ev = f.Expr, f.Val
				}
			}
			push(nst, qi, ec, ev)
		}
	}
	return res
}

// isCallTo builds a predicate matching calls whose static callee's short full name is one of names.
func (s *Scope) isCallTo(names ...string) EvPred {
	set := map[string]bool{}
	for _, n := range names {
		set[n] = true
	}
	return func(sub, top ast.Node) bool {
		c, ok := sub.(*ast.CallExpr)
		if !ok {
			return false
		}
		return set[CalleeName(s.Info, c)]
	}
}

func orPred(ps ...EvPred) EvPred {
	return func(sub, top ast.Node) bool {
		for _, p := range ps {
			if p != nil && p(sub, top) {
				return true
			}
		}
		return false
	}
}

// factIsField reports whether facts contain `<recv>.Field == val` for the struct field key.
func factField(info *types.Info, facts []Fact, key string, val bool) bool {
	for _, f := range facts {
		if f.Tag == nil && fieldKey(info, f.Expr) == key && f.Val == val {
			return true
		}
	}
	return false
}

func factIdent(info *types.Info, facts []Fact, o types.Object, val bool) bool {
	for _, f := range facts {
		if f.Tag == nil && identObj(info, f.Expr) == o && o != nil && f.Val == val {
			return true
		}
	}
	return false
}

func withoutWhole(facts []Fact) []Fact {
	n := 0
	for _, f := range facts {
		if f.Whole {
			n++
		}
	}
	if n == 0 {
		return facts
	}
	out := make([]Fact, 0, len(facts)-n)
	for _, f := range facts {
		if !f.Whole {
			out = append(out, f)
		}
	}
	return out
}

// rawObj: the (un-aliased) object of the variable tested in a nil comparison.
func (s *Scope) rawObj(e ast.Expr) types.Object {
	b, ok := unparen(e).(*ast.BinaryExpr)
	if !ok {
		return nil
	}
	for _, x := range []ast.Expr{b.X, b.Y} {
		if id, ok := unparen(x).(*ast.Ident); ok {
			if o := s.Info.ObjectOf(id); o != nil {
				if _, isNil := o.(*types.Nil); !isNil {
					return o
				}
			}
		}
	}
	return nil
}
