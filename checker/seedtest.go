package main

// Seeded changes as self-test cases (thorough tier): every confirmed, independently produced
// breaking change kept under /verif/seeded/<id>/ whose meta.json names this property is applied
// to the CURRENT source in memory (unified diff → packages.Config.Overlay, nothing is written
// under /repo) and the property's rules must report a violation that is not a known finding.
// A patch whose context no longer matches the source is "not applicable". Evidence about the
// checker only; it never changes the verdict on /repo.

import (
	"encoding/json"
	"fmt"
	"os"
	"path/filepath"
	"sort"
	"strconv"
	"strings"
)

type seedCase struct {
	Name  string
	Patch string
}

func seedCasesFor(verif, prop string) []seedCase {
	var out []seedCase
	dirs, _ := filepath.Glob(filepath.Join(verif, "seeded", "*"))
	sort.Strings(dirs)
	for _, d := range dirs {
		b, err := os.ReadFile(filepath.Join(d, "meta.json"))
		if err != nil {
			continue
		}
		var m struct {
			Property string `json:"property"`
		}
		if json.Unmarshal(b, &m) != nil || m.Property != prop {
			continue
		}
		p := filepath.Join(d, "patch_rebased_on_fixes.diff")
		if _, err := os.Stat(p); err != nil {
			p = filepath.Join(d, "patch.diff")
		}
		if _, err := os.Stat(p); err == nil {
			out = append(out, seedCase{filepath.Base(d), p})
		}
	}
	return out
}

// applyUnifiedDiff applies a git-style unified diff to the files under repo, in memory.
func applyUnifiedDiff(repo, patchPath string) (map[string][]byte, string) {
	b, err := os.ReadFile(patchPath)
	if err != nil {
		return nil, err.Error()
	}
	type hunk struct {
		oldStart int
		old, new []string
	}
	files := map[string][]hunk{}
	newFiles := map[string]bool{}
	var cur string
	var h *hunk
	flush := func() {
		if h != nil && cur != "" {
			files[cur] = append(files[cur], *h)
		}
		h = nil
	}
	lines := strings.Split(string(b), "\n")
	for i := 0; i < len(lines); i++ {
		l := lines[i]
		switch {
		case strings.HasPrefix(l, "diff --git"):
			flush()
			cur = ""
		case strings.HasPrefix(l, "--- "):
			flush()
			if strings.TrimSpace(l[4:]) == "/dev/null" && i+1 < len(lines) && strings.HasPrefix(lines[i+1], "+++ b/") {
				newFiles[strings.TrimSpace(lines[i+1][6:])] = true
			}
		case strings.HasPrefix(l, "+++ "):
			f := strings.TrimSpace(l[4:])
			f = strings.TrimPrefix(f, "b/")
			cur = f
		case strings.HasPrefix(l, "@@"):
			flush()
			// @@ -a,b +c,d @@
			parts := strings.Fields(l)
			if len(parts) < 3 {
				return nil, "bad hunk header"
			}
			o := strings.TrimPrefix(parts[1], "-")
			o = strings.SplitN(o, ",", 2)[0]
			n, _ := strconv.Atoi(o)
			h = &hunk{oldStart: n}
		default:
			if h == nil {
				continue
			}
			switch {
			case strings.HasPrefix(l, "+"):
				h.new = append(h.new, l[1:])
			case strings.HasPrefix(l, "-"):
				h.old = append(h.old, l[1:])
			case strings.HasPrefix(l, " "):
				h.old = append(h.old, l[1:])
				h.new = append(h.new, l[1:])
			case l == "" && i == len(lines)-1:
			case strings.HasPrefix(l, "\\"):
			default:
				// blank context line that lost its leading space
				if l == "" {
					h.old = append(h.old, "")
					h.new = append(h.new, "")
				}
			}
		}
	}
	flush()
	ov := map[string][]byte{}
	for f, hs := range files {
		path := filepath.Join(repo, f)
		var src []string
		if !newFiles[f] {
			sb, err := os.ReadFile(path)
			if err != nil {
				return nil, "file missing: " + f
			}
			src = strings.Split(string(sb), "\n")
		}
		offset := 0
		for _, hk := range hs {
			// locate the old block: at the stated position (with the running offset) or the
			// unique occurrence elsewhere
			match := func(at int) bool {
				if at < 0 || at+len(hk.old) > len(src) {
					return false
				}
				for k, ol := range hk.old {
					if src[at+k] != ol {
						return false
					}
				}
				return true
			}
			at := hk.oldStart - 1 + offset
			if len(hk.old) == 0 {
				if at < 0 {
					at = 0
				}
			} else if !match(at) {
				// like patch(1): search elsewhere, then with up to 3 lines of leading/trailing
				// context dropped (context that drifted because of an unrelated fix nearby)
				located := false
				for fuzz := 0; fuzz <= 3 && !located; fuzz++ {
					lead, trail := 0, 0
					for lead < fuzz && lead < len(hk.old) && lead < len(hk.new) && hk.old[lead] == hk.new[lead] {
						lead++
					}
					for trail < fuzz && trail < len(hk.old)-lead && trail < len(hk.new)-lead && hk.old[len(hk.old)-1-trail] == hk.new[len(hk.new)-1-trail] {
						trail++
					}
					if fuzz > 0 && lead == 0 && trail == 0 {
						break
					}
					o2, n2 := hk.old[lead:len(hk.old)-trail], hk.new[lead:len(hk.new)-trail]
					if len(o2) == 0 {
						break
					}
					m2 := func(p int) bool {
						if p < 0 || p+len(o2) > len(src) {
							return false
						}
						for k, ol := range o2 {
							if src[p+k] != ol {
								return false
							}
						}
						return true
					}
					found, cnt := -1, 0
					for p := 0; p+len(o2) <= len(src); p++ {
						if m2(p) {
							cnt++
							found = p
						}
					}
					if cnt == 1 {
						hk.old, hk.new = o2, n2
						at = found
						located = true
					}
				}
				if !located {
					return nil, fmt.Sprintf("hunk of %s does not match the current source", f)
				}
			}
			next := append([]string{}, src[:at]...)
			next = append(next, hk.new...)
			next = append(next, src[at+len(hk.old):]...)
			offset += len(hk.new) - len(hk.old)
			src = next
		}
		ov[path] = []byte(strings.Join(src, "\n"))
	}
	if len(ov) == 0 {
		return nil, "empty patch"
	}
	return ov, ""
}

// runSeedChild evaluates the property with one seeded patch applied (child process).
func runSeedChild(prop *Property, repo, patch string) int {
	out := map[string]any{"seed": patch}
	enc := func() { b, _ := json.Marshal(out); fmt.Println(string(b)) }
	ov, why := applyUnifiedDiff(repo, patch)
	if ov == nil {
		out["status"] = "not-applicable"
		out["why"] = why
		enc()
		return 0
	}
	p, err := Load(LoadConfig{Dir: repo, Overlay: ov})
	if err != nil {
		out["status"] = "does-not-compile"
		w := err.Error()
		if len(w) > 300 {
			w = w[:300]
		}
		out["why"] = w
		enc()
		return 0
	}
	c := runRules(p, prop, "quick", "seed", "")
	kfs, _ := loadKnown(filepath.Join(verifDir, "known_findings.json"))
	var fired []string
	seen := map[string]bool{}
	for _, o := range c.Obs {
		if o.Verdict == "violated" || o.Verdict == "undecided" {
			if matchKnown(kfs, prop.ID, o) != nil || seen[o.Key()] {
				continue
			}
			seen[o.Key()] = true
			fired = append(fired, o.Rule+" "+o.Function+" "+o.Construct+" @"+o.Pos)
		}
	}
	out["status"] = "evaluated"
	out["fired"] = fired
	enc()
	return 0
}
