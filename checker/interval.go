package main

// K8: a small interval abstract interpreter over expression syntax, with summaries for the
// few stdlib calls that occur in the slot-index functions.

import (
	"go/ast"
	"go/constant"
	"go/token"
	"go/types"
	"math"
)

type ival struct {
	lo, hi float64
	ok     bool
}

func unknown() ival { return ival{math.Inf(-1), math.Inf(1), false} }

func (s *Scope) evalInterval(e ast.Expr, depth int, assumptions *[]string) ival {
	if depth > 8 {
		return unknown()
	}
	e = unparen(e)
	if tv, ok := s.Info.Types[e]; ok && tv.Value != nil {
		if f, ok := constant.Float64Val(constant.ToFloat(tv.Value)); ok || !math.IsInf(f, 0) {
			return ival{f, f, true}
		}
	}
	switch x := e.(type) {
	case *ast.Ident:
		o := s.Info.ObjectOf(x)
		if o == nil {
			return unknown()
		}
		if b, ok := s.paramBounds[o]; ok {
			return b
		}
		// unique local definition
		var def ast.Expr
		n := 0
		s.walk(func(m ast.Node) bool {
			if as, ok := m.(*ast.AssignStmt); ok {
				for i, l := range as.Lhs {
					if identObj(s.Info, l) == o {
						n++
						if len(as.Rhs) == len(as.Lhs) {
							def = as.Rhs[i]
						} else {
							def = nil
						}
					}
				}
			}
			return true
		})

		if n == 1 && def != nil {
			return s.evalInterval(def, depth+1, assumptions)
		}
		if n == 0 && types.TypeString(o.Type(), nil) == "time.Duration" {
			*assumptions = append(*assumptions, "parameter "+o.Name()+" (time.Duration, the bucket timeframe) is positive")
			return ival{1, math.Inf(1), true}
		}
		return unknown()
	case *ast.CallExpr:
		if tv, ok := s.Info.Types[x.Fun]; ok && tv.IsType() && len(x.Args) == 1 {
			return s.evalInterval(x.Args[0], depth+1, assumptions) // integer conversion
		}
		switch CalleeName(s.Info, x) {
		case "(time.Time).YearDay":
			return ival{1, 366, true}
		case "(time.Time).Hour":
			return ival{0, 23, true}
		case "(time.Time).Minute", "(time.Time).Second":
			return ival{0, 59, true}
		case "(time.Time).Nanosecond":
			return ival{0, 999999999, true}
		case "(time.Time).Day":
			return ival{1, 31, true}
		case "(time.Time).Month":
			return ival{1, 12, true}
		case "(time.Time).Weekday":
			return ival{0, 6, true}
		case "(time.Duration).Nanoseconds", "(time.Duration).Microseconds", "(time.Duration).Milliseconds":
			if sel, ok := unparen(x.Fun).(*ast.SelectorExpr); ok {
				v := s.evalInterval(sel.X, depth+1, assumptions)
				if v.ok && v.lo >= 1 && CalleeName(s.Info, x) != "(time.Duration).Nanoseconds" {
					v.lo = 0 // coarser unit may round a positive duration down to 0
				}
				return v
			}
		case "(time.Time).Sub":
			// t.Sub(start-of-year of t in t's own location) >= 0
			if sel, ok := unparen(x.Fun).(*ast.SelectorExpr); ok && len(x.Args) == 1 {
				recv := s.resolveIdent(sel.X)
				a0 := unparen(x.Args[0])
				// the origin may first be bound to a local: origin := time.Date(…); t.Sub(origin)
				if id, ok := a0.(*ast.Ident); ok {
					if o := s.Info.ObjectOf(id); o != nil {
						var def ast.Expr
						nd := 0
						s.walk(func(m ast.Node) bool {
							if as, ok := m.(*ast.AssignStmt); ok && len(as.Lhs) == len(as.Rhs) {
								for i, l := range as.Lhs {
									if lid, ok := l.(*ast.Ident); ok && s.Info.ObjectOf(lid) == o {
										nd++
										def = as.Rhs[i]
									}
								}
							}
							return true
						})
						if nd == 1 && def != nil {
							a0 = unparen(def)
						}
					}
				}
				d0, _ := a0.(*ast.CallExpr)
				// the start of the year may be built by a one-line helper (return time.Date(…)):
				// unfold it by substituting the helper's parameters with the call's arguments
				if d0 != nil && CalleeName(s.Info, d0) != "time.Date" {
					if hf := Callee(s.Info, d0); hf != nil {
						if h := s.P.ByObj[hf]; h != nil && h.Decl.Body != nil && len(h.Decl.Body.List) == 1 {
							if rs, ok := h.Decl.Body.List[0].(*ast.ReturnStmt); ok && len(rs.Results) == 1 {
								if inner, ok := unparen(rs.Results[0]).(*ast.CallExpr); ok && CalleeName(h.Pkg.TypesInfo, inner) == "time.Date" && len(inner.Args) == 8 {
									sub := map[types.Object]ast.Expr{}
									for i := range d0.Args {
										if po := paramObj(h, i); po != nil {
											sub[po] = d0.Args[i]
										}
									}
									cp := *inner
									cp.Args = make([]ast.Expr, len(inner.Args))
									okAll := true
									for i, a := range inner.Args {
										cp.Args[i] = a
										if id, ok := unparen(a).(*ast.Ident); ok {
											if po := h.Pkg.TypesInfo.ObjectOf(id); po != nil {
												if r, ok := sub[po]; ok {
													cp.Args[i] = r
												}
											}
										} else if _, isConst := h.Pkg.TypesInfo.Types[a]; !isConst {
											okAll = false
										}
									}
									if okAll {
										d0 = &cp
										s.dateUnfolded = true
									}
								}
							}
						}
					}
				}
				if d := d0; d != nil && (s.dateUnfolded || CalleeName(s.Info, d) == "time.Date") && len(d.Args) == 8 {
					yearOK := false
					if yc, ok := unparen(d.Args[0]).(*ast.CallExpr); ok && CalleeName(s.Info, yc) == "(time.Time).Year" {
						if ys, ok := unparen(yc.Fun).(*ast.SelectorExpr); ok && s.resolveIdent(ys.X) == recv && recv != nil {
							yearOK = true
						}
					}
					locOK := false
					if lc, ok := unparen(d.Args[7]).(*ast.CallExpr); ok && CalleeName(s.Info, lc) == "(time.Time).Location" {
						if ls, ok := unparen(lc.Fun).(*ast.SelectorExpr); ok && s.resolveIdent(ls.X) == recv && recv != nil {
							locOK = true
						}
					}
					jan1 := objKey(s.Info, d.Args[1]) == "time.January"
					for _, a := range d.Args[2:7] {
						v, isC := constInt(s.Info, a)
						if !isC || (a == d.Args[2] && v != 1) || (a != d.Args[2] && v != 0) {
							jan1 = false
						}
					}
					if yearOK && locOK && jan1 {
						return ival{0, math.Inf(1), true}
					}
				}
			}
		}
		return unknown()
	case *ast.BinaryExpr:
		a := s.evalInterval(x.X, depth+1, assumptions)
		b := s.evalInterval(x.Y, depth+1, assumptions)
		if !a.ok || !b.ok {
			return unknown()
		}
		switch x.Op {
		case token.ADD:
			return ival{a.lo + b.lo, a.hi + b.hi, true}
		case token.SUB:
			return ival{a.lo - b.hi, a.hi - b.lo, true}
		case token.MUL:
			c := []float64{a.lo * b.lo, a.lo * b.hi, a.hi * b.lo, a.hi * b.hi}
			lo, hi := math.Inf(1), math.Inf(-1)
			for _, v := range c {
				if math.IsNaN(v) {
					return unknown()
				}
				lo, hi = math.Min(lo, v), math.Max(hi, v)
			}
			return ival{lo, hi, true}
		case token.QUO:
			if b.lo > 0 && a.lo >= 0 {
				hi := a.hi / b.lo
				if math.IsNaN(hi) {
					hi = math.Inf(1)
				}
				return ival{0, hi, true}
			}
		}
	}
	return unknown()
}

func (s *Scope) resolveIdent(e ast.Expr) types.Object { return identObj(s.Info, e) }
