package main

import (
	"fmt"
	"go/ast"
	"go/token"
	"go/types"
	"strings"
)

// ---- C24 -----------------------------------------------------------------------------------

// R24.1 — fresh records win over cached ones in the union.
func ruleFreshWinsOverCache(c *Ctx) {
	const rule = "R24.1"
	s := c.S(rule, "(*contrib/ondiskagg/aggtrigger.OnDiskAggTrigger).Fire")
	if s == nil {
		return
	}
	c.F(rule, "utils/io.ColumnSeriesUnion")
	// contract of ColumnSeriesUnion: the right operand overwrites (its loop over right runs after the loop over left)
	if u := c.S(rule, "utils/io.ColumnSeriesUnion"); u != nil && u.Type.Params != nil {
		var names []types.Object
		for _, f := range u.Type.Params.List {
			for _, nm := range f.Names {
				names = append(names, objOf(u.Info, nm))
			}
		}
		var order []int
		u.walk(func(n ast.Node) bool {
			if rs, ok := n.(*ast.RangeStmt); ok {
				if cx, ok := unparen(rs.X).(*ast.CallExpr); ok && strings.HasSuffix(CalleeName(u.Info, cx), ".GetEpoch") {
					if sel, ok := unparen(cx.Fun).(*ast.SelectorExpr); ok {
						for i, o := range names {
							if identObj(u.Info, sel.X) == o {
								order = append(order, i)
							}
						}
					}
				}
			}
			return true
		})

		c.Check(len(order) == 2 && order[0] == 0 && order[1] == 1, rule, u.Name, "right-operand-wins", c.P.Pos(u.Body.Pos()), "ColumnSeriesUnion records the left operand's epochs first and the right operand's after them: on duplicates the RIGHT operand wins")
	}
	n := 0
	for _, site := range s.sites(callPred(s, "utils/io.ColumnSeriesUnion")) {
		n++
		cx := site.(*ast.CallExpr)
		fromRecords := func(e ast.Expr) bool {
			o := identObj(s.Info, e)
			if o == nil {
				return false
			}
			ok := false
			s.walk(func(m ast.Node) bool {
				if as, isAs := m.(*ast.AssignStmt); isAs && len(as.Rhs) == 1 && len(as.Lhs) >= 1 && identObj(s.Info, as.Lhs[0]) == o {
					if call, isC := unparen(as.Rhs[0]).(*ast.CallExpr); isC && strings.HasSuffix(CalleeName(s.Info, call), "trigger.RecordsToColumnSeries") {
						ok = true
					}
				}
				return true
			})

			return ok
		}
		cached := func(e ast.Expr) bool {
			return strings.Contains(canonExpr(s.Info, e), "cachedAgg.cs")
		}
		ok := fromRecords(cx.Args[1]) && cached(cx.Args[0])
		c.Check(ok, rule, s.Name, "union-operand-order", c.P.Pos(cx.Pos()),
			"ColumnSeriesUnion(left, right) lets RIGHT win: the right operand must be the series built from the just-written records and the left the cached one (otherwise rewritten base bars are masked by the stale cache); found left="+canonExpr(s.Info, cx.Args[0])+" right="+canonExpr(s.Info, cx.Args[1]))
	}
	c.Floor(rule, s.Name, "ColumnSeriesUnion call sites", n, 1)
	// R24.3: the aggregate write's error is not dropped
	c.checkErrorsNotDropped("R24.3", []string{"executor.WriteCSM"}, func(f *Func) bool { return strings.HasPrefix(f.PkgShort(), "contrib/ondiskagg") }, 1,
		"a failed write of the aggregated bars must not be silent", true)
}

// ---- C25 -----------------------------------------------------------------------------------

func ruleReplicaRecordType(c *Ctx) {
	const rule = "R25.1"
	s := c.S(rule, "(*replication.ReplayerImpl).Replay")
	if s == nil {
		return
	}
	file := c.P.FileOf(s.Pkg, s.Body.Pos())
	par := c.P.Parents(file)
	n := 0
	s.walk(func(m ast.Node) bool {
		cx, ok := m.(*ast.CallExpr)
		if !ok || fieldKey(s.Info, cx.Fun) != "replication.ReplayerImpl.writeFunc" || len(cx.Args) != 2 {
			return true
		}
		n++

		var loopVars []types.Object
		for p := par[cx]; p != nil; p = par[p] {
			if li := asLoop(s.Info, p); li != nil {
				if li.Index != nil {
					loopVars = append(loopVars, li.Index)
				}
				for o := range li.Elems {
					loopVars = append(loopVars, o)
				}
				// copies of the element / index made inside the body (x := elem)
				walkAll(li.Body, func(k ast.Node) bool {
					if as, ok := k.(*ast.AssignStmt); ok && as.Tok == token.DEFINE && len(as.Lhs) == 1 && len(as.Rhs) == 1 {
						for _, lv := range loopVars {
							if identObj(s.Info, as.Rhs[0]) == lv || li.isElem(s.Info, as.Rhs[0]) {
								if o := identObj(s.Info, as.Lhs[0]); o != nil {
									loopVars = append(loopVars, o)
								}
							}
						}
					}
					return true
				})

				break
			}
		}
		dep := false
		for _, lv := range loopVars {
			if mentions(s.Info, cx.Args[1], lv) {
				dep = true
			}
		}
		c.Check(dep, rule, s.Name, "record-type-from-loop-variable", c.P.Pos(cx.Pos()),
			"the isVariableLength argument of writeFunc derives from the write set being replayed in this iteration (found: "+canonExpr(s.Info, cx.Args[1])+"); a fixed element applies one record type to every set of a mixed transaction group")
		return true
	})

	c.Floor(rule, s.Name, "writeFunc call sites", n, 1)
}

func ruleReplicateWhatWasLogged(c *Ctx) {
	const rule = "R25.3"
	s := c.S(rule, fnFlushCommandsToWAL)
	if s == nil {
		return
	}
	send := func(sub, top ast.Node) bool {
		cx, ok := sub.(*ast.CallExpr)
		return ok && CalleeName(s.Info, cx) == "(executor.ReplicationSender).Send"
	}
	r := s.Run(Query{Target: send, Barrier: walSyncPred(s), NeedOK: true})
	c.Floor(rule, s.Name, "ReplicationSender.Send sites", r.TargetSites, 1)
	c.reportHits(rule, s, "replicate-after-fsync", r, "a transaction is handed to the replicas only after it was fsynced to the master's WAL", "a transaction can reach replicas before it is durable on the master")
	// same bytes
	var tg types.Object
	s.walk(func(n ast.Node) bool {
		if as, ok := n.(*ast.AssignStmt); ok && len(as.Rhs) == 1 {
			if cx, ok := unparen(as.Rhs[0]).(*ast.CallExpr); ok && CalleeName(s.Info, cx) == fnSerializeTG && len(as.Lhs) > 0 {
				tg = identObj(s.Info, as.Lhs[0])
			}
		}
		return true
	})

	for _, n := range s.sites(send) {
		cx := n.(*ast.CallExpr)
		c.Check(tg != nil && len(cx.Args) == 1 && identObj(s.Info, cx.Args[0]) == tg, rule, s.Name, "replicates-the-logged-bytes", c.P.Pos(cx.Pos()), "the replicas receive exactly the serialized TG that was written to the WAL")
	}
	// R25.4: the replica decodes with the WAL's own parser
	const r4 = "R25.4"
	if di := c.S(r4, "(*internal/di.Container).GetReplicationClientWithRetry"); di != nil {
		ok := false
		for _, n := range di.sites(callPred(di, "replication.NewReplayer")) {
			cx := n.(*ast.CallExpr)
			if len(cx.Args) >= 1 && objKey(di.Info, cx.Args[0]) == "executor.ParseTGData" {
				ok = true
			}
		}
		c.Check(ok, r4, di.Name, "replica-uses-ParseTGData", c.P.Pos(di.Body.Pos()), "the replica replayer is wired with executor.ParseTGData, the one parser of the WAL record format")
	}
	if ws := c.S(r4, "replication.wtSetToCS"); ws != nil {
		ok := len(ws.sites(callPred(ws, "utils/io.IndexToTime"))) >= 1
		c.Check(ok, r4, ws.Name, "epoch-from-IndexToTime", c.P.Pos(ws.Body.Pos()), "the replica rebuilds row times from the logged slot index with io.IndexToTime (the inverse of the master's TimeToIndex)")
	}
}

// ---- C32 -----------------------------------------------------------------------------------

func ruleTriggerDispatch(c *Ctx) {
	const rule = "R32.1"
	s := c.S(rule, fnFlushCommandsToWAL)
	if s == nil {
		return
	}
	// every element of the slice handed to writePrimary is recorded with AppendRecord
	var writesObj types.Object
	for _, n := range s.sites(callPred(s, fnWritePrimary)) {
		cx := n.(*ast.CallExpr)
		if len(cx.Args) >= 2 {
			writesObj = identObj(s.Info, cx.Args[1])
		}
	}
	ok := false
	var pos ast.Node = s.Body
	s.walk(func(n ast.Node) bool {
		li := asLoop(s.Info, n)
		if li == nil || li.Over == nil || writesObj == nil || identObj(s.Info, li.Over) != writesObj {
			return true
		}
		if fs, isFor := n.(*ast.ForStmt); isFor {
			// the indexed form must visit every element: i := 0; i < len(writes); i++
			inc, isInc := fs.Post.(*ast.IncDecStmt)
			as, isAs := fs.Init.(*ast.AssignStmt)
			zero := false
			if isAs && len(as.Rhs) == 1 {
				v, isC := constInt(s.Info, as.Rhs[0])
				zero = isC && v == 0
			}
			if !isInc || inc.Tok != token.INC || !zero {
				return true
			}
		}

		for _, st := range li.Body.List {
			es, isE := st.(*ast.ExprStmt)
			if !isE {
				continue
			}
			cx, isC := es.X.(*ast.CallExpr)
			if !isC || CalleeName(s.Info, cx) != "(*executor.TriggerPluginDispatcher).AppendRecord" || len(cx.Args) != 2 {
				continue
			}
			if in, isIn := unparen(cx.Args[1]).(*ast.CallExpr); isIn && CalleeName(s.Info, in) == "(executor/wal.OffsetIndexBuffer).IndexAndPayload" {
				if sel, isSel := unparen(in.Fun).(*ast.SelectorExpr); isSel && li.isElem(s.Info, sel.X) {
					ok = true
					pos = cx
				}
			}
		}
		return true
	})

	c.Check(ok, rule, s.Name, "every-applied-write-is-recorded", c.P.Pos(pos.Pos()), "the slice handed to writePrimary is ranged over and every element's index+payload is passed unconditionally to AppendRecord")
	// DispatchRecords runs on every exit (deferred before any return)
	deferred := func(sub, top ast.Node) bool {
		d, isD := sub.(*ast.DeferStmt)
		return isD && CalleeName(s.Info, d.Call) == "(*executor.TriggerPluginDispatcher).DispatchRecords"
	}
	r := s.Run(Query{Barrier: deferred, ExitIsTarget: true})
	c.Floor(rule, s.Name, "deferred DispatchRecords", r.BarrierSites, 1)
	c.reportHits(rule, s, "dispatch-on-every-exit", r, "DispatchRecords is deferred before any return of the flush", "a flush can return without dispatching the recorded writes to the triggers")
	// R32.2: dispatch drains, and only the flush feeds it
	const r2 = "R32.2"
	if d := c.S(r2, "(*executor.TriggerPluginDispatcher).DispatchRecords"); d != nil {
		reset := func(sub, top ast.Node) bool {
			as, isAs := sub.(*ast.AssignStmt)
			if !isAs {
				return false
			}
			for _, l := range as.Lhs {
				if fieldKey(d.Info, l) == "executor.TriggerPluginDispatcher.m" {
					return true
				}
			}
			return false
		}
		rr := d.Run(Query{Barrier: reset, ExitIsTarget: true})
		c.reportHits(r2, d, "pending-map-reset-after-dispatch", rr, "the pending record map is reset on every exit of DispatchRecords", "dispatched records stay pending: the next flush dispatches them again (duplicates)")
		rs := d.Run(Query{Start: reset, Target: func(sub, top ast.Node) bool { _, isSend := sub.(*ast.SendStmt); return isSend }})
		c.reportHits(r2, d, "no-send-after-reset", rs, "nothing is sent after the reset", "records are sent after the map was reset")
	}
	gate := map[string]string{fnFlushCommandsToWAL: "the flush"}
	c.checkDominated(r2, "(*executor.TriggerPluginDispatcher).AppendRecord", gate, "trigger record queue (replay deliberately fires no trigger)")
	c.checkDominated(r2, "(*executor.TriggerPluginDispatcher).DispatchRecords", gate, "trigger dispatch")
	// R32.3: one fire per matching matcher
	const r3 = "R32.3"
	if run := c.S(r3, "(*executor.TriggerPluginDispatcher).run"); run != nil {
		goFire := func(sub, top ast.Node) bool {
			g, isG := sub.(*ast.GoStmt)
			return isG && CalleeName(run.Info, g.Call) == "(*executor.TriggerPluginDispatcher).fire"
		}
		matched := func(f []Fact) bool {
			for _, x := range f {
				if cx, isC := unparen(x.Expr).(*ast.CallExpr); isC && x.Val && CalleeName(run.Info, cx) == "(*plugins/trigger.Matcher).Match" {
					return true
				}
			}
			return false
		}
		c.onlyThroughEdge(r3, run, "fire-only-on-match", goFire, matched, 1, "a trigger is fired only on the Match(key) == true edge", "a trigger can be fired for a key its pattern does not match")
		ra := run.Run(Query{Target: goFire, Barrier: func(sub, top ast.Node) bool {
			cx, isC := sub.(*ast.CallExpr)
			return isC && CalleeName(run.Info, cx) == "(*sync.WaitGroup).Add"
		}})
		c.reportHits(r3, run, "waitgroup-add-before-go", ra, "triggerWg.Add precedes the go statement", "the trigger goroutine is started before it is counted (Shutdown may not wait for it)")
		// the go statement is inside a range over all matchers
		file := c.P.FileOf(run.Pkg, run.Body.Pos())
		par := c.P.Parents(file)
		okLoop := false
		for _, n := range run.sites(goFire) {
			for p := par[n]; p != nil; p = par[p] {
				if rs, isR := p.(*ast.RangeStmt); isR && fieldKey(run.Info, rs.X) == "executor.TriggerPluginDispatcher.triggerMatchers" {
					okLoop = true
				}
			}
		}
		c.Check(okLoop, r3, run.Name, "all-matchers-consulted", c.P.Pos(run.Body.Pos()), "every registered matcher is consulted for every dispatched key")
	}
	// R32.4: matching is anchored
	const r4 = "R32.4"
	if m := c.S(r4, "(*plugins/trigger.Matcher).Match"); m != nil {
		hasStart, hasEnd, quoted := false, false, false
		m.walk(func(n ast.Node) bool {
			if bl, isB := n.(*ast.BasicLit); isB && bl.Kind == token.STRING {
				if v, ok := constString(m.Info, bl); ok {
					if strings.HasPrefix(v, "^") || strings.HasPrefix(v, "(^|/)") {
						hasStart = true
					}
					if strings.HasSuffix(v, "$") {
						hasEnd = true
					}
				}
			}
			if cx, isC := n.(*ast.CallExpr); isC && CalleeName(m.Info, cx) == "regexp.QuoteMeta" {
				quoted = true
			}
			return true
		})

		usesRegexp := len(m.sites(callPred(m, "regexp.MatchString", "regexp.MustCompile", "regexp.Compile"))) > 0
		if !usesRegexp {
			c.Hold(r4, m.Name, "anchored-pattern", c.P.Pos(m.Body.Pos()), "Match does not build a regular expression from the trigger pattern")
		} else if hasStart && hasEnd && quoted {
			c.Hold(r4, m.Name, "anchored-pattern", c.P.Pos(m.Body.Pos()), "the regular expression built from the trigger pattern is anchored and its literal parts are escaped")
		} else {
			c.Violate(r4, m.Name, "anchored-pattern", c.P.Pos(m.Body.Pos()),
				fmt.Sprintf("the trigger pattern is turned into an UNANCHORED, unescaped regular expression (start anchor %v, end anchor %v, QuoteMeta %v): `*/1Min/OHLCV` also matches X/1Min/OHLCVX/2020.bin, so triggers for other buckets do see the write", hasStart, hasEnd, quoted), nil)
		}
	}
}

// ---- C33 -----------------------------------------------------------------------------------

func ruleCSVImport(c *Ctx) {
	const rule = "R33.1"
	if c.S(rule, "cmd/connect/loader.CSVtoNumpyMulti") == nil {
		return
	}
	n := 0
	var helpers []string
	for _, fn := range c.P.NonTestFuncs() {
		if fn.PkgShort() != "cmd/connect/loader" || fn.Decl.Body == nil {
			continue
		}
		s := c.P.ScopeOf(fn)
		sites := s.sites(callPred(s, "(*encoding/csv.Reader).Read"))
		if len(sites) > 0 && fn.Key != "cmd/connect/loader.CSVtoNumpyMulti" && fn.Key != "cmd/connect/loader.ReadMetadata" {
			helpers = append(helpers, fn.Key)
		}
		if fn.Key == "cmd/connect/loader.ReadMetadata" {
			continue // reads the header line only; its error handling is covered by R33.4
		}
		n += c.csvReadSites(rule, s, sites)
	}
	c.Floor(rule, "cmd/connect/loader", "csv.Reader.Read sites in the row loop", n, 1)
	if len(helpers) > 0 {
		// the row loop was extracted: the helper's error must be propagated by its callers
		c.checkErrorsNotDropped(rule, helpers, func(f *Func) bool { return f.PkgShort() == "cmd/connect/loader" }, 1,
			"the error of the extracted row-reading helper must reach the caller of the import", false)
	}
	c.csvRest()
}

func (c *Ctx) csvReadSites(rule string, s *Scope, sites []ast.Node) int {
	n := 0
	for _, site := range sites {
		n++
		call := site.(*ast.CallExpr)
		top := s.topOf(call)
		obj, ok := assignedLastResult(s.Info, top, call)
		if !ok || obj == nil {
			c.Violate(rule, s.Name, "csv-read-error-bound", c.P.Pos(call.Pos()), "the error of csv.Reader.Read is discarded", nil)
			continue
		}
		q := Query{
			Start: func(sub, _ ast.Node) bool { return sub == ast.Node(call) },
			Exempt: func(f []Fact) bool {
				for _, x := range f {
					if o, trueNonNil, isNil := nilTest(s.Info, x.Expr); isNil && o == obj && x.Val != trueNonNil {
						return true // no error
					}
					if cx, isC := unparen(x.Expr).(*ast.CallExpr); isC && x.Val && CalleeName(s.Info, cx) == "errors.Is" && len(cx.Args) == 2 && objKey(s.Info, cx.Args[1]) == "io.EOF" {
						return true // end of file
					}
					if b, isB := isCompare(x.Expr, token.EQL); isB && x.Val && (objKey(s.Info, b.Y) == "io.EOF" || objKey(s.Info, b.X) == "io.EOF") {
						return true
					}
					if b, isB := isCompare(x.Expr, token.NEQ); isB && !x.Val && (objKey(s.Info, b.Y) == "io.EOF" || objKey(s.Info, b.X) == "io.EOF") {
						return true
					}
				}
				return false
			},
			ExitIsTarget: true, OnlyNilErrorReturns: true,
		}
		r := s.Run(q)
		if len(r.Hits) == 0 {
			c.Hold(rule, s.Name, "only-EOF-ends-the-read-loop", c.P.Pos(call.Pos()), "a read error other than io.EOF cannot lead to a successful return")
		} else {
			c.Violate(rule, s.Name, "only-EOF-ends-the-read-loop", c.P.Pos(call.Pos()),
				"any error of csv.Reader.Read (wrong field count, bare quote, I/O error) is treated as end of file: the remaining rows are dropped and the import reports success", r.Hits[0].Path)
		}
	}
	return n
}

func (c *Ctx) csvRest() {
	// R33.2: a failed time parse is an error, not an empty result
	const r2 = "R33.2"
	if cv := c.S(r2, "cmd/connect/loader.convertCSVtoCSM"); cv != nil {
		var ep types.Object
		cv.walk(func(m ast.Node) bool {
			if as, ok := m.(*ast.AssignStmt); ok && len(as.Rhs) == 1 && len(as.Lhs) >= 1 {
				if cx, ok := unparen(as.Rhs[0]).(*ast.CallExpr); ok && CalleeName(cv.Info, cx) == "cmd/connect/loader.readTimeColumns" {
					ep = identObj(cv.Info, as.Lhs[0])
				}
			}
			return true
		})

		if ep == nil {
			c.Undecided(r2, cv.Name, "time-columns", "result of readTimeColumns not found")
		} else {
			// follow only the `epochCol == nil` edge: every return reachable must carry a non-nil error
			r := cv.Run(Query{ExitIsTarget: true, OnlyNilErrorReturns: true, Exempt: func(f []Fact) bool {
				for _, x := range f {
					if o, trueNonNil, isNil := nilTest(cv.Info, x.Expr); isNil && o == ep && x.Val == trueNonNil {
						return true // epochCol != nil edge
					}
				}
				return false
			}})
			if len(r.Hits) == 0 {
				c.Hold(r2, cv.Name, "time-parse-failure-is-an-error", c.P.Pos(cv.Body.Pos()), "when the time columns cannot be built the function returns a non-nil error")
			} else {
				c.Violate(r2, cv.Name, "time-parse-failure-is-an-error", r.Hits[0].Pos,
					"when the time columns cannot be parsed the function returns (nil, nil): the caller dereferences the nil series (panic) or loads nothing without an error", r.Hits[0].Path)
			}
		}
	}
	// R33.3: conversion errors propagate
	c.checkErrorsNotDropped("R33.3", []string{"strconv.ParseFloat", "strconv.ParseInt", "strconv.ParseUint", "strconv.Atoi", "time.Parse", "time.ParseInLocation", "time.LoadLocation"},
		func(f *Func) bool { return f.PkgShort() == "cmd/connect/loader" }, 4,
		"a value that cannot be parsed must fail the import instead of loading a zero", true)
	// R33.4: every chunk is written and write errors are returned
	c.checkErrorsNotDropped("R33.4", []string{"cmd/connect/loader.CSVtoNumpyMulti", "cmd/connect/session.writeNumpy", "cmd/connect/loader.convertCSVtoCSM", "cmd/connect/loader.columnSeriesMapFromCSVData"},
		func(f *Func) bool { return strings.HasPrefix(f.PkgShort(), "cmd/connect") }, 3,
		"a failed chunk must fail the import", false)
}
