package main

// Rules added after the first round of independently seeded changes (DESIGN.md §9).

import (
	"fmt"
	"go/ast"
	"go/token"
	"go/types"
	"strings"
)

// R34.8 — a wal.ReplayError is recognised through error wrapping.
// Replay wraps the error of replayTGData with %w, so the tolerated class must be detected with
// errors.As / errors.Is; a type assertion or type switch on the error value misses the wrapped
// ReplayError{Cont:true} (file cannot be opened), the WAL is not moved aside and startup panics.
func ruleReplayErrorUnwrapped(c *Ctx) {
	const rule = "R34.8"
	rp := c.S(rule, fnReplay)
	cl := c.S(rule, fnCleanup)
	if rp == nil || cl == nil {
		return
	}
	// does Replay wrap? (fmt.Errorf with a %w verb whose operands mention the error of replayTGData)
	wraps := 0
	for _, n := range rp.sites(callPred(rp, fnReplayTGData)) {
		call := n.(*ast.CallExpr)
		obj, ok := assignedLastResult(rp.Info, rp.topOf(call), call)
		if !ok || obj == nil {
			continue
		}
		rp.walk(func(m ast.Node) bool {
			cx, isC := m.(*ast.CallExpr)
			if !isC || CalleeName(rp.Info, cx) != "fmt.Errorf" || len(cx.Args) < 2 {
				return true
			}
			if f, isS := constString(rp.Info, cx.Args[0]); isS && strings.Contains(f, "%w") {
				for _, a := range cx.Args[1:] {
					if identObj(rp.Info, a) == obj {
						wraps++
					}
				}
			}
			return true
		})

	}
	// classification sites in the cleaner: every test of "is it a ReplayError" on Replay's error
	var errObj types.Object
	for _, n := range cl.sites(callPred(cl, fnReplay)) {
		call := n.(*ast.CallExpr)
		if o, ok := assignedLastResult(cl.Info, cl.topOf(call), call); ok {
			errObj = o
		}
	}
	if errObj == nil {
		c.Undecided(rule, cl.Name, "replay-error-bound", "error of Replay not bound in CleanupOldWALFiles")
		return
	}
	// the error may be handed on to an extracted helper: its parameter carries the same value
	carriers := map[types.Object]bool{errObj: true}
	for round := 0; round < 3; round++ {
		cl.walk(func(m ast.Node) bool {
			cx, ok := m.(*ast.CallExpr)
			if !ok {
				return true
			}
			h := c.P.Funcs[CalleeName(cl.Info, cx)]
			if h == nil || h.Pkg != cl.Pkg {
				return true
			}
			for i, a := range cx.Args {
				if o := identObj(cl.Info, a); o != nil && carriers[o] {
					if po := paramObj(h, i); po != nil {
						carriers[po] = true
					}
				}
			}
			return true
		})
	}
	asCalls, asserts := 0, 0
	var pos ast.Node = cl.Body
	cl.walk(func(m ast.Node) bool {
		switch x := m.(type) {
		case *ast.CallExpr:
			if nm := CalleeName(cl.Info, x); (nm == "errors.As" || nm == "errors.Is") && len(x.Args) == 2 && carriers[identObj(cl.Info, x.Args[0])] {
				if strings.Contains(typeShort(cl.Info.TypeOf(x.Args[1])), "executor/wal.ReplayError") {
					asCalls++
				}
			}
		case *ast.TypeAssertExpr:
			if carriers[identObj(cl.Info, x.X)] {
				asserts++
				pos = x
			}
		}
		return true
	})

	c.Note("R34.8: Replay wraps replayTGData's error with %%w at %d site(s)", wraps)
	switch {
	case asserts > 0 && wraps > 0:
		c.Violate(rule, cl.Name, "replay-error-class-through-wrapping", c.P.Pos(pos.Pos()),
			"the cleaner classifies Replay's error with a type assertion / type switch, but Replay wraps the ReplayError of replayTGData with %w: the wrapped, tolerated error (e.g. a bucket file that no longer exists) is not recognised, the WAL file is not moved aside and startup panics", nil)
	case asCalls == 0:
		c.Violate(rule, cl.Name, "replay-error-class-through-wrapping", c.P.Pos(cl.Body.Pos()),
			"the cleaner never tests Replay's error for the tolerated class wal.ReplayError with errors.As/errors.Is", nil)
	default:
		c.Hold(rule, cl.Name, "replay-error-class-through-wrapping", c.P.Pos(cl.Body.Pos()), fmt.Sprintf("ReplayError is detected with errors.As/Is (%d site(s)), which sees through Replay's %%w wrapping", asCalls))
	}
}

// R9.5 — the record count handed to the sort covers the MERGED buffer.
func ruleSortCoversMergedData(c *Ctx) {
	const rule = "R9.5"
	s := c.S(rule, fnWBTFI)
	if s == nil {
		return
	}
	n := 0
	for _, site := range s.sites(callPred(s, "executor.NewByIntervalTicks")) {
		n++
		call := site.(*ast.CallExpr)
		buf := identObj(s.Info, call.Args[0])
		if buf == nil || len(call.Args) < 3 {
			c.Undecided(rule, s.Name, "sorted-buffer", "sorted buffer is not a local variable")
			continue
		}
		count := call.Args[1]
		lenOfBuf := func(e ast.Node) bool {
			found := false
			walkAll(e, func(m ast.Node) bool {
				if cx, ok := m.(*ast.CallExpr); ok && CalleeName(s.Info, cx) == "builtin.len" && len(cx.Args) == 1 && identObj(s.Info, cx.Args[0]) == buf {
					found = true
				}
				return !found
			})
			return found
		}
		if lenOfBuf(count) {
			c.Hold(rule, s.Name, "sort-count-from-merged-buffer", c.P.Pos(call.Pos()), "the record count is computed from len(buffer) at the sort call itself")
			continue
		}
		// variables the count is computed from
		vars := map[types.Object]bool{}
		walkAll(count, func(m ast.Node) bool {
			if id, ok := m.(*ast.Ident); ok {
				if v, isVar := objOf(s.Info, id).(*types.Var); isVar && !isParam(s, v) {
					vars[v] = true
				}
			}
			return true
		})
		assignBuf := func(sub, top ast.Node) bool {
			as, ok := sub.(*ast.AssignStmt)
			if !ok {
				return false
			}
			for _, l := range as.Lhs {
				if identObj(s.Info, l) == buf {
					return true
				}
			}
			return false
		}
		recompute := func(sub, top ast.Node) bool {
			as, ok := sub.(*ast.AssignStmt)
			if !ok {
				return false
			}
			for i, l := range as.Lhs {
				if vars[identObj(s.Info, l)] && i < len(as.Rhs) && lenOfBuf(as.Rhs[i]) {
					return true
				}
			}
			return false
		}
		r := s.Run(Query{Start: assignBuf, Target: func(sub, _ ast.Node) bool { return sub == ast.Node(call) }, Barrier: recompute})
		c.Floor(rule, s.Name, "assignments to the sorted buffer", r.StartSites, 2)
		c.reportHits(rule, s, "sort-count-from-merged-buffer", r,
			"after every (re)assignment of the buffer — in particular after old records were prepended — the record count is recomputed from len(buffer) before the sort",
			"the sort's record count is not recomputed after the stored records were merged in: only a prefix of old+new is sorted and late records stay out of time order")
	}
	c.Floor(rule, s.Name, "NewByIntervalTicks sites", n, 1)
}

// R15.5 — header text fields are copied into the WHOLE slot.
func ruleHeaderFullSlotCopy(c *Ctx) {
	const rule = "R15.5"
	s := c.S(rule, "(*utils/io.Header).Load")
	if s == nil {
		return
	}
	isHdrField := func(sc *Scope, e ast.Node) bool {
		found := false
		walkAll(e, func(m ast.Node) bool {
			if k := fieldKeyNode(sc.Info, m); k == "utils/io.Header.ElementNames" || k == "utils/io.Header.Description" {
				found = true
			}
			return !found
		})
		return found
	}
	n := 0
	checkCopies := func(sc *Scope, dstIsSlot func(ast.Expr) bool) {
		for _, site := range sc.sites(func(sub, top ast.Node) bool { return isCall(sc.Info, sub, "builtin.copy") }) {
			call := site.(*ast.CallExpr)
			dst := unparen(call.Args[0])
			base := dst
			bounded := false
			if se, ok := dst.(*ast.SliceExpr); ok {
				base = se.X
				bounded = se.Low != nil || se.High != nil
			}
			if !dstIsSlot(base) {
				continue
			}
			n++
			c.Check(!bounded, rule, sc.Name, "copy-into-whole-slot", c.P.Pos(call.Pos()),
				"text is copied into the whole header slot (a bounded destination such as slot[:len-1] silently drops bytes of names that fit the slot exactly)")
		}
	}
	checkCopies(s, func(e ast.Expr) bool { return isHdrField(s, e) })
	// helpers that receive a header slot as a []byte parameter
	s.walk(func(m ast.Node) bool {
		cx, ok := m.(*ast.CallExpr)
		if !ok {
			return true
		}
		callee := c.P.Funcs[CalleeName(s.Info, cx)]
		if callee == nil || callee.Decl.Body == nil || callee.Decl.Type.Params == nil {
			return true
		}
		var params []types.Object
		for _, f := range callee.Decl.Type.Params.List {
			for _, nm := range f.Names {
				params = append(params, objOf(callee.Pkg.TypesInfo, nm))
			}
		}
		slots := map[types.Object]bool{}
		for i, a := range cx.Args {
			if isHdrField(s, a) && i < len(params) {
				slots[params[i]] = true
			}
		}
		if len(slots) == 0 {
			return true
		}
		hs := c.P.ScopeOf(callee)
		checkCopies(hs, func(e ast.Expr) bool { return slots[identObj(hs.Info, e)] })
		return true
	})

	c.Floor(rule, s.Name, "copies into header text slots", n, 2)
}

// R26.4 — the stream map key identifies ONE stream: it is the peer address unaltered (or any
// other per-connection value), never a lossy projection of it.
func ruleStreamKeyLossless(c *Ctx) {
	const rule = "R26.4"
	s := c.S(rule, "(*replication.GRPCReplicationServer).GetWALStream")
	if s == nil {
		return
	}
	lossy := map[string]bool{"net.SplitHostPort": true, "strings.Split": true, "strings.SplitN": true, "strings.Cut": true, "strings.TrimSuffix": true,
		"strings.TrimRight": true, "strings.TrimPrefix": true, "strings.Index": true, "strings.LastIndex": true, "strings.Fields": true, "net.ParseIP": true, "(*net.TCPAddr).IP": true}
	var keyExprs []ast.Expr
	s.walk(func(m ast.Node) bool {
		if as, ok := m.(*ast.AssignStmt); ok {
			for _, l := range as.Lhs {
				if ix, ok := unparen(l).(*ast.IndexExpr); ok && fieldKey(s.Info, ix.X) == "replication.GRPCReplicationServer.StreamChannels" {
					keyExprs = append(keyExprs, ix.Index)
				}
			}
		}
		return true
	})

	c.Floor(rule, s.Name, "stream map inserts", len(keyExprs), 1)
	for _, k := range keyExprs {
		bad := ""
		seen := map[string]bool{}
		var follow func(sc *Scope, e ast.Node, depth int)
		follow = func(sc *Scope, e ast.Node, depth int) {
			if depth > 4 || bad != "" {
				return
			}
			walkAll(e, func(m ast.Node) bool {
				switch x := m.(type) {
				case *ast.CallExpr:
					nm := CalleeName(sc.Info, x)
					if lossy[nm] {
						bad = nm
						return false
					}
					if fn := c.P.Funcs[nm]; fn != nil && fn.Decl.Body != nil && !seen[nm] {
						seen[nm] = true
						fs := c.P.ScopeOf(fn)
						walkAll(fn.Decl.Body, func(r ast.Node) bool {
							if ret, ok := r.(*ast.ReturnStmt); ok && len(ret.Results) > 0 {
								follow(fs, ret.Results[0], depth+1)
							}
							return true
						})

					}
				case *ast.SliceExpr:
					if b, ok := sc.Info.TypeOf(x.X).Underlying().(*types.Basic); ok && b.Kind() == types.String {
						bad = "string re-slicing"
						return false
					}
				case *ast.Ident:
					if v, ok := objOf(sc.Info, x).(*types.Var); ok && !v.IsField() {
						sc.walk(func(d ast.Node) bool {
							if as, ok := d.(*ast.AssignStmt); ok {
								for i, l := range as.Lhs {
									if identObj(sc.Info, l) == v {
										key := sc.Name + ":" + v.Name() + fmt.Sprint(as.Pos())
										if seen[key] {
											continue
										}
										seen[key] = true
										if len(as.Rhs) == len(as.Lhs) {
											follow(sc, as.Rhs[i], depth+1)
										} else if len(as.Rhs) == 1 {
											follow(sc, as.Rhs[0], depth+1)
										}
									}
								}
							}
							return true
						})

					}
				}
				return bad == ""
			})
		}
		follow(s, k, 0)
		c.Check(bad == "", rule, s.Name, "stream-key-identifies-one-stream", c.P.Pos(k.Pos()),
			"the key under which a replica's stream is registered derives from the peer address without a lossy transformation"+
				map[bool]string{true: "", false: " — found " + bad + ": two replicas behind one host share a key, the second overwrites the first one's channel and either one's disconnect removes both"}[bad == ""])
	}
}

// R18.6 — the lazy header load of TimeBucketInfo runs only under its sync.Once.
func ruleLazyLoadOnce(c *Ctx) {
	const rule = "R18.6"
	c.F(rule, "(*utils/io.TimeBucketInfo).initFromFile")
	n, guarded := 0, 0
	for _, e := range c.P.CG().In["(*utils/io.TimeBucketInfo).initFromFile"] {
		if c.P.IsTestFile(e.From.Decl.Pos()) {
			continue
		}
		n++
		info := e.From.Pkg.TypesInfo
		file := c.P.FileOf(e.From.Pkg, e.From.Decl.Pos())
		par := c.P.Parents(file)
		ok := false
		if e.Kind == "ref" {
			// method value passed to (*sync.Once).Do on the same object's once field
			var node ast.Node = e.Node
			for p := par[node]; p != nil; p = par[p] {
				if cx, isC := p.(*ast.CallExpr); isC {
					if CalleeName(info, cx) == "(*sync.Once).Do" && recvField(info, cx) == "utils/io.TimeBucketInfo.once" {
						ok = true
					}
					break
				}
				if _, isStmt := p.(ast.Stmt); isStmt {
					break
				}
			}
		}
		if ok {
			guarded++
			continue
		}
		c.Violate(rule, e.From.Key, "lazy-load-under-once", e.Pos,
			"initFromFile (which fills the shared TimeBucketInfo from the file header) is invoked directly instead of through f.once.Do: concurrent first users load concurrently while others read half-filled fields (wrong/duplicated columns, index out of range)", nil)
	}
	if n == guarded {
		c.Hold(rule, "(*utils/io.TimeBucketInfo).initFromFile", "lazy-load-under-once", c.P.Pos(c.P.Funcs["(*utils/io.TimeBucketInfo).initFromFile"].Decl.Pos()), fmt.Sprintf("all %d uses of initFromFile are f.once.Do(f.initFromFile)", n))
	}
	c.Floor(rule, "utils/io", "uses of initFromFile", n, 8)
	// the lazily loaded fields are read only in methods that first call once.Do
	lazy := map[string]bool{"utils/io.TimeBucketInfo.elementNames": true, "utils/io.TimeBucketInfo.elementTypes": true, "utils/io.TimeBucketInfo.recordLength": true,
		"utils/io.TimeBucketInfo.recordType": true, "utils/io.TimeBucketInfo.timeframe": true, "utils/io.TimeBucketInfo.nElements": true}
	loaders := map[string]bool{"(*utils/io.TimeBucketInfo).load": true, "(*utils/io.TimeBucketInfo).initFromFile": true, "utils/io.NewTimeBucketInfo": true,
		"utils/io.NewTimeBucketInfoFromHeader": true, "(*utils/io.TimeBucketInfo).readHeader": true,
		// mutator used only by the offline integrity tool (cmd/tool/integrity), on an info it has just read
		"(*utils/io.TimeBucketInfo).SetElementTypes": true}
	for _, sc := range c.P.scopesOfPackage("utils/io") {
		if sc.Fn == nil || loaders[sc.Fn.Key] || sc.Body != sc.Fn.Decl.Body || sc.Fn.Decl.Recv == nil {
			continue
		}
		accs := accessesIn(sc, lazy)
		if len(accs) == 0 {
			continue
		}
		recv := objOf(sc.Info, sc.Fn.Decl.Recv.List[0].Names[0])
		once := func(sub, top ast.Node) bool {
			cx, ok := sub.(*ast.CallExpr)
			return ok && CalleeName(sc.Info, cx) == "(*sync.Once).Do" && recvField(sc.Info, cx) == "utils/io.TimeBucketInfo.once"
		}
		first := accs[0]
		for _, a := range accs {
			if a.Root != recv {
				continue
			}
			first = a
			break
		}
		if first.Root != recv {
			continue
		}
		r := sc.Run(Query{Target: func(sub, _ ast.Node) bool {
			for _, a := range accs {
				if sub == ast.Node(a.Node) && a.Root == recv {
					return true
				}
			}
			return false
		}, Barrier: once})
		c.reportHits(rule, sc, "lazy-fields-read-after-once", r, "lazily loaded fields of the receiver are read only after f.once.Do(f.initFromFile)", "a lazily loaded field is read without first running the once-guarded header load")
	}
	_ = token.ADD
}
