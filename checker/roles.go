package main

// Role-based anchor resolution.
//
// Rules name their anchor functions by qualified name. A behaviour-preserving RENAME of an
// anchor must not make a check fail, so when a canonical name is not found the loader looks
// for the unique function that plays the anchor's role (a structural signature taken from what
// the function does) and registers it under the canonical name; callee resolution maps the new
// name back to the canonical one. An anchor that is neither found by name nor uniquely by role
// stays unresolved (the dependent rules then fail as "unresolved anchor").

import (
	"go/ast"
	"go/token"
	"go/types"
	"strings"
)

// aliasActualToCanon maps a renamed function's key to its canonical anchor key.
var aliasActualToCanon = map[string]string{}

type roleSpec struct {
	Canon string
	Pkg   string                      // short package path the function must live in
	Recv  string                      // receiver type name ("" = plain function, "*" = any)
	Pred  func(p *Prog, f *Func) bool // structural signature
}

func bodyHas(f *Func, pred func(info *types.Info, n ast.Node) bool) bool {
	if f.Decl.Body == nil {
		return false
	}
	found := false
	info := f.Pkg.TypesInfo
	walkAll(f.Decl.Body, func(n ast.Node) bool {
		if pred(info, n) {
			found = true
		}
		return !found
	})

	return found
}

func callsRaw(f *Func, names ...string) bool {
	return bodyHas(f, func(info *types.Info, n ast.Node) bool {
		c, ok := n.(*ast.CallExpr)
		if !ok {
			return false
		}
		nm := rawCalleeName(info, c)
		for _, w := range names {
			if nm == w {
				return true
			}
		}
		return false
	})
}

func recvName(f *Func) string {
	if f.Decl.Recv == nil || len(f.Decl.Recv.List) == 0 {
		return ""
	}
	t := f.Decl.Recv.List[0].Type
	if s, ok := t.(*ast.StarExpr); ok {
		t = s.X
	}
	if id, ok := t.(*ast.Ident); ok {
		return id.Name
	}
	return "?"
}

var roleSpecs = []roleSpec{
	{fnFlushCommandsToWAL, "executor", "WALFileType", func(p *Prog, f *Func) bool {
		return bodyHas(f, func(info *types.Info, n ast.Node) bool {
			c, ok := n.(*ast.CallExpr)
			return ok && len(c.Args) == 3 && objKey(info, c.Args[1]) == "executor.WAL" && objKey(info, c.Args[2]) == "executor.COMMITCOMPLETE"
		})
	}},
	{fnFlushToWAL, "executor", "WALFileType", func(p *Prog, f *Func) bool {
		return bodyHas(f, func(info *types.Info, n ast.Node) bool {
			u, ok := n.(*ast.UnaryExpr)
			return ok && u.Op == token.ARROW && fieldKey(info, u.X) == "executor.TransactionPipe.writeChannel"
		})
	}},
	{fnCreateCheckpoint, "executor", "WALFileType", func(p *Prog, f *Func) bool {
		return callsRaw(f, "utils/io.Syncfs") && bodyHas(f, func(info *types.Info, n ast.Node) bool {
			c, ok := n.(*ast.CallExpr)
			return ok && len(c.Args) == 3 && objKey(info, c.Args[1]) == "executor.CHECKPOINT"
		})
	}},
	{fnSyncWAL, "executor", "WALFileType", func(p *Prog, f *Func) bool {
		return bodyHas(f, func(info *types.Info, n ast.Node) bool {
			c, ok := n.(*ast.CallExpr)
			return ok && rawCalleeName(info, c) == "(*os.File).Truncate" && recvField(info, c) == fldFilePtr
		})
	}},
	{fnRequestFlush, "executor", "WALFileType", func(p *Prog, f *Func) bool {
		return bodyHas(f, func(info *types.Info, n ast.Node) bool {
			s, ok := n.(*ast.SendStmt)
			return ok && fieldKey(info, s.Chan) == "executor.TransactionPipe.flushChannel"
		})
	}},
	{fnShutdown, "executor", "WALFileType", func(p *Prog, f *Func) bool {
		return bodyHas(f, func(info *types.Info, n ast.Node) bool {
			c, ok := n.(*ast.CallExpr)
			return ok && rawCalleeName(info, c) == "(*sync.WaitGroup).Wait" && recvField(info, c) == "executor.WALFileType.walWaitGroup"
		})
	}},
	{fnReplay, "executor", "WALFileType", func(p *Prog, f *Func) bool {
		return bodyHas(f, func(info *types.Info, n ast.Node) bool {
			cc, ok := n.(*ast.CaseClause)
			if !ok {
				return false
			}
			for _, e := range cc.List {
				if objKey(info, e) == "executor.TGDATA" {
					return true
				}
			}
			return false
		}) && bodyHas(f, func(info *types.Info, n ast.Node) bool {
			c, ok := n.(*ast.CallExpr)
			return ok && strings.HasPrefix(rawCalleeName(info, c), "sort.")
		})
	}},
	{fnReplayTGData, "executor", "WALFileType", func(p *Prog, f *Func) bool {
		return bodyHas(f, func(info *types.Info, n ast.Node) bool {
			c, ok := n.(*ast.CallExpr)
			if !ok {
				return false
			}
			nm := CalleeName(info, c)
			return nm == fnWBTFI
		}) && bodyHas(f, func(info *types.Info, n ast.Node) bool {
			c, ok := n.(*ast.CallExpr)
			return ok && CalleeName(info, c) == fnWBTF
		})
	}},
	{fnReadTGData, "executor", "WALFileType", func(p *Prog, f *Func) bool { return callsRaw(f, "executor.validateCheckSum") }},
	{fnDelete, "executor", "WALFileType", func(p *Prog, f *Func) bool { return callsRaw(f, "os.Remove") }},
	{fnWTI, "executor", "WALFileType", func(p *Prog, f *Func) bool {
		return bodyHas(f, func(info *types.Info, n ast.Node) bool {
			c, ok := n.(*ast.CallExpr)
			return ok && len(c.Args) == 1 && objKey(info, c.Args[0]) == "executor.TXNINFO"
		}) && callsRaw(f, "(*os.File).Write")
	}},
	{fnWriteStatus, "executor", "WALFileType", func(p *Prog, f *Func) bool {
		return bodyHas(f, func(info *types.Info, n ast.Node) bool {
			c, ok := n.(*ast.CallExpr)
			return ok && len(c.Args) == 1 && objKey(info, c.Args[0]) == "executor.STATUS"
		}) && callsRaw(f, "(*os.File).Write")
	}},
	{fnWritePrimary, "executor", "WALFileType", func(p *Prog, f *Func) bool {
		return callsRaw(f, "executor.writeFixedBuffer") && callsRaw(f, "executor.writeVariableLengthBuffer")
	}},
	{fnQueueWriteCommand, "executor", "WALFileType", func(p *Prog, f *Func) bool {
		return bodyHas(f, func(info *types.Info, n ast.Node) bool {
			s, ok := n.(*ast.SendStmt)
			return ok && fieldKey(info, s.Chan) == "executor.TransactionPipe.writeChannel"
		})
	}},
	{fnWBTFI, "executor", "", func(p *Prog, f *Func) bool { return callsRaw(f, "executor.NewByIntervalTicks") }},
	{fnWBTF, "executor", "", func(p *Prog, f *Func) bool {
		return callsRaw(f, "(io.WriterAt).WriteAt") && callsRaw(f, "(executor/wal.OffsetIndexBuffer).IndexAndPayload")
	}},
	{fnSerializeTG, "executor", "", func(p *Prog, f *Func) bool {
		sig := f.Obj.Type().(*types.Signature)
		if sig.Results().Len() != 2 {
			return false
		}
		_, isMap := sig.Results().At(1).Type().Underlying().(*types.Map)
		return isMap && callsRaw(f, "utils/io.DSVToBytes")
	}},
	{fnParseTGData, "executor", "", func(p *Prog, f *Func) bool {
		return callsRaw(f, "utils/io.DSVFromBytes") && callsRaw(f, "executor/wal.NewWTSet")
	}},
	{fnCleanup, "executor", "WALCleaner", func(p *Prog, f *Func) bool { return callsRaw(f, "os.Stat") }},
	{fnTakeOver, "executor", "", func(p *Prog, f *Func) bool {
		return callsRaw(f, "executor.readStatus") && callsRaw(f, "(*executor.WALFileType).open")
	}},
	{fnWriteCSM, "executor", "Writer", func(p *Prog, f *Func) bool { return callsRaw(f, "utils/io.GetMissingAndTypeCoercionColumns") }},
	{fnWriteRecords, "executor", "Writer", func(p *Prog, f *Func) bool { return callsRaw(f, "utils/io.TimeToIndex") }},
	{fnGetInitWALFile, "internal/di", "Container", func(p *Prog, f *Func) bool { return callsRaw(f, "executor.NewWALFile") }},
	{"(*catalog.Directory).AddTimeBucket", "catalog", "Directory", func(p *Prog, f *Func) bool { return callsRaw(f, "os.Mkdir") }},
	{"(*catalog.Directory).RemoveTimeBucket", "catalog", "Directory", func(p *Prog, f *Func) bool { return callsRaw(f, "catalog.removeDirFiles") }},
	{"(*catalog.Directory).GetSubDirectoryAndAddFile", "catalog", "Directory", func(p *Prog, f *Func) bool {
		return callsRaw(f, "(*catalog.Directory).AddFile")
	}},
	{"(*catalog.Directory).AddFile", "catalog", "Directory", func(p *Prog, f *Func) bool {
		return callsRaw(f, "catalog.newTimeBucketInfoFromTemplate")
	}},
	{"catalog.removeDirFiles", "catalog", "", func(p *Prog, f *Func) bool { return callsRaw(f, "os.RemoveAll") }},
	{"utils/io.TimeToIndex", "utils/io", "", func(p *Prog, f *Func) bool { return callsRaw(f, "(time.Time).YearDay") }},
	{"utils/io.GetIntervalTicks32Bit", "utils/io", "", func(p *Prog, f *Func) bool {
		r := f.Obj.Type().(*types.Signature).Results()
		return r.Len() == 1 && types.TypeString(r.At(0).Type(), nil) == "uint32" && callsRaw(f, "(time.Time).Sub")
	}},
	{"executor.GetTimeFromTicks", "executor", "", func(p *Prog, f *Func) bool {
		r := f.Obj.Type().(*types.Signature).Results()
		return r.Len() == 2 && callsRaw(f, "math.Floor")
	}},
	{"executor.trimResultsToRange", "executor", "", func(p *Prog, f *Func) bool {
		ps := f.Obj.Type().(*types.Signature).Params()
		return ps.Len() == 3 && strings.HasSuffix(types.TypeString(ps.At(0).Type(), nil), "planner.DateRange") && callsRaw(f, "executor.TimeOfVariableRecord")
	}},
	{"(*executor.Reader).readSecondStage", "executor", "Reader", func(p *Prog, f *Func) bool { return callsRaw(f, "executor.RewriteBuffer") }},
	{"(*utils/io.NumpyMultiDataset).Append", "utils/io", "NumpyMultiDataset", func(p *Prog, f *Func) bool {
		ps := f.Obj.Type().(*types.Signature).Params()
		return ps.Len() == 2 && callsRaw(f, "utils/io.CastToByteSlice")
	}},
	{"(*replication.GRPCReplicationServer).GetWALStream", "replication", "GRPCReplicationServer", func(p *Prog, f *Func) bool {
		return callsRaw(f, "replication.getClientAddr")
	}},
	{"cmd/connect/loader.CSVtoNumpyMulti", "cmd/connect/loader", "", func(p *Prog, f *Func) bool { return callsRaw(f, "(*encoding/csv.Reader).Read") }},
}

// rawCalleeName is CalleeName without alias mapping.
func rawCalleeName(info *types.Info, call *ast.CallExpr) string {
	switch o := typeutilCallee(info, call).(type) {
	case *types.Func:
		return short(o.FullName())
	case *types.Builtin:
		return "builtin." + o.Name()
	}
	return ""
}

// resolveRoles registers aliases for canonical anchors that are missing by name.
func (p *Prog) resolveRoles() {
	aliasActualToCanon = map[string]string{}
	p.RoleNotes = nil
	for round := 0; round < 2; round++ { // second round: specs that refer to anchors resolved in the first
		for _, rs := range roleSpecs {
			if p.Funcs[rs.Canon] != nil {
				continue
			}
			var cands []*Func
			for _, f := range p.NonTestFuncs() {
				if f.PkgShort() != rs.Pkg || recvName(f) != rs.Recv {
					continue
				}
				if _, taken := aliasActualToCanon[f.Key]; taken {
					continue
				}
				if rs.Pred(p, f) {
					cands = append(cands, f)
				}
			}
			if len(cands) == 1 {
				f := cands[0]
				aliasActualToCanon[f.Key] = rs.Canon
				p.Funcs[rs.Canon] = f
				p.RoleNotes = append(p.RoleNotes, "anchor "+rs.Canon+" not found by name; resolved by role to "+f.Key)
				f.Key = rs.Canon
			}
		}
	}
	// generic resolution by signature: a function of the baseline list that no longer exists
	// is looked for among the functions of the same package that are NOT in the baseline list
	// and have the same receiver type and the same signature; if exactly one, it is the renamed
	// function (a pure rename of a helper, gate or anchor does not unhinge the rule tables).
	sigOf := sigString
	byPkgNew := map[string][]*Func{}
	for _, f := range p.NonTestFuncs() {
		if !baselineFuncs[f.Key] && baselineSig[f.Key] == "" {
			byPkgNew[f.PkgShort()] = append(byPkgNew[f.PkgShort()], f)
		}
	}
	for key, bs := range baselineSig {
		if p.Funcs[key] != nil || bs == "" {
			continue
		}
		pkgShort := pkgOfKey(key)
		var cands []*Func
		for _, f := range byPkgNew[pkgShort] {
			if _, taken := aliasActualToCanon[f.Key]; taken {
				continue
			}
			if sigOf(f) == bs {
				cands = append(cands, f)
			}
		}
		if len(cands) == 1 {
			f := cands[0]
			aliasActualToCanon[f.Key] = key
			p.Funcs[key] = f
			p.RoleNotes = append(p.RoleNotes, "function "+key+" not found by name; resolved by signature to the new function "+f.Key)
			f.Key = key
		}
	}
}

// pkgOfKey extracts the short package path from a function key such as
// "(*executor.WALFileType).SyncWAL" or "utils/io.TimeToIndex".
func pkgOfKey(key string) string {
	k := key
	if strings.HasPrefix(k, "(") {
		k = strings.TrimPrefix(k, "(")
		k = strings.TrimPrefix(k, "*")
		if i := strings.Index(k, ")"); i >= 0 {
			k = k[:i]
		}
	}
	if i := strings.LastIndex(k, "."); i >= 0 {
		return k[:i]
	}
	return k
}
