package main

import (
	"fmt"
	"go/ast"
	"go/constant"
	"go/token"
	"go/types"
	"sort"
	"strings"
)

// ---- C34 -----------------------------------------------------------------------------------

// pruneQuery: legitimate paths to target all run through an edge carrying the `allow` fact;
// prune those edges and require the target to be unreachable.
func (c *Ctx) onlyThroughEdge(rule string, s *Scope, construct string, target EvPred, allow func([]Fact) bool, minTargets int, okMsg, badMsg string) {
	r := s.Run(Query{Target: target, Exempt: allow})
	c.Floor(rule, s.Name, "target sites for "+construct, r.TargetSites, minTargets)
	c.reportHits(rule, s, construct, r, okMsg, badMsg)
}

// R34.1 — a WAL file is removed only when it does not need replay and is not the active one.
func ruleDeleteGuarded(c *Ctx) {
	const rule = "R34.1"
	s := c.S(rule, fnDelete)
	if s == nil {
		return
	}
	remove := callPred(s, "os.Remove")
	// variable bound to NeedsReplay()'s first result
	var nr types.Object
	s.walk(func(n ast.Node) bool {
		if as, ok := n.(*ast.AssignStmt); ok && len(as.Rhs) == 1 {
			if call, ok := unparen(as.Rhs[0]).(*ast.CallExpr); ok && CalleeName(s.Info, call) == fnNeedsReplay && len(as.Lhs) >= 1 {
				nr = identObj(s.Info, as.Lhs[0])
			}
		}
		return true
	})

	if nr == nil {
		c.Violate(rule, s.Name, "needs-replay-consulted", c.P.Pos(s.Body.Pos()), "Delete does not bind the result of NeedsReplay()", nil)
	} else {
		c.onlyThroughEdge(rule, s, "remove-only-when-no-replay-needed", remove,
			func(f []Fact) bool { return factIdent(s.Info, f, nr, false) }, 1,
			"os.Remove is reachable only through the needsReplay == false edge", "WAL file removed although it may still need replay")
		// and NeedsReplay's error is checked before
		r := s.Run(Query{Target: remove, Barrier: callPred(s, fnNeedsReplay), NeedOK: true})
		c.reportHits(rule, s, "needs-replay-error-checked", r, "NeedsReplay's error is tested before the removal", "WAL file removed although its replay state could not be read")
	}
	c.onlyThroughEdge(rule, s, "remove-only-when-not-active", remove,
		func(f []Fact) bool {
			for _, x := range f {
				if call, ok := unparen(x.Expr).(*ast.CallExpr); ok && !x.Val && CalleeName(s.Info, call) == "(*executor.WALFileType).isActive" {
					return true
				}
			}
			return false
		}, 1, "os.Remove is reachable only through the isActive == false edge", "the active WAL file can be removed")
	c.checkDominated(rule, fnDelete, map[string]string{fnCleanup: "startup cleanup after a successful replay"}, "WAL file deletion")
	if cl := c.S(rule, fnCleanup); cl != nil {
		r := cl.Run(Query{Target: callPred(cl, fnDelete), Barrier: callPred(cl, fnReplay), NeedOK: true})
		c.Floor(rule, cl.Name, "Delete call sites", r.TargetSites, 1)
		c.reportHits(rule, cl, "delete-only-after-successful-replay", r, "Delete is dominated by the nil-error edge of Replay", "a WAL file is deleted although its replay failed or did not run")
	}
	// NeedsReplay answers true exactly for NOTREPLAYED and REPLAYINPROCESS: the function is
	// evaluated once per value of the replay-state enumeration (edges whose condition is false
	// under that value are pruned; if-chains, ||-conditions and switches are all the same to
	// this), and the constant answers of the reachable nil-error returns are collected.
	if nrS := c.S(rule, fnNeedsReplay); nrS != nil {
		const fld = "executor.WALFileType.ReplayState"
		enum := c.P.enumConsts("executor/wal", "ReplayStateEnum")
		if len(enum) < 3 {
			c.Undecided(rule, nrS.Name, "needs-replay-states", "enumeration executor/wal.ReplayStateEnum not found")
		}
		want := map[string]bool{"executor/wal.NOTREPLAYED": true, "executor/wal.REPLAYINPROCESS": true}
		for _, name := range sortedConstKeys(enum) {
			cv := enum[name].Val()
			atom := func(e ast.Expr) (constant.Value, bool) {
				if fieldKey(nrS.Info, e) == fld {
					return cv, true
				}
				return nil, false
			}
			answers := map[string]bool{}
			r := nrS.Run(Query{
				WholeFacts: true,
				Exempt:     func(f []Fact) bool { return infeasibleUnder(nrS.Info, f, atom) },
				Target: func(sub, top ast.Node) bool {
					rs, ok := sub.(*ast.ReturnStmt)
					return ok && len(rs.Results) == 2 && isNilIdent(nrS.Info, rs.Results[1])
				},
			})
			for _, h := range r.Hits {
				if v, known := evalBool(nrS.Info, h.Node.(*ast.ReturnStmt).Results[0], atom); known {
					answers[fmt.Sprint(v)] = true
				} else {
					answers["?"] = true
				}
			}
			exp := fmt.Sprint(want[name])
			ok := len(answers) == 1 && answers[exp]
			c.Check(ok, rule, nrS.Name, "needs-replay-answer:"+strings.TrimPrefix(name, "executor/wal."), c.P.Pos(nrS.Body.Pos()),
				fmt.Sprintf("for replay state %s NeedsReplay can answer %v with a nil error (want only %s): a file whose replay did not start or did not finish must be replayed, a replayed one must not", name, sortedKeys(answers), exp))
		}
	}
}

func isCompareNode(n ast.Node, ops ...token.Token) (*ast.BinaryExpr, bool) {
	e, ok := n.(ast.Expr)
	if !ok {
		return nil, false
	}
	return isCompare(e, ops...)
}

// R34.2/R34.3/R34.6 — CleanupOldWALFiles.
func ruleCleanupGuards(c *Ctx) {
	const rule = "R34.2"
	s := c.S(rule, fnCleanup)
	if s == nil {
		return
	}
	// R34.2: the only direct removal is of a header-only file
	sizeLE := func(f []Fact) bool {
		for _, x := range f {
			if b, ok := isCompare(x.Expr, token.LEQ, token.LSS); ok && x.Val {
				if call, ok := unparen(b.X).(*ast.CallExpr); ok && strings.HasSuffix(CalleeName(s.Info, call), ".Size") {
					if v, ok := constInt(s.Info, b.Y); ok && v <= 10 {
						return true
					}
				}
			}
		}
		return false
	}
	c.onlyThroughEdge(rule, s, "direct-remove-only-header-only-file", callPred(s, "os.Remove"), sizeLE, 1,
		"os.Remove in the cleanup loop is reachable only through the Size() <= walStatusLenBytes edge", "a WAL file with content beyond the status header can be removed without replay")
	// constant agreement: walStatusLenBytes == 1+1+8
	if pkg := c.P.ByPath["executor"]; pkg != nil {
		if o, ok := pkg.Types.Scope().Lookup("walStatusLenBytes").(*types.Const); ok {
			c.Check(o.Val().ExactString() == "10", rule, "executor.walStatusLenBytes", "value", c.P.Pos(o.Pos()), "walStatusLenBytes = "+o.Val().ExactString()+" must equal the status record width 1+1+8 written by WriteStatus")
		} else {
			c.Undecided(rule, "executor.walStatusLenBytes", "anchor", "constant not found")
		}
	}
	// R34.3: own WAL file is skipped before anything is done with a file
	const r3 = "R34.3"
	touching := func(sub, top ast.Node) bool {
		return isCall(s.Info, sub, fnTakeOver, fnReplay, fnDelete, "os.Remove", "executor/wal.Move", "os.Rename", "os.Truncate")
	}
	notOwn := func(f []Fact) bool {
		for _, x := range f {
			if b, ok := isCompare(x.Expr, token.EQL); ok && !x.Val && mentionsField(s.Info, b, "executor.WALCleaner.ignoreFile") {
				return true
			}
			if b, ok := isCompare(x.Expr, token.NEQ); ok && x.Val && mentionsField(s.Info, b, "executor.WALCleaner.ignoreFile") {
				return true
			}
		}
		return false
	}
	c.onlyThroughEdge(r3, s, "own-wal-skipped-first", touching, notOwn, 5,
		"TakeOver/Replay/Remove/Move/Delete are reachable only through the `file != ignoreFile` edge", "the running instance's own WAL can be replayed, moved or deleted")
	if g := c.S(r3, fnGetInitWALFile); g != nil {
		// NewWALCleaner's first argument is walfile.FilePtr.Name() of the WAL just created
		ok := false
		pos := c.P.Pos(g.Body.Pos())
		for _, n := range g.sites(callPred(g, "executor.NewWALCleaner")) {
			call := n.(*ast.CallExpr)
			pos = c.P.Pos(call.Pos())
			arg := call.Args[0]
			var src ast.Expr = arg
			if o := identObj(g.Info, arg); o != nil {
				g.walk(func(m ast.Node) bool {
					if as, isAs := m.(*ast.AssignStmt); isAs {
						for i, l := range as.Lhs {
							if identObj(g.Info, l) == o && i < len(as.Rhs) {
								src = as.Rhs[i]
							}
						}
					}
					return true
				})

			}
			if nc, isCall := unparen(src).(*ast.CallExpr); isCall && CalleeName(g.Info, nc) == "(*os.File).Name" && recvField(g.Info, nc) == fldFilePtr {
				// receiver object must be the result of NewWALFile
				if sel, isSel := unparen(nc.Fun).(*ast.SelectorExpr); isSel {
					if inner, isSel2 := unparen(sel.X).(*ast.SelectorExpr); isSel2 {
						wo := identObj(g.Info, inner.X)
						g.walk(func(m ast.Node) bool {
							if as, isAs := m.(*ast.AssignStmt); isAs && len(as.Rhs) == 1 {
								if cx, isC := unparen(as.Rhs[0]).(*ast.CallExpr); isC && CalleeName(g.Info, cx) == "executor.NewWALFile" && len(as.Lhs) > 0 && identObj(g.Info, as.Lhs[0]) == wo && wo != nil {
									ok = true
								}
							}
							return true
						})

					}
				}
			}
		}
		c.Check(ok, r3, g.Name, "ignore-file-is-own-wal", pos, "the cleaner is told to ignore FilePtr.Name() of the WAL file this instance just created")
	}
	// R34.6: move-aside only for ReplayError{Cont:true}; every other replay error is returned
	const r6 = "R34.6"
	contTrue := func(f []Fact) bool {
		for _, x := range f {
			if x.Val && fieldKey(s.Info, x.Expr) == "executor/wal.ReplayError.Cont" {
				return true
			}
		}
		return false
	}
	c.onlyThroughEdge(r6, s, "move-only-for-continuable-replay-error", callPred(s, "executor/wal.Move"), contTrue, 1,
		"wal.Move is reachable only through the ReplayError.Cont == true edge", "a WAL file is moved aside for an error that is not a continuable ReplayError")
	for _, n := range s.sites(callPred(s, fnReplay)) {
		call := n.(*ast.CallExpr)
		top := s.topOf(call)
		obj, ok := assignedLastResult(s.Info, top, call)
		if !ok || obj == nil {
			c.Violate(r6, s.Name, "replay-error-bound", c.P.Pos(call.Pos()), "Replay's error is discarded", nil)
			continue
		}
		q := Query{
			Start: func(sub, _ ast.Node) bool { return sub == ast.Node(call) },
			Target: func(sub, top ast.Node) bool {
				if isCall(s.Info, sub, fnDelete, "os.Remove") {
					return true
				}
				if b, ok := sub.(*ast.BranchStmt); ok && b.Tok == token.CONTINUE {
					return true
				}
				return false
			},
			Exempt: func(f []Fact) bool {
				for _, x := range f {
					if o, trueNonNil, ok := nilTest(s.Info, x.Expr); ok && o == obj && x.Val != trueNonNil {
						return true // err == nil edge
					}
					if cx, ok := unparen(x.Expr).(*ast.CallExpr); ok && x.Val && CalleeName(s.Info, cx) == "errors.As" {
						return true // it is a ReplayError
					}
				}
				return false
			},
			ExitIsTarget: true, OnlyNilErrorReturns: true,
		}
		r := s.Run(q)
		c.reportHits(r6, s, "other-replay-errors-are-returned", r, "a replay error that is not a ReplayError leaves CleanupOldWALFiles through a non-nil error return", "a non-ReplayError replay failure is swallowed (file skipped, deleted, or success returned)")
	}
}

// R34.4 — Replay brackets its work with REPLAYINPROCESS / REPLAYED status records.
func ruleReplayBrackets(c *Ctx) {
	const rule = "R34.4"
	s := c.S(rule, fnReplay)
	if s == nil {
		return
	}
	var dry types.Object
	if s.Type.Params != nil && len(s.Type.Params.List) > 0 && len(s.Type.Params.List[0].Names) > 0 {
		dry = objOf(s.Info, s.Type.Params.List[0].Names[0])
	}
	dryEdge := func(f []Fact) bool { return dry != nil && factIdent(s.Info, f, dry, true) }
	status := func(state string) EvPred {
		return func(sub, top ast.Node) bool {
			call, ok := sub.(*ast.CallExpr)
			return ok && CalleeName(s.Info, call) == fnWriteStatus && len(call.Args) == 2 && objKey(s.Info, call.Args[1]) == "executor/wal."+state
		}
	}
	r := s.Run(Query{Target: callPred(s, fnReplayTGData), Barrier: status("REPLAYINPROCESS"), NeedOK: true, Exempt: dryEdge})
	c.Floor(rule, s.Name, "replayTGData sites", r.TargetSites, 1)
	c.Floor(rule, s.Name, "WriteStatus(REPLAYINPROCESS) sites", r.BarrierSites, 1)
	c.reportHits(rule, s, "in-process-status-before-apply", r, "the apply loop is dominated (non-dry-run) by a successful WriteStatus(OPEN, REPLAYINPROCESS)", "TGs are applied before the file is marked REPLAYINPROCESS")
	r2 := s.Run(Query{Start: status("REPLAYINPROCESS"), Barrier: status("REPLAYED"), NeedOK: true, ExitIsTarget: true, OnlyNilErrorReturns: true, Exempt: dryEdge})
	c.Floor(rule, s.Name, "WriteStatus(REPLAYED) sites", r2.BarrierSites, 1)
	c.reportHits(rule, s, "replayed-status-before-success", r2, "every successful non-dry-run return passes a result-checked WriteStatus(OPEN, REPLAYED)", "Replay reports success without marking the file REPLAYED (Delete then refuses it / the next start replays it again)")
	// REPLAYED only after the apply loop: no replayTGData after the REPLAYED write
	r3 := s.Run(Query{Start: status("REPLAYED"), Target: callPred(s, fnReplayTGData)})
	c.reportHits(rule, s, "no-apply-after-replayed", r3, "nothing is applied after the file was marked REPLAYED", "a TG is applied after the REPLAYED status")
	// the replay precondition: NeedsReplay consulted and its error checked before any status write
	r4 := s.Run(Query{Target: callPred(s, fnWriteStatus, fnReplayTGData), Barrier: callPred(s, fnNeedsReplay), NeedOK: true})
	c.reportHits(rule, s, "needs-replay-checked-first", r4, "status writes and the apply loop are dominated by a result-checked NeedsReplay", "Replay proceeds without knowing whether the file needs replay")
	// dry-run never writes
	if dry != nil {
		notDry := func(f []Fact) bool { return factIdent(s.Info, f, dry, false) }
		r5 := s.Run(Query{Target: callPred(s, fnReplayTGData, fnWriteStatus), Exempt: notDry})
		c.reportHits(rule, s, "dry-run-writes-nothing", r5, "on the dryRun edge neither a status write nor an apply is reachable", "dry-run replay mutates files")
	}
}

// ---- C35 -----------------------------------------------------------------------------------

func ruleShutdownDrains(c *Ctx) {
	const rule = "R35.1"
	s := c.S(rule, fnSyncWAL)
	if s == nil {
		return
	}
	const fldShut = "executor.WALFileType.shutdownPending"
	notShutting := func(f []Fact) bool { return flagFact(s.Info, f, fldShut, true, false) }
	done := func(sub, top ast.Node) bool {
		call, ok := sub.(*ast.CallExpr)
		return ok && CalleeName(s.Info, call) == "(*sync.WaitGroup).Done" && recvField(s.Info, call) == "executor.WALFileType.walWaitGroup"
	}
	// on the shutdown edge: FlushToWAL → CreateCheckpoint → Done → return
	r := s.Run(Query{Target: done, Barrier: callPred(s, fnCreateCheckpoint), Exempt: notShutting})
	c.Floor(rule, s.Name, "walWaitGroup.Done sites", r.TargetSites, 1)
	c.reportHits(rule, s, "checkpoint-before-done", r, "walWaitGroup.Done is dominated by CreateCheckpoint on the shutdown path", "Shutdown is released before the final checkpoint")
	// the checkpoint that precedes Done must itself be preceded by the final flush
	r2 := s.Run(Query{Target: done, Barrier: callPred(s, fnFlushToWAL), Exempt: notShutting})
	c.reportHits(rule, s, "flush-before-done", r2, "walWaitGroup.Done is dominated by the final FlushToWAL", "Shutdown is released before queued writes were flushed")
	r3 := s.Run(Query{Start: callPred(s, fnFlushToWAL), Target: done, Barrier: callPred(s, fnCreateCheckpoint), Exempt: notShutting})
	c.reportHits(rule, s, "flush-then-checkpoint", r3, "after the final flush a checkpoint precedes Done", "final flush is not followed by a checkpoint (restart replays and duplicates variable-length data)")
	// the only exit of the goroutine is behind Done
	r4 := s.Run(Query{Barrier: done, ExitIsTarget: true})
	c.reportHits(rule, s, "exit-only-after-done", r4, "SyncWAL returns only after walWaitGroup.Done", "the WAL goroutine can exit without releasing Shutdown (hang)")
	// haveWALWriter is cleared before the final flush so late writers flush inline
	clr := func(sub, top ast.Node) bool {
		switch x := sub.(type) {
		case *ast.AssignStmt:
			for i, l := range x.Lhs {
				if objKey(s.Info, l) == "executor.haveWALWriter" && i < len(x.Rhs) {
					if id, ok := unparen(x.Rhs[i]).(*ast.Ident); ok && id.Name == "false" {
						return true
					}
				}
			}
		case *ast.CallExpr:
			if sel, ok := unparen(x.Fun).(*ast.SelectorExpr); ok && sel.Sel.Name == "Store" && objKey(s.Info, sel.X) == "executor.haveWALWriter" && len(x.Args) == 1 {
				if id, ok := unparen(x.Args[0]).(*ast.Ident); ok && id.Name == "false" {
					return true
				}
			}
			// atomic.StoreUint32(&haveWALWriter, 0)
			if strings.HasPrefix(CalleeName(s.Info, x), "sync/atomic.Store") && len(x.Args) == 2 && mentionsObjKey(s.Info, x.Args[0], "executor.haveWALWriter") {
				if v, ok := constInt(s.Info, x.Args[1]); ok && v == 0 {
					return true
				}
			}
		}
		return false
	}
	r5 := s.Run(Query{Target: done, Barrier: clr, Exempt: notShutting})
	c.Floor(rule, s.Name, "haveWALWriter=false sites", r5.BarrierSites, 1)
	c.reportHits(rule, s, "writer-flag-cleared-before-done", r5, "haveWALWriter is cleared on the shutdown path before Done", "late writers keep queueing to a goroutine that has exited")
}

func ruleShutdownWaits(c *Ctx) {
	const rule = "R35.2"
	s := c.S(rule, fnShutdown)
	if s == nil {
		return
	}
	setFlag := func(sub, top ast.Node) bool {
		switch x := sub.(type) {
		case *ast.AssignStmt:
			for _, l := range x.Lhs {
				if mentionsField(s.Info, l, "executor.WALFileType.shutdownPending") {
					return true
				}
			}
		case *ast.CallExpr:
			if sel, ok := unparen(x.Fun).(*ast.SelectorExpr); ok && sel.Sel.Name == "Store" && mentionsField(s.Info, sel.X, "executor.WALFileType.shutdownPending") {
				return true
			}
			if strings.HasPrefix(CalleeName(s.Info, x), "sync/atomic.Store") && len(x.Args) == 2 && mentionsField(s.Info, x.Args[0], "executor.WALFileType.shutdownPending") {
				if v, ok := constInt(s.Info, x.Args[1]); ok && v != 0 {
					return true
				}
			}
		}
		return false
	}
	wait := func(sub, top ast.Node) bool {
		call, ok := sub.(*ast.CallExpr)
		return ok && CalleeName(s.Info, call) == "(*sync.WaitGroup).Wait" && recvField(s.Info, call) == "executor.WALFileType.walWaitGroup"
	}
	c.chain(rule, s, []step{{"shutdownPending=true", setFlag}, {"walWaitGroup.Wait", wait}, {"finishAndWait", callPred(s, "(*executor.WALFileType).finishAndWait")}}, false, true, nil, "graceful shutdown order")
	if g := c.S(rule, fnGetInitWALFile); g != nil {
		goSync := func(sub, top ast.Node) bool {
			gs, ok := sub.(*ast.GoStmt)
			return ok && CalleeName(g.Info, gs.Call) == fnSyncWAL
		}
		inc := callPred(g, "(*executor.WALFileType).IncrementWaitGroup")
		a := g.Run(Query{Target: goSync, Barrier: inc})
		b := g.Run(Query{Start: goSync, Barrier: inc, ExitIsTarget: true})
		c.Floor(rule, g.Name, "go SyncWAL sites", a.TargetSites, 1)
		ok := len(a.Hits) == 0 || len(b.Hits) == 0
		c.Check(ok, rule, g.Name, "waitgroup-incremented-with-goroutine", c.P.Pos(g.Body.Pos()),
			"every path that starts the SyncWAL goroutine also calls IncrementWaitGroup (before or after the go statement), so Shutdown's Wait cannot return before the final checkpoint")
		if len(a.Hits) != 0 {
			c.Note("R35.2 observation: walWaitGroup.Add happens after the `go SyncWAL` statement (not a finding: Shutdown is only reachable after GetInitWALFile returned)")
		}
	}
}

// R35.3 — the process exits only after Shutdown().
func ruleExitAfterShutdown(c *Ctx) {
	const rule = "R35.3"
	fn := c.F(rule, "cmd/start.executeStart")
	if fn == nil {
		return
	}
	c.F(rule, "cmd/start.shutdown")
	info := fn.Pkg.TypesInfo
	// every function literal (and the function itself) that calls shutdown()/os.Exit
	n := 0
	check := func(s *Scope) {
		exit := callPred(s, "cmd/start.shutdown", "os.Exit")
		if len(s.sites(exit)) == 0 {
			return
		}
		n++
		r := s.Run(Query{Target: exit, Barrier: callPred(s, fnShutdown)})
		c.reportHits(rule, s, "exit-after-WAL-shutdown", r, "process exit is dominated by WALFileType.Shutdown()", "the process can exit on a signal without draining and checkpointing the WAL")
	}
	check(c.P.ScopeOf(fn))
	walkAll(fn.Decl.Body, func(m ast.Node) bool {
		if lit, ok := m.(*ast.FuncLit); ok {
			check(c.P.ScopeOfLit(fn, lit))
		}
		return true
	})

	_ = info
	c.Floor(rule, fn.Key, "scopes that exit the process", n, 1)
	// os.Exit call sites in the server packages
	for _, f := range c.P.NonTestFuncs() {
		if f.Decl.Body == nil || !inServerScope(f) {
			continue
		}
		walkAll(f.Decl.Body, func(m ast.Node) bool {
			if call, ok := m.(*ast.CallExpr); ok && CalleeName(f.Pkg.TypesInfo, call) == "os.Exit" {
				c.Check(f.Key == "cmd/start.shutdown", rule, f.Key, "os.Exit-site", c.P.Pos(call.Pos()), "os.Exit in the server packages only in cmd/start.shutdown")
			}
			return true
		})

	}
}

// R35.4 — checkpoint records influence what replay applies.
func ruleCheckpointPrunesReplay(c *Ctx) {
	const rule = "R35.4"
	s := c.S(rule, fnReplay)
	if s == nil {
		return
	}
	// state objects written under a fact `…CHECKPOINT…` + COMMITCOMPLETE in the first pass
	file := c.P.FileOf(s.Pkg, s.Body.Pos())
	par := c.P.Parents(file)
	underCheckpointCase := func(n ast.Node) bool {
		sawCk, sawCC := false, false
		for m := par[n]; m != nil; m = par[m] {
			switch x := m.(type) {
			case *ast.CaseClause:
				for _, e := range x.List {
					if objKey(s.Info, e) == "executor.CHECKPOINT" {
						sawCk = true
					}
				}
			case *ast.IfStmt:
				if mentionsObjKey(s.Info, x.Cond, "executor.COMMITCOMPLETE") {
					sawCC = true
				}
				if mentionsObjKey(s.Info, x.Cond, "executor.CHECKPOINT") {
					sawCk = true
				}
			case *ast.FuncDecl:
				if c.P.funcBoundary(x) {
					return sawCk && sawCC
				}
			}
		}
		return sawCk && sawCC
	}
	state := map[types.Object]string{}
	s.walk(func(n ast.Node) bool {
		switch x := n.(type) {
		case *ast.CallExpr:
			name := CalleeName(s.Info, x)
			if (name == "builtin.delete" || name == "builtin.append") && len(x.Args) >= 1 && underCheckpointCase(x) {
				if o := identObj(s.Info, x.Args[0]); o != nil {
					state[o] = name
				}
			}
		case *ast.AssignStmt:
			if !underCheckpointCase(x) {
				return true
			}
			for _, l := range x.Lhs {
				if ix, ok := unparen(l).(*ast.IndexExpr); ok {
					if o := identObj(s.Info, ix.X); o != nil {
						state[o] = "store"
					}
				} else if o := identObj(s.Info, l); o != nil && x.Tok == token.ASSIGN {
					state[o] = "assign"
				}
			}
		}
		return true
	})

	if len(state) == 0 {
		c.Violate(rule, s.Name, "checkpoint-updates-state", c.P.Pos(s.Body.Pos()), "no state is updated under the CHECKPOINT/COMMITCOMPLETE case of the first pass: checkpoint records cannot influence replay", nil)
		return
	}
	// pruning is by id ORDER: one checkpoint record covers every TG committed before it (only the
	// last committed id is recorded), so the checkpoint's id must be compared with <, <=, >, >=
	// against the ids of TG data — an equality/single-key prune leaves earlier TGs to be re-applied,
	// a prune of "everything seen so far" drops TGs that follow checkpoint records appended by an
	// interrupted replay.
	ckIDs := map[types.Object]bool{}
	s.walk(func(n ast.Node) bool {
		if as, ok := n.(*ast.AssignStmt); ok && len(as.Rhs) == 1 && len(as.Lhs) >= 1 {
			if call, ok := unparen(as.Rhs[0]).(*ast.CallExpr); ok && CalleeName(s.Info, call) == "(*executor.WALFileType).readTransactionInfo" {
				if o := identObj(s.Info, as.Lhs[0]); o != nil {
					ckIDs[o] = true
				}
			}
		}
		return true
	})

	// values copied from the checkpoint id under the checkpoint case (e.g. a running maximum)
	s.walk(func(n ast.Node) bool {
		if as, ok := n.(*ast.AssignStmt); ok && underCheckpointCase(as) {
			for i, l := range as.Lhs {
				if o := identObj(s.Info, l); o != nil && i < len(as.Rhs) {
					for ck := range ckIDs {
						if mentions(s.Info, as.Rhs[i], ck) {
							ckIDs[o] = true
						}
					}
				}
			}
		}
		return true
	})

	ordered := 0
	var ordPos token.Pos
	s.walk(func(n ast.Node) bool {
		b, ok := isCompareNode(n, token.LEQ, token.LSS, token.GEQ, token.GTR)
		if !ok {
			return true
		}
		for ck := range ckIDs {
			xm, ym := mentions(s.Info, b.X, ck), mentions(s.Info, b.Y, ck)
			if xm != ym {
				other := b.Y
				if ym {
					other = b.X
				}
				if _, isConst := constInt(s.Info, other); !isConst {
					ordered++
					ordPos = b.Pos()
				}
			}
		}
		return true
	})

	if len(ckIDs) == 0 {
		c.Undecided(rule, s.Name, "checkpoint-id-variable", "no variable bound to readTransactionInfo()'s transaction id found in Replay")
	} else if ordered == 0 {
		c.Violate(rule, s.Name, "prune-by-id-order", c.P.Pos(s.Body.Pos()),
			"Replay never compares the checkpoint record's id by ORDER (<, <=, >, >=) with TG ids: a checkpoint covers every TG committed up to its id, so pruning by equality (or wholesale) either re-applies already checkpointed TGs or drops TGs that were never checkpointed", nil)
	} else {
		c.Hold(rule, s.Name, "prune-by-id-order", c.P.Pos(ordPos), fmt.Sprintf("%d ordered comparison(s) between the checkpoint id and TG ids", ordered))
	}
	// the replayTGData call must depend (control or data, transitively through local defs) on such state
	calls := s.sites(callPred(s, fnReplayTGData))
	for _, n := range calls {
		dep := false
		// data: arguments / control: enclosing loops' range operands and if-conditions
		var exprs []ast.Node
		call := n.(*ast.CallExpr)
		for _, a := range call.Args {
			exprs = append(exprs, a)
		}
		for m := par[n]; m != nil; m = par[m] {
			switch x := m.(type) {
			case *ast.RangeStmt:
				exprs = append(exprs, x.X)
			case *ast.ForStmt:
				if x.Cond != nil {
					exprs = append(exprs, x.Cond)
				}
			case *ast.IfStmt:
				exprs = append(exprs, x.Cond)
			}
			if _, ok := m.(*ast.FuncDecl); ok {
				break
			}
		}
		// also guards that `continue` past the call inside the same loop body
		for m := par[n]; m != nil; m = par[m] {
			if blk, ok := m.(*ast.BlockStmt); ok {
				for _, st := range blk.List {
					if st.End() <= n.Pos() {
						if is, ok := st.(*ast.IfStmt); ok && containsBranch(is.Body) {
							exprs = append(exprs, is.Cond)
						}
					}
				}
			}
			if _, ok := m.(*ast.RangeStmt); ok {
				break
			}
		}
		seen := map[types.Object]bool{}
		var visit func(e ast.Node, depth int)
		visit = func(e ast.Node, depth int) {
			if dep || depth > 5 || e == nil {
				return
			}
			walkAll(e, func(m ast.Node) bool {
				id, ok := m.(*ast.Ident)
				if !ok {
					return true
				}
				o := objOf(s.Info, id)
				if o == nil || seen[o] {
					return true
				}
				seen[o] = true
				if _, isState := state[o]; isState {
					dep = true
					return false
				}
				// follow local definitions of o
				s.walk(func(d ast.Node) bool {
					switch y := d.(type) {
					case *ast.AssignStmt:
						for i, l := range y.Lhs {
							if identObj(s.Info, l) == o {
								if len(y.Rhs) == len(y.Lhs) {
									visit(y.Rhs[i], depth+1)
								} else if len(y.Rhs) == 1 {
									visit(y.Rhs[0], depth+1)
								}
							}
						}
					case *ast.RangeStmt:
						if identObj(s.Info, y.Key) == o || (y.Value != nil && identObj(s.Info, y.Value) == o) {
							visit(y.X, depth+1)
						}
					}
					return !dep
				})

				return !dep
			})
		}
		for _, e := range exprs {
			visit(e, 0)
		}
		var names []string
		for o, k := range state {
			names = append(names, o.Name()+"("+k+")")
		}
		sort.Strings(names)
		c.Check(dep, rule, s.Name, "apply-depends-on-checkpoint-state", c.P.Pos(n.Pos()),
			"the replayTGData call is data/control dependent on state updated under CHECKPOINT+COMMITCOMPLETE in the first pass: "+strings.Join(names, ", ")+
				" (otherwise every TG still in the WAL is re-applied after a graceful restart)")
	}
}

func containsBranch(b *ast.BlockStmt) bool {
	found := false
	walkAll(b, func(n ast.Node) bool {
		if br, ok := n.(*ast.BranchStmt); ok && (br.Tok == token.CONTINUE || br.Tok == token.BREAK) {
			found = true
		}
		return !found
	})
	return found
}
