package main

// C21 / C22 / C31 — thin structural slices of the candle aggregation and of the timeframe
// arithmetic. The numeric statements (which price is the maximum, which instant is the window
// start) are NOT decided; decided are the shape conditions without which they cannot hold for
// every row order / every suffix: paired open/close state, extremum guards that assign what
// they compared, the window gate, time-ordered output, column-order agreement between the
// accumulator struct and the advertised output schema, the positional OHLC contract between
// the candle-of-candles aggregate and AddCandle, suffix-table agreement between the sibling
// functions Truncate / Ceil / IsWithin, and "the queryable timeframe divides the duration".

import (
	"fmt"
	"go/ast"
	"go/constant"
	"go/token"
	"go/types"
	"regexp/syntax"
	"sort"
	"strings"
)

const (
	fnAddCandle   = "(*contrib/candler.Candle).AddCandle"
	fnCandlerOut  = "(*contrib/candler.Candler).Output"
	fnGetCandle   = "(*contrib/candler.Candler).GetCandle"
	fnSerializeCd = "(*contrib/candler.Candle).SerializeToRowData"
	eohlc         = "contrib/candler.EOHLCStruct."
	cndl          = "contrib/candler.Candle."
)

// enclosingBlockStmts returns the statement list of the innermost block containing n.
func enclosingBlockStmts(par map[ast.Node]ast.Node, n ast.Node) []ast.Stmt {
	for m := par[n]; m != nil; m = par[m] {
		switch b := m.(type) {
		case *ast.BlockStmt:
			return b.List
		case *ast.CaseClause:
			return b.Body
		case *ast.CommClause:
			return b.Body
		}
	}
	return nil
}

// assignedFields lists (fieldKey → rhs) pairs of an assignment statement (tuple assigns split).
func assignedFields(info *types.Info, st ast.Stmt) map[string]ast.Expr {
	out := map[string]ast.Expr{}
	as, ok := st.(*ast.AssignStmt)
	if !ok {
		return out
	}
	for i, l := range as.Lhs {
		k := fieldKey(info, l)
		if k == "" {
			continue
		}
		var rhs ast.Expr
		if len(as.Rhs) == len(as.Lhs) {
			rhs = as.Rhs[i]
		} else if len(as.Rhs) == 1 {
			rhs = as.Rhs[0]
		}
		out[k] = rhs
	}
	return out
}

// R21.1 — AddCandle keeps the open/close prices paired with the times they were seen at,
// updates extremes only with the value it compared, and touches the candle only for rows inside
// its window.
func ruleCandleUpdate(c *Ctx) {
	const rule = "R21.1"
	s := c.S(rule, fnAddCandle)
	if s == nil {
		return
	}
	info := s.Info
	par := c.P.Parents(c.P.FileOf(s.Pkg, s.Body.Pos()))
	// --- positional contract: which local carries prices[k]
	var pricesObj types.Object
	if s.Type.Params != nil {
		for _, f := range s.Type.Params.List {
			if _, ok := f.Type.(*ast.Ellipsis); ok && len(f.Names) == 1 {
				pricesObj = objOf(info, f.Names[0])
			}
		}
	}
	if pricesObj == nil {
		c.Undecided(rule, s.Name, "prices-parameter", "AddCandle has no variadic price parameter")
		return
	}
	defs := map[types.Object]map[int64]bool{} // local → set of prices[k] indexes it is defined from
	s.walk(func(m ast.Node) bool {
		as, ok := m.(*ast.AssignStmt)
		if !ok || len(as.Lhs) != len(as.Rhs) {
			return true
		}
		for i, l := range as.Lhs {
			o := identObj(info, l)
			if o == nil {
				continue
			}
			if ix, ok := unparen(as.Rhs[i]).(*ast.IndexExpr); ok && identObj(info, ix.X) == pricesObj {
				if k, ok := constInt(info, ix.Index); ok {
					if defs[o] == nil {
						defs[o] = map[int64]bool{}
					}
					defs[o][k] = true
				}
			} else if defs[o] != nil || fieldKey(info, l) == "" {

				if _, isVar := o.(*types.Var); isVar && defs[o] != nil {
					defs[o][-1] = true
				}
			}
		}
		return true
	})

	// a local defined from the j-th result of a private helper whose returns are prices[k]
	s.walk(func(m ast.Node) bool {
		as, ok := m.(*ast.AssignStmt)
		if !ok || len(as.Rhs) != 1 || len(as.Lhs) < 2 {
			return true
		}
		cx, ok := unparen(as.Rhs[0]).(*ast.CallExpr)
		if !ok {
			return true
		}
		f := Callee(info, cx)
		if f == nil {
			return true
		}
		h := c.P.ByObj[f]
		isHelper := false
		for _, ph := range c.P.privateHelpers(s.Fn) {
			isHelper = isHelper || ph == h
		}
		if h == nil || !isHelper || h.Decl.Body == nil {
			return true
		}
		for j, l := range as.Lhs {
			o := identObj(info, l)
			if o == nil {
				continue
			}
			walkAll(h.Decl.Body, func(k ast.Node) bool {
				rs, ok := k.(*ast.ReturnStmt)
				if !ok || len(rs.Results) != len(as.Lhs) {
					return true
				}
				if defs[o] == nil {
					defs[o] = map[int64]bool{}
				}
				if ix, ok := unparen(rs.Results[j]).(*ast.IndexExpr); ok && identObj(h.Pkg.TypesInfo, ix.X) == pricesObj {
					if kk, ok := constInt(h.Pkg.TypesInfo, ix.Index); ok {
						defs[o][kk] = true
						return true
					}
				}
				defs[o][-1] = true
				return true
			})
		}
		return true
	})
	pos := map[string]int64{"Open": 0, "High": 1, "Low": 2, "Close": 3}
	timeOf := map[string]string{"Open": "OpenTime", "Close": "CloseTime"}
	var tsObj types.Object
	if s.Type.Params != nil && len(s.Type.Params.List) > 0 && len(s.Type.Params.List[0].Names) > 0 {
		tsObj = objOf(info, s.Type.Params.List[0].Names[0])
	}
	nAssign := map[string]int{}
	s.walk(func(m ast.Node) bool {
		st, ok := m.(*ast.AssignStmt)
		if !ok {
			return true
		}
		af := assignedFields(info, st)
		block := enclosingBlockStmts(par, st)
		blockFields := map[string]ast.Expr{}
		for _, b := range block {
			for k, v := range assignedFields(info, b) {
				blockFields[k] = v
			}
		}
		for key, rhs := range af {
			if !strings.HasPrefix(key, eohlc) {
				continue
			}
			name := strings.TrimPrefix(key, eohlc)
			k, isPrice := pos[name]
			if !isPrice {
				continue
			}
			nAssign[name]++
			where := c.P.Pos(st.Pos())

			ro := identObj(info, rhs)
			okSrc := ro != nil && defs[ro] != nil && !defs[ro][-1]
			if okSrc {
				for idx := range defs[ro] {
					if idx != 0 && idx != k {
						okSrc = false
					}
				}
				if !defs[ro][k] && k != 0 {
					okSrc = false
				}
			}
			if !okSrc {
				if cx, isCall := unparen(rhs).(*ast.CallExpr); isCall {
					for _, a := range cx.Args {
						if o := identObj(info, a); o != nil && defs[o] != nil && defs[o][k] && !defs[o][-1] {
							okSrc = true
						}
					}
				}
			}
			c.Check(okSrc, rule, s.Name, "price-source:"+name, where,
				fmt.Sprintf("candle field %s is updated from the input's %s price (prices[%d], or prices[0] for a tick)", name, strings.ToLower(name), k))

			if tn, paired := timeOf[name]; paired {
				tr, has := blockFields[cndl+tn]
				okT := has && tsObj != nil && identObj(info, tr) == tsObj
				c.Check(okT, rule, s.Name, "paired-with-time:"+name, where,
					fmt.Sprintf("%s is assigned together with %s = the row's timestamp in the same block (otherwise a later, out-of-order row is compared with a stale time and open/close depend on row order)", name, tn))
			}

			g := innermostIf(par, st)
			if g == nil {
				c.Violate(rule, s.Name, "guard:"+name, where, name+" is overwritten unconditionally", nil)
				continue
			}
			if isZeroTimeGuard(info, g.Cond) {
				c.Hold(rule, s.Name, "guard:"+name+":first-row", where, "initialised from the first row (guard: the open time is still the zero time)")
				continue
			}
			okG := false
			switch name {
			case "High", "Low":
				if cx, isCall := unparen(rhs).(*ast.CallExpr); isCall {
					if id, ok := unparen(cx.Fun).(*ast.Ident); ok && ((name == "High" && id.Name == "max") || (name == "Low" && id.Name == "min")) {
						okG = true
					}
				}
				if b, ok := isCompare(g.Cond, token.GTR, token.GEQ, token.LSS, token.LEQ); ok && !okG {
					x, y, op := b.X, b.Y, b.Op
					if fieldKey(info, x) == key {
						x, y = y, x
						op = map[token.Token]token.Token{token.GTR: token.LSS, token.GEQ: token.LEQ, token.LSS: token.GTR, token.LEQ: token.GEQ}[op]
					}
					wantGreater := name == "High"
					isGreater := op == token.GTR || op == token.GEQ
					okG = fieldKey(info, y) == key && identObj(info, x) != nil && identObj(info, x) == ro && wantGreater == isGreater
				}
			case "Open", "Close":

				if cx, ok := unparen(g.Cond).(*ast.CallExpr); ok && len(cx.Args) == 1 {
					if sel, ok := unparen(cx.Fun).(*ast.SelectorExpr); ok {
						recvIsTs := identObj(info, sel.X) == tsObj && tsObj != nil
						argIsTs := identObj(info, cx.Args[0]) == tsObj && tsObj != nil
						tk := cndl + timeOf[name]
						m := sel.Sel.Name
						earlier := (recvIsTs && m == "Before" && fieldKey(info, cx.Args[0]) == tk) || (argIsTs && m == "After" && fieldKey(info, sel.X) == tk)
						later := (recvIsTs && m == "After" && fieldKey(info, cx.Args[0]) == tk) || (argIsTs && m == "Before" && fieldKey(info, sel.X) == tk)
						okG = (name == "Open" && earlier) || (name == "Close" && later)
					}
				}
			}
			c.Check(okG, rule, s.Name, "guard:"+name, where,
				map[string]string{
					"High":  "High is raised only when the input's high is greater than it (compares the value it assigns)",
					"Low":   "Low is lowered only when the input's low is smaller than it (compares the value it assigns)",
					"Open":  "Open is replaced only by a row that is earlier than the recorded open time",
					"Close": "Close is replaced only by a row that is later than the recorded close time",
				}[name])
		}
		return true
	})

	for _, n := range []string{"Open", "High", "Low", "Close"} {
		c.Floor(rule, s.Name, "assignments of EOHLC."+n, nAssign[n], 2)
	}
	// (d) window gate: no candle state is written unless IsWithin(ts) held
	within := func(f []Fact) bool {
		for _, x := range f {
			if cx, ok := unparen(x.Expr).(*ast.CallExpr); ok && x.Val && x.Tag == nil && strings.HasSuffix(CalleeName(info, cx), ".IsWithin") {
				return true
			}
		}
		return false
	}
	c.onlyThroughEdge(rule, s, "window-gate", func(sub, top ast.Node) bool {
		st, ok := sub.(*ast.AssignStmt)
		if !ok {
			return false
		}
		for k := range assignedFields(info, st) {
			if strings.HasPrefix(k, eohlc) || k == cndl+"OpenTime" || k == cndl+"CloseTime" {
				return true
			}
		}
		return false
	}, within, 6, "candle state is written only on the edge where the row's time is inside the candle's window", "a row outside the candle's window can change its prices")
}

func innermostIf(par map[ast.Node]ast.Node, n ast.Node) *ast.IfStmt {
	child := n
	for m := par[n]; m != nil; m = par[m] {
		if is, ok := m.(*ast.IfStmt); ok && is.Body == child {
			return is
		}
		if _, ok := m.(*ast.FuncDecl); ok {
			return nil
		}
		child = m
	}
	return nil
}

func isZeroTimeGuard(info *types.Info, cond ast.Expr) bool {
	cx, ok := unparen(cond).(*ast.CallExpr)
	if !ok {
		return false
	}
	sel, ok := unparen(cx.Fun).(*ast.SelectorExpr)
	return ok && sel.Sel.Name == "IsZero" && strings.HasPrefix(fieldKey(info, sel.X), cndl)
}

// ascendingTimeLess: the Less method of a named slice type orders ascending
// (x[i] < x[j], x[i].Before(x[j]), x[j].After(x[i])).
func (c *Ctx) ascendingLess(t types.Type) (bool, string) {
	nt, ok := t.(*types.Named)
	if !ok || nt.Obj().Pkg() == nil {
		return false, "range operand is not a named sortable type"
	}
	lessKey := "(" + short(nt.Obj().Pkg().Path()) + "." + nt.Obj().Name() + ").Less"
	lf := c.P.Funcs[lessKey]
	if lf == nil || lf.Decl.Body == nil || len(lf.Decl.Body.List) != 1 {
		return false, lessKey + " not found or not a single return"
	}
	ret, ok := lf.Decl.Body.List[0].(*ast.ReturnStmt)
	if !ok || len(ret.Results) != 1 {
		return false, lessKey + " is not a single return"
	}
	var names []string
	for _, f := range lf.Decl.Type.Params.List {
		for _, nm := range f.Names {
			names = append(names, nm.Name)
		}
	}
	if len(names) != 2 {
		return false, lessKey + " parameters"
	}
	switch e := unparen(ret.Results[0]).(type) {
	case *ast.BinaryExpr:
		xi, yi := indexVarName(e.X), indexVarName(e.Y)
		switch e.Op {
		case token.LSS:
			return xi == names[0] && yi == names[1], lessKey
		case token.GTR:
			return xi == names[1] && yi == names[0], lessKey
		}
	case *ast.CallExpr:
		if sel, ok := unparen(e.Fun).(*ast.SelectorExpr); ok && len(e.Args) == 1 {
			xi, yi := indexVarName(sel.X), indexVarName(e.Args[0])
			switch sel.Sel.Name {
			case "Before":
				return xi == names[0] && yi == names[1], lessKey
			case "After":
				return xi == names[1] && yi == names[0], lessKey
			}
		}
	}
	return false, lessKey + " does not compare element i with element j in ascending order"
}

// R21.2 — Output emits one row per window in ascending time order, with the advertised column
// order equal to the accumulator struct's field order (the row is the serialized struct), sums
// before averages on both sides, and an average = sum / count.
func ruleCandleOutput(c *Ctx) {
	const rule = "R21.2"
	s := c.S(rule, fnCandlerOut)
	if s == nil {
		return
	}
	info := s.Info
	// (a) the serialising loop ranges over a slice that was sorted ascending on every path
	type serLoop struct {
		X   ast.Expr
		pos token.Pos
	}
	var loops []serLoop
	s.walk(func(m ast.Node) bool {
		if li := asLoop(info, m); li != nil {
			has := false
			walkAll(li.Body, func(k ast.Node) bool {
				if cx, ok := k.(*ast.CallExpr); ok && CalleeName(info, cx) == fnSerializeCd {
					has = true
				}
				return !has
			})
			if has && li.Over != nil {
				loops = append(loops, serLoop{li.Over, li.Node.Pos()})
			} else if has {
				c.Violate(rule, s.Name, "candles-emitted-in-time-order", c.P.Pos(li.Node.Pos()), "the loop that serializes the candles does not iterate over a slice (cannot establish time order)", nil)
			}
		}
		return true
	})

	c.Floor(rule, s.Name, "loops that serialize candles", len(loops), 1)
	for _, rs := range loops {
		t := info.TypeOf(rs.X)
		if _, isMap := t.Underlying().(*types.Map); isMap {
			c.Violate(rule, s.Name, "candles-emitted-in-time-order", c.P.Pos(rs.pos), "candles are serialized while ranging over the candle map: Go map order is random, the output rows are not in time order", nil)
			continue
		}
		o := identObj(info, rs.X)
		if o == nil {
			c.Violate(rule, s.Name, "candles-emitted-in-time-order", c.P.Pos(rs.pos), "the serialising loop does not range over a local slice; cannot establish that it was sorted", nil)
			continue
		}
		asc := true
		why := ""
		sorted := func(sub, top ast.Node) bool {
			call, ok := sub.(*ast.CallExpr)
			if !ok || len(call.Args) == 0 || !mentions(info, call.Args[0], o) {
				return false
			}
			switch CalleeName(info, call) {
			case "sort.Sort", "sort.Stable":
				rev := false
				walkAll(call.Args[0], func(m ast.Node) bool {
					if cx, ok := m.(*ast.CallExpr); ok && CalleeName(info, cx) == "sort.Reverse" {
						rev = true
					}
					return !rev
				})
				if rev {
					return false
				}
				ok2, w := c.ascendingLess(t)
				if !ok2 {
					asc, why = false, w
				}
				return ok2
			case "sort.Slice", "sort.SliceStable", "slices.SortFunc", "slices.SortStableFunc":
				if len(call.Args) != 2 {
					return false
				}
				lit, ok := unparen(call.Args[1]).(*ast.FuncLit)
				if !ok || len(lit.Body.List) != 1 {
					return false
				}
				ret, ok := lit.Body.List[0].(*ast.ReturnStmt)
				if !ok || len(ret.Results) != 1 {
					return false
				}
				var names []string
				for _, f := range lit.Type.Params.List {
					for _, nm := range f.Names {
						names = append(names, nm.Name)
					}
				}
				if len(names) != 2 {
					return false
				}
				if cx, ok := unparen(ret.Results[0]).(*ast.CallExpr); ok && len(cx.Args) == 1 {
					if sel, ok := unparen(cx.Fun).(*ast.SelectorExpr); ok {
						xi, yi := indexVarName(sel.X), indexVarName(cx.Args[0])
						if idx, ok := unparen(sel.X).(*ast.Ident); ok {
							xi = idx.Name
						}
						if idy, ok := unparen(cx.Args[0]).(*ast.Ident); ok {
							yi = idy.Name
						}
						return (sel.Sel.Name == "Before" && xi == names[0] && yi == names[1]) || (sel.Sel.Name == "After" && xi == names[1] && yi == names[0])
					}
				}
				return false
			}
			return false
		}
		r := s.Run(Query{Target: func(sub, top ast.Node) bool { return sub == ast.Node(rs.X) }, Barrier: sorted})
		if !asc {
			c.Violate(rule, s.Name, "candles-emitted-in-time-order", c.P.Pos(rs.pos), "the candle times are sorted with an order that is not ascending: "+why, nil)
		} else {
			c.reportHits(rule, s, "candles-emitted-in-time-order", r, "the serialising loop ranges over the window start times sorted ascending on every path", "candles can be serialized from an unsorted list of window start times (output not in time order)")
		}
	}
	// (b) advertised schema == struct layout
	st := c.P.ByPath["contrib/candler"]
	var fields []*types.Var
	if st != nil {
		if o := st.Types.Scope().Lookup("EOHLCStruct"); o != nil {
			if sct, ok := o.Type().Underlying().(*types.Struct); ok {
				for i := 0; i < sct.NumFields(); i++ {
					fields = append(fields, sct.Field(i))
				}
			}
		}
	}
	var lit *ast.CompositeLit
	s.walk(func(m ast.Node) bool {
		if cl, ok := m.(*ast.CompositeLit); ok && lit == nil {
			if sl, ok := info.TypeOf(cl).Underlying().(*types.Slice); ok && strings.HasSuffix(types.TypeString(sl.Elem(), nil), "io.DataShape") {
				lit = cl
			}
		}
		return true
	})

	if len(fields) == 0 || lit == nil {
		c.Undecided(rule, s.Name, "schema-vs-struct", "EOHLCStruct or the data shape literal of Output not found")
	} else {
		attrs := c.attributeMap(rule)
		sizes := s.Pkg.TypesSizes
		okAll := len(lit.Elts) == len(fields)
		detail := fmt.Sprintf("%d advertised columns, %d struct fields", len(lit.Elts), len(fields))
		for i, el := range lit.Elts {
			if i >= len(fields) {
				break
			}
			cl, ok := el.(*ast.CompositeLit)
			if !ok {
				okAll = false
				continue
			}
			var name, typ string
			for _, e := range cl.Elts {
				if kvx, ok := e.(*ast.KeyValueExpr); ok {
					switch kvx.Key.(*ast.Ident).Name {
					case "Name":
						name, _ = constString(info, kvx.Value)
					case "Type":
						typ = objKey(info, kvx.Value)
					}
				}
			}
			a, known := attrs[typ]
			if name != fields[i].Name() || !known || a.Size != sizes.Sizeof(fields[i].Type()) {
				okAll = false
				detail = fmt.Sprintf("column %d is advertised as %s %s but the serialized struct has field %s %s there", i, name, typ, fields[i].Name(), fields[i].Type())
			}
		}
		c.Check(okAll, rule, s.Name, "schema-vs-struct", c.P.Pos(lit.Pos()), "the advertised columns (name, width, order) are the fields of the serialized accumulator struct: "+detail)
	}
	// (c) sums before averages on both sides; average = sum / count
	order := func(sc *Scope, sumKey, avgKey func(ast.Expr) bool) (string, bool) {
		var seq []string
		sc.walk(func(m ast.Node) bool {
			if li := asLoop(sc.Info, m); li != nil && li.Over != nil {
				switch {
				case sumKey(li.Over):
					seq = append(seq, "sum")
				case avgKey(li.Over):
					seq = append(seq, "avg")
				}
			}
			return true
		})

		return strings.Join(seq, ","), len(seq) == 2 && seq[0] == "sum" && seq[1] == "avg"
	}
	so, ok1 := order(s, func(e ast.Expr) bool { return fieldKey(info, e) == "contrib/candler.Candler.SumNames" }, func(e ast.Expr) bool { return fieldKey(info, e) == "contrib/candler.Candler.AvgNames" })
	c.Check(ok1, rule, s.Name, "sum-then-avg-columns", c.P.Pos(s.Body.Pos()), "Output advertises the sum columns, then the average columns ("+so+")")
	if ser := c.S(rule, fnSerializeCd); ser != nil {
		var p0, p1 types.Object
		if ps := ser.Type.Params.List; len(ps) > 0 {
			var all []*ast.Ident
			for _, f := range ps {
				all = append(all, f.Names...)
			}
			if len(all) == 2 {
				p0, p1 = objOf(ser.Info, all[0]), objOf(ser.Info, all[1])
			}
		}
		so2, ok2 := order(ser, func(e ast.Expr) bool { return p0 != nil && identObj(ser.Info, e) == p0 }, func(e ast.Expr) bool { return p1 != nil && identObj(ser.Info, e) == p1 })
		c.Check(ok2, rule, ser.Name, "sum-then-avg-values", c.P.Pos(ser.Body.Pos()), "the row carries the sums (first parameter), then the averages (second parameter) ("+so2+")")
		// call site passes (SumNames, AvgNames)
		okCall := false
		s.walk(func(m ast.Node) bool {
			if cx, ok := m.(*ast.CallExpr); ok && CalleeName(info, cx) == fnSerializeCd && len(cx.Args) == 2 {
				okCall = fieldKey(info, cx.Args[0]) == "contrib/candler.Candler.SumNames" && fieldKey(info, cx.Args[1]) == "contrib/candler.Candler.AvgNames"
			}
			return true
		})

		c.Check(okCall, rule, s.Name, "serialize-args", c.P.Pos(s.Body.Pos()), "SerializeToRowData is handed (SumNames, AvgNames) in the order of its parameters")
		// the average divides the accumulated sum by the row count
		okAvg := false
		ser.walk(func(m ast.Node) bool {
			if b, ok := m.(*ast.BinaryExpr); ok && b.Op == token.QUO {
				if ix, ok := unparen(b.X).(*ast.IndexExpr); ok && fieldKey(ser.Info, ix.X) == cndl+"SumMap" && mentionsField(ser.Info, b.Y, cndl+"Count") {
					okAvg = true
				}
			}
			return true
		})

		c.Check(okAvg, rule, ser.Name, "avg-is-sum-over-count", c.P.Pos(ser.Body.Pos()), "an average column is SumMap[name] divided by Count")
	}
}

// R21.3 / R22.1 — both candle aggregates feed every input row, once, to the candle of its own
// window: GetCandle(t, …) then AddCandle(t, <columns indexed by the row index>), the row count is
// incremented once per row, sums add the row's own element; for the candle-of-candles aggregate
// the four price arguments are the columns mapped to Open, High, Low, Close in AddCandle's
// positional order (the composition property rests on high→max, low→min, open→first, close→last).
func ruleCandlerAccum(c *Ctx) {
	const rule = "R21.3"
	for _, key := range []string{"(*contrib/candler/tickcandler.TickCandler).Accum", "(*contrib/candler/candlecandler.CandleCandler).Accum"} {
		s := c.S(rule, key)
		if s == nil {
			continue
		}
		info := s.Info
		pkgShort := s.Fn.PkgShort()
		var loop *loopInfo
		s.walk(func(m ast.Node) bool {
			if li := asLoop(info, m); li != nil && loop == nil {
				has := false
				for _, st := range li.Body.List { // AddCandle is a direct statement of the row loop
					if es, ok := st.(*ast.ExprStmt); ok {
						if cx, ok := unparen(es.X).(*ast.CallExpr); ok && CalleeName(info, cx) == fnAddCandle {
							has = true
						}
					}
				}
				if has {
					loop = li
				}
			}
			return true
		})
		if loop == nil {
			c.Undecided(rule, s.Name, "row-loop", "no loop calling AddCandle found")
			continue
		}
		iObj := loop.Index
		isT := func(e ast.Expr) bool { return loop.isElem(info, e) }
		// the loop ranges over the time column
		tsFromGetTime := false
		if o := identObj(info, loop.Over); loop.Over != nil && o != nil {
			s.walk(func(m ast.Node) bool {
				if as, ok := m.(*ast.AssignStmt); ok && len(as.Rhs) == 1 && len(as.Lhs) >= 1 && identObj(info, as.Lhs[0]) == o {
					if cx, ok := unparen(as.Rhs[0]).(*ast.CallExpr); ok && strings.HasSuffix(CalleeName(info, cx), ".GetTime") {
						tsFromGetTime = true
					}
				}
				return true
			})

		}
		c.Check(tsFromGetTime && iObj != nil, rule, s.Name, "row-loop-over-time-column", c.P.Pos(loop.Node.Pos()), "the row loop ranges (index, time) over the input's time column")
		// direct statements of the loop body
		var getIdx, addIdx, cntIdx = -1, -1, -1
		var addCall *ast.CallExpr
		for i, st := range loop.Body.List {
			switch x := st.(type) {
			case *ast.AssignStmt:
				if len(x.Rhs) == 1 {
					if cx, ok := unparen(x.Rhs[0]).(*ast.CallExpr); ok && CalleeName(info, cx) == fnGetCandle {
						if len(cx.Args) >= 1 && isT(cx.Args[0]) {
							getIdx = i
						}
					}
				}
			case *ast.ExprStmt:
				if cx, ok := unparen(x.X).(*ast.CallExpr); ok && CalleeName(info, cx) == fnAddCandle {
					addIdx, addCall = i, cx
				}
			case *ast.IncDecStmt:
				if x.Tok == token.INC && fieldKey(info, x.X) == cndl+"Count" {
					cntIdx = i
				}
			}
		}
		c.Check(getIdx >= 0 && addIdx > getIdx, rule, s.Name, "candle-of-own-window", c.P.Pos(loop.Node.Pos()), "every row first selects the candle of its own time (GetCandle(t, …)) and then updates it, unconditionally")
		c.Check(cntIdx >= 0, rule, s.Name, "count-once-per-row", c.P.Pos(loop.Node.Pos()), "Count is incremented exactly once per input row (a direct statement of the row loop): averages divide by the number of rows")
		if addCall != nil {
			okArgs := len(addCall.Args) >= 2 && isT(addCall.Args[0])
			var cols []types.Object
			for _, a := range addCall.Args[1:] {
				ix, ok := unparen(a).(*ast.IndexExpr)
				if !ok || identObj(info, ix.Index) != iObj || identObj(info, ix.X) == nil {
					okArgs = false
					continue
				}
				cols = append(cols, identObj(info, ix.X))
			}
			c.Check(okArgs, rule, s.Name, "row-values-by-row-index", c.P.Pos(addCall.Pos()), "AddCandle receives the row's own time and the row's own element of every price column")
			// each price column ← GetAverageColumnFloat32(cols, X), X ← GetMappedColumns(requiredColumns[k].Name)
			req, _ := c.P.pkgVarInit(pkgShort, "requiredColumns")
			var reqNames []string
			if cl, ok := unparen(req).(*ast.CompositeLit); ok {
				for _, el := range cl.Elts {
					if e, ok := el.(*ast.CompositeLit); ok {
						for _, kvx := range e.Elts {
							if p, ok := kvx.(*ast.KeyValueExpr); ok && p.Key.(*ast.Ident).Name == "Name" {
								n, _ := constString(c.P.ByPath[pkgShort].TypesInfo, p.Value)
								reqNames = append(reqNames, n)
							}
						}
					}
				}
			}
			srcIndex := func(o types.Object) int64 {
				// o := GetAverageColumnFloat32(cols, m); m := GetMappedColumns(requiredColumns[k].Name)
				var mapped types.Object
				s.walk(func(m ast.Node) bool {
					if as, ok := m.(*ast.AssignStmt); ok && len(as.Rhs) == 1 && len(as.Lhs) >= 1 && identObj(info, as.Lhs[0]) == o {
						if cx, ok := unparen(as.Rhs[0]).(*ast.CallExpr); ok && strings.HasSuffix(CalleeName(info, cx), "GetAverageColumnFloat32") && len(cx.Args) == 2 {
							mapped = identObj(info, cx.Args[1])
						}
					}
					return true
				})

				res := int64(-1)
				if mapped == nil {
					return res
				}
				s.walk(func(m ast.Node) bool {
					if as, ok := m.(*ast.AssignStmt); ok && len(as.Rhs) == 1 && len(as.Lhs) == 1 && identObj(info, as.Lhs[0]) == mapped {
						if cx, ok := unparen(as.Rhs[0]).(*ast.CallExpr); ok && strings.HasSuffix(CalleeName(info, cx), ".GetMappedColumns") && len(cx.Args) == 1 {
							if sel, ok := unparen(cx.Args[0]).(*ast.SelectorExpr); ok {
								if ix, ok := unparen(sel.X).(*ast.IndexExpr); ok && objKey(info, ix.X) == pkgShort+".requiredColumns" {
									if k, ok := constInt(info, ix.Index); ok {
										res = k
									}
								}
							}
							if nm, ok := constString(info, cx.Args[0]); ok {
								for k, rn := range reqNames {
									if rn == nm {
										res = int64(k)
									}
								}
							}
						}
					}
					return true
				})

				return res
			}
			if len(cols) == 4 {
				want := []string{"Open", "High", "Low", "Close"}
				for k, o := range cols {
					si := srcIndex(o)
					got := "?"
					if si >= 0 && int(si) < len(reqNames) {
						got = reqNames[si]
					}
					c.Check(got == want[k], "R22.1", s.Name, "ohlc-position:"+want[k], c.P.Pos(addCall.Args[k+1].Pos()),
						fmt.Sprintf("price argument %d of AddCandle (its %s slot) is the input column mapped to %q", k, strings.ToLower(want[k]), got))
				}
			} else if len(cols) == 1 {
				si := srcIndex(cols[0])
				c.Check(si == 0, rule, s.Name, "tick-price-source", c.P.Pos(addCall.Pos()), "the single tick price is the column mapped to the first required argument")
			} else {
				c.Violate(rule, s.Name, "price-arity", c.P.Pos(addCall.Pos()), fmt.Sprintf("AddCandle is handed %d price columns (1 for ticks or 4 for candles expected)", len(cols)), nil)
			}
		}
		// sums: SumMap[name] += float64(sumCols[name][i]) inside the row loop
		okSum := false
		walkAll(loop.Body, func(m ast.Node) bool {
			if as, ok := m.(*ast.AssignStmt); ok && as.Tok == token.ADD_ASSIGN && len(as.Lhs) == 1 {
				if ix, ok := unparen(as.Lhs[0]).(*ast.IndexExpr); ok && fieldKey(info, ix.X) == cndl+"SumMap" {
					usesI := false
					walkAll(as.Rhs[0], func(k ast.Node) bool {
						if ix2, ok := k.(*ast.IndexExpr); ok && identObj(info, ix2.Index) == iObj {
							usesI = true
						}
						return true
					})
					okSum = usesI && types.ExprString(ix.Index) != "" && mentionsSameKey(info, ix.Index, as.Rhs[0])
				}
			}
			return true
		})

		c.Check(okSum, rule, s.Name, "sum-adds-own-row-element", c.P.Pos(loop.Node.Pos()), "SumMap[name] accumulates (+=) the row's own element of the column with the same name")
	}
}

// mentionsSameKey: the index expression key (an identifier) also occurs in e.
func mentionsSameKey(info *types.Info, key ast.Expr, e ast.Expr) bool {
	o := identObj(info, key)
	return o != nil && mentions(info, e, o)
}

// R22.2 — GetCandle hands back a candle whose start is the window start of the row: a passed-in
// candle is reused only on the edge `StartTime == Truncate(t)`, and the map is read and written
// with that same key.
func ruleGetCandle(c *Ctx) {
	const rule = "R22.2"
	s := c.S(rule, fnGetCandle)
	if s == nil {
		return
	}
	info := s.Info
	var ct types.Object
	s.walk(func(m ast.Node) bool {
		if as, ok := m.(*ast.AssignStmt); ok && len(as.Lhs) == 1 && len(as.Rhs) == 1 {
			if cx, ok := unparen(as.Rhs[0]).(*ast.CallExpr); ok && strings.HasSuffix(CalleeName(info, cx), "CandleDuration).Truncate") && ct == nil {
				ct = identObj(info, as.Lhs[0])
			}
		}
		return true
	})

	if ct == nil {
		c.Violate(rule, s.Name, "window-start-computed", c.P.Pos(s.Body.Pos()), "GetCandle does not compute the window start with CandleDuration.Truncate", nil)
		return
	}
	// every return: either CMap[ct] or a value behind the StartTime == ct edge
	eq := func(f []Fact) bool {
		for _, x := range f {
			if b, ok := isCompare(x.Expr, token.EQL); ok && x.Val && x.Tag == nil {
				if (fieldKey(info, b.X) == cndl+"StartTime" && identObj(info, b.Y) == ct) || (fieldKey(info, b.Y) == cndl+"StartTime" && identObj(info, b.X) == ct) {
					return true
				}
			}
			if cx, ok := unparen(x.Expr).(*ast.CallExpr); ok && x.Val && x.Tag == nil && len(cx.Args) == 1 {
				if sel, ok := unparen(cx.Fun).(*ast.SelectorExpr); ok && sel.Sel.Name == "Equal" {
					if (fieldKey(info, sel.X) == cndl+"StartTime" && identObj(info, cx.Args[0]) == ct) || (fieldKey(info, cx.Args[0]) == cndl+"StartTime" && identObj(info, sel.X) == ct) {
						return true
					}
				}
			}
		}
		return false
	}
	// locals that hold the map entry of the window start (v := CMap[ct] / v, ok := CMap[ct]) or a
	// candle created with that window start (v := NewCandle(ct, …))
	const cmap = "contrib/candler.Candler.CMap"
	isEntry := func(e ast.Expr) bool {
		ix, ok := unparen(e).(*ast.IndexExpr)
		return ok && fieldKey(info, ix.X) == cmap && identObj(info, ix.Index) == ct
	}
	isNew := func(e ast.Expr) bool {
		cx, ok := unparen(e).(*ast.CallExpr)
		return ok && strings.HasSuffix(CalleeName(info, cx), "candler.NewCandle") && len(cx.Args) >= 1 && identObj(info, cx.Args[0]) == ct
	}
	entryVars, newVars := map[types.Object]bool{}, map[types.Object]bool{}
	s.walk(func(m ast.Node) bool {
		if as, ok := m.(*ast.AssignStmt); ok && len(as.Rhs) == 1 && len(as.Lhs) >= 1 {
			if o := identObj(info, as.Lhs[0]); o != nil {
				if isEntry(as.Rhs[0]) {
					entryVars[o] = true
				}
				if isNew(as.Rhs[0]) {
					newVars[o] = true
				}
			}
		}
		return true
	})
	// a created candle counts as "the entry" once it was stored under the window start
	stored := map[types.Object]bool{}
	okNew := false
	s.walk(func(m ast.Node) bool {
		if as, ok := m.(*ast.AssignStmt); ok && len(as.Lhs) == 1 && len(as.Rhs) == 1 && isEntry(as.Lhs[0]) {
			if isNew(as.Rhs[0]) {
				okNew = true
			}
			if o := identObj(info, as.Rhs[0]); o != nil && newVars[o] {
				okNew = true
				stored[o] = true
			}
		}
		return true
	})
	r := s.Run(Query{Target: func(sub, top ast.Node) bool {
		rs, ok := sub.(*ast.ReturnStmt)
		if !ok || len(rs.Results) != 1 {
			return false
		}
		if isEntry(rs.Results[0]) {
			return false // the map entry of the window start
		}
		if o := identObj(info, rs.Results[0]); o != nil && (entryVars[o] || stored[o]) {
			return false
		}
		return true
	}, Exempt: eq})
	c.reportHits(rule, s, "reuse-only-for-same-window", r, "a candle other than CMap[window start] is returned only on the edge where its StartTime equals the row's window start", "GetCandle can hand back a candle of another window (rows are merged into the wrong candle)")
	c.Check(okNew, rule, s.Name, "new-candle-keyed-by-its-start", c.P.Pos(s.Body.Pos()), "a new candle is stored under the window start it is created with")
}

// ---- C31 -----------------------------------------------------------------------------------

// suffixCases returns the string constants a function switches its `suffix` field on
// (switch cases and `suffix == "X"` comparisons).
func suffixCases(s *Scope) map[string]bool {
	out := map[string]bool{}
	const fld = "utils.CandleDuration.suffix"
	s.walk(func(m ast.Node) bool {
		switch x := m.(type) {
		case *ast.SwitchStmt:
			if x.Tag != nil && fieldKey(s.Info, x.Tag) == fld {
				for _, cc := range x.Body.List {
					for _, e := range cc.(*ast.CaseClause).List {
						if v, ok := constString(s.Info, e); ok {
							out[v] = true
						}
					}
				}
			}
		case *ast.BinaryExpr:
			if x.Op == token.EQL || x.Op == token.NEQ {
				if fieldKey(s.Info, x.X) == fld {
					if v, ok := constString(s.Info, x.Y); ok {
						out[v] = true
					}
				}
				if fieldKey(s.Info, x.Y) == fld {
					if v, ok := constString(s.Info, x.X); ok {
						out[v] = true
					}
				}
			}
		}
		return true
	})

	return out
}

// R31.1 — the sibling window functions agree on which suffixes are calendar-based, every suffix
// the parser accepts has either a fixed duration or calendar handling in all three, and their
// fixed-duration branches use the same grid (Time.Truncate by the candle's duration).
func ruleTimeframeTables(c *Ctx) {
	const rule = "R31.1"
	tr, ce, iw := c.S(rule, "(*utils.CandleDuration).Truncate"), c.S(rule, "(*utils.CandleDuration).Ceil"), c.S(rule, "(*utils.CandleDuration).IsWithin")
	if tr == nil || ce == nil || iw == nil {
		return
	}
	ct, cc, ci := suffixCases(tr), suffixCases(ce), suffixCases(iw)
	for _, sfx := range sortedStrs(ct) {
		c.Check(cc[sfx], rule, ce.Name, "calendar-suffix-handled:"+sfx, c.P.Pos(ce.Body.Pos()), "Truncate computes the window start of suffix "+sfx+" on the calendar; Ceil handles that suffix on the calendar too (otherwise start and end come from different grids)")
		c.Check(ci[sfx], rule, iw.Name, "calendar-suffix-handled:"+sfx, c.P.Pos(iw.Body.Pos()), "Truncate computes the window start of suffix "+sfx+" on the calendar; IsWithin handles that suffix on the calendar too")
	}
	for _, sfx := range sortedStrs(cc) {
		c.Check(ct[sfx], rule, tr.Name, "calendar-suffix-handled:"+sfx, c.P.Pos(tr.Body.Pos()), "Ceil computes the window end of suffix "+sfx+" on the calendar; Truncate handles that suffix on the calendar too")
	}
	c.Floor(rule, tr.Name, "calendar suffixes", len(ct), 2)
	// parser alternatives ⊆ suffixDefs ∪ calendar suffixes
	reInit, pk := c.P.pkgVarInit("utils", "timeFrameRegex")
	defs, _ := c.P.pkgVarInit("utils", "suffixDefs")
	defKeys := map[string]bool{}
	zeroDur := map[string]bool{}
	if pk != nil {
		for _, p := range mapLitPairs(defs) {
			if k, ok := constString(pk.TypesInfo, p.K); ok {
				defKeys[k] = true
				if tv, ok := pk.TypesInfo.Types[p.V]; ok && tv.Value != nil {
					if v, ok := constant.Int64Val(constant.ToInt(tv.Value)); ok && v <= 0 {
						zeroDur[k] = true
					}
				}
			}
		}
	}
	var alts []string
	if cx, ok := unparen(reInit).(*ast.CallExpr); ok && len(cx.Args) == 1 && pk != nil {
		if pat, ok := constString(pk.TypesInfo, cx.Args[0]); ok {
			if re, err := syntax.Parse(pat, syntax.Perl); err == nil {
				alts = literalAlternatives(re)
			}
		}
	}
	if len(alts) == 0 || len(defKeys) == 0 {
		c.Undecided(rule, "utils.timeFrameRegex", "suffix-alternatives", "could not extract the suffix alternatives of timeFrameRegex or the keys of suffixDefs")
	} else {
		sort.Strings(alts)
		for _, a := range alts {
			cal := ct[a] && cc[a] && ci[a]
			okA := (defKeys[a] && !zeroDur[a]) || cal
			c.Check(okA, rule, "utils.CandleDurationFromString", "accepted-suffix-has-a-grid:"+a, c.P.Pos(reInit.Pos()),
				"suffix "+a+" accepted by the parser has a positive fixed duration in suffixDefs or calendar handling in Truncate, Ceil and IsWithin (a zero duration makes every window empty)")
		}
	}
	// fixed-duration branches: the same grid
	durFld := "utils.CandleDuration.duration"
	truncCalls := func(s *Scope) (n int, ok bool) {
		ok = true
		s.walk(func(m ast.Node) bool {
			if cx, isC := m.(*ast.CallExpr); isC && CalleeName(s.Info, cx) == "(time.Time).Truncate" {
				n++
				if len(cx.Args) != 1 || fieldKey(s.Info, cx.Args[0]) != durFld {
					ok = false
				}
			}
			return true
		})

		return
	}
	for _, s := range []*Scope{tr, ce, iw} {
		n, ok := truncCalls(s)
		c.Check(n >= 1 && ok, rule, s.Name, "fixed-duration-grid", c.P.Pos(s.Body.Pos()), fmt.Sprintf("the fixed-duration branch aligns on Time.Truncate(cd.duration) (%d call(s)); all three siblings use the one grid", n))
	}
	// Ceil's fixed branch adds exactly one duration before truncating
	okAdd := false
	ce.walk(func(m ast.Node) bool {
		if cx, isC := m.(*ast.CallExpr); isC && CalleeName(ce.Info, cx) == "(time.Time).Truncate" {
			if sel, ok := unparen(cx.Fun).(*ast.SelectorExpr); ok {
				if inner, ok := unparen(sel.X).(*ast.CallExpr); ok && CalleeName(ce.Info, inner) == "(time.Time).Add" && len(inner.Args) == 1 && fieldKey(ce.Info, inner.Args[0]) == durFld {
					okAdd = true
				}
			}
		}
		return true
	})

	c.Check(okAdd, rule, ce.Name, "end-is-start-of-next-window", c.P.Pos(ce.Body.Pos()), "the fixed-duration window end is Truncate(ts + duration): strictly after ts and on the same grid as the start")
	// IsWithin's fixed branch compares Truncate(ts) with the start (the row's own window)
	okCmp := false
	var tsObj types.Object
	if ps := iw.Type.Params.List; len(ps) > 0 && len(ps[0].Names) > 0 {
		tsObj = objOf(iw.Info, ps[0].Names[0])
	}
	iw.walk(func(m ast.Node) bool {
		check := func(x, y ast.Expr) {
			if cx, isC := unparen(x).(*ast.CallExpr); isC && CalleeName(iw.Info, cx) == "(time.Time).Truncate" {
				if sel, ok := unparen(cx.Fun).(*ast.SelectorExpr); ok && identObj(iw.Info, sel.X) == tsObj && tsObj != nil && identObj(iw.Info, y) != nil {
					okCmp = true
				}
			}
		}
		if b, ok := isCompareNode(m, token.EQL); ok {
			check(b.X, b.Y)
			check(b.Y, b.X)
		}
		if cx, ok := m.(*ast.CallExpr); ok && len(cx.Args) == 1 {
			if sel, ok := unparen(cx.Fun).(*ast.SelectorExpr); ok && sel.Sel.Name == "Equal" {
				check(sel.X, cx.Args[0])
				check(cx.Args[0], sel.X)
			}
		}
		return true
	})

	c.Check(okCmp, rule, iw.Name, "inside-own-window", c.P.Pos(iw.Body.Pos()), "for fixed durations a timestamp is inside the window whose start equals Truncate(timestamp)")
}

// literalAlternatives enumerates the (finite) language of the LAST capture group of the
// pattern: the suffix alternatives. The regexp parser factors common prefixes and single
// letters into character classes, so the syntax tree is enumerated rather than read off.
func literalAlternatives(re *syntax.Regexp) []string {
	var last *syntax.Regexp
	var find func(r *syntax.Regexp)
	find = func(r *syntax.Regexp) {
		if r.Op == syntax.OpCapture {
			last = r
		}
		for _, s := range r.Sub {
			find(s)
		}
	}
	find(re)
	if last == nil {
		return nil
	}
	out, ok := enumerateRegexp(last)
	if !ok {
		return nil
	}
	return out
}

func enumerateRegexp(r *syntax.Regexp) ([]string, bool) {
	const limit = 256
	switch r.Op {
	case syntax.OpEmptyMatch:
		return []string{""}, true
	case syntax.OpLiteral:
		return []string{string(r.Rune)}, true
	case syntax.OpCapture:
		if len(r.Sub) == 1 {
			return enumerateRegexp(r.Sub[0])
		}
	case syntax.OpCharClass:
		var out []string
		for i := 0; i+1 < len(r.Rune); i += 2 {
			if r.Rune[i+1]-r.Rune[i] > 64 {
				return nil, false
			}
			for c := r.Rune[i]; c <= r.Rune[i+1]; c++ {
				out = append(out, string(c))
			}
		}
		return out, len(out) <= limit
	case syntax.OpAlternate:
		var out []string
		for _, s := range r.Sub {
			x, ok := enumerateRegexp(s)
			if !ok {
				return nil, false
			}
			out = append(out, x...)
		}
		return out, len(out) <= limit
	case syntax.OpConcat:
		out := []string{""}
		for _, s := range r.Sub {
			x, ok := enumerateRegexp(s)
			if !ok {
				return nil, false
			}
			var next []string
			for _, a := range out {
				for _, b := range x {
					next = append(next, a+b)
				}
			}
			if len(next) > limit {
				return nil, false
			}
			out = next
		}
		return out, true
	case syntax.OpQuest:
		x, ok := enumerateRegexp(r.Sub[0])
		return append([]string{""}, x...), ok
	}
	return nil, false
}

// R31.2 — the timeframe chosen for querying a duration divides that duration: a member of the
// timeframe table is returned only on the edge where the candle's duration modulo that very
// member's duration is zero.
func ruleQueryableDivides(c *Ctx) {
	const rule = "R31.2"
	s := c.S(rule, "(*utils.CandleDuration).QueryableTimeframe")
	if s == nil {
		return
	}
	info := s.Info
	tblElem := func(e ast.Expr) (idx string, ok bool) {
		// Timeframes[i].<field>
		sel, isSel := unparen(e).(*ast.SelectorExpr)
		if !isSel {
			return "", false
		}
		// Timeframes[i] directly, or a single-definition local that stands for it
		ix, isIx := resolveLocal(info, s.Body, sel.X).(*ast.IndexExpr)
		if !isIx || objKey(info, ix.X) != "utils.Timeframes" {
			return "", false
		}
		return types.ExprString(ix.Index), true
	}
	n := 0
	r := s.Run(Query{
		Target: func(sub, top ast.Node) bool {
			rs, ok := sub.(*ast.ReturnStmt)
			if !ok || len(rs.Results) != 1 {
				return false
			}
			_, isT := tblElem(rs.Results[0])
			if isT {
				n++
			}
			return isT
		},
		Exempt: func(f []Fact) bool {
			for _, x := range f {
				b, ok := isCompare(x.Expr, token.EQL)
				if !ok || !x.Val || x.Tag != nil {
					continue
				}
				rem, isRem := unparen(b.X).(*ast.BinaryExpr)
				other := b.Y
				if !isRem {
					rem, isRem = unparen(b.Y).(*ast.BinaryExpr)
					other = b.X
				}
				if !isRem || rem.Op != token.REM {
					continue
				}
				if tv, ok := info.Types[other]; !ok || tv.Value == nil || constant.Sign(constant.ToInt(tv.Value)) != 0 {
					if cx, isConv := unparen(other).(*ast.CallExpr); !isConv || len(cx.Args) != 1 {
						continue
					} else if v, ok := constInt(info, cx.Args[0]); !ok || v != 0 {
						continue
					}
				}
				if fieldKey(info, rem.X) != "utils.CandleDuration.duration" {
					continue
				}
				if _, ok := tblElem(rem.Y); ok {
					return true
				}
			}
			return false
		},
	})
	c.Floor(rule, s.Name, "returns of a timeframe-table member", r.TargetSites, 1)
	// the index used in the test is the index returned
	sameIdx := true
	s.walk(func(m ast.Node) bool {
		is, ok := m.(*ast.IfStmt)
		if !ok {
			return true
		}
		var condIdx string
		walkAll(is.Cond, func(k ast.Node) bool {
			if b, ok := k.(*ast.BinaryExpr); ok && b.Op == token.REM {
				if i, ok := tblElem(b.Y); ok {
					condIdx = i
				}
			}
			return true
		})
		if condIdx == "" {
			return true
		}
		for _, st := range is.Body.List {
			if rs, ok := st.(*ast.ReturnStmt); ok && len(rs.Results) == 1 {
				if i, ok := tblElem(rs.Results[0]); ok && i != condIdx {
					sameIdx = false
				}
			}
		}
		return true
	})

	c.reportHits(rule, s, "returned-timeframe-divides-duration", r, "a timeframe of the table is returned only behind `duration % thatTimeframe.Duration == 0`", "a timeframe that does not divide the candle duration can be chosen for the query (windows then straddle base records)")
	c.Check(sameIdx, rule, s.Name, "tested-member-is-returned-member", c.P.Pos(s.Body.Pos()), "the member whose duration was tested is the member that is returned")
}

// R31.4 — calendar windows are computed on the calendar: in the suffix-specific (calendar)
// branches of Truncate and Ceil a boundary is built with time.Date / AddDate from date fields,
// never by adding a fixed duration to an instant. A local day lasts 23 or 25 hours when daylight
// saving starts or ends, so `x.Add(Day)` lands in the same calendar day (window end not after
// the timestamp) or skips one.
func ruleCalendarBranchesUseCalendar(c *Ctx) {
	const rule = "R31.4"
	for _, key := range []string{"(*utils.CandleDuration).Truncate", "(*utils.CandleDuration).Ceil"} {
		s := c.S(rule, key)
		if s == nil {
			continue
		}
		info := s.Info
		const fld = "utils.CandleDuration.suffix"
		// calendar branch bodies: case clauses of a switch on the suffix (non-default) and
		// if-bodies guarded by `suffix == "X"`
		type branch struct {
			sfx  string
			body []ast.Stmt
			pos  token.Pos
		}
		var brs []branch
		for _, b := range s.bodies() {
			walkAll(b, func(m ast.Node) bool {
				switch x := m.(type) {
				case *ast.SwitchStmt:
					if x.Tag != nil && fieldKey(info, x.Tag) == fld {
						for _, cc := range x.Body.List {
							cl := cc.(*ast.CaseClause)
							var names []string
							for _, e := range cl.List {
								if v, ok := constString(info, e); ok {
									names = append(names, v)
								}
							}
							if len(names) > 0 {
								brs = append(brs, branch{strings.Join(names, ","), cl.Body, cl.Pos()})
							}
						}
					}
				case *ast.IfStmt:
					if b, ok := isCompare(x.Cond, token.EQL); ok {
						var v string
						var isS bool
						if fieldKey(info, b.X) == fld {
							v, isS = constString(info, b.Y)
						} else if fieldKey(info, b.Y) == fld {
							v, isS = constString(info, b.X)
						}
						if isS {
							brs = append(brs, branch{v, x.Body.List, x.Pos()})
						}
					}
				}
				return true
			})
		}
		c.Floor(rule, s.Name, "calendar branches", len(brs), 2)
		for _, br := range brs {
			var bad ast.Node
			nDate := 0
			for _, st := range br.body {
				walkAll(st, func(m ast.Node) bool {
					cx, ok := m.(*ast.CallExpr)
					if !ok {
						return true
					}
					switch CalleeName(info, cx) {
					case "(time.Time).Add", "(time.Time).Truncate", "(time.Time).Round":
						if bad == nil {
							bad = cx
						}
					case "time.Date", "(time.Time).AddDate":
						nDate++
					}
					return true
				})
			}
			construct := "calendar-branch:" + br.sfx
			if bad != nil {
				c.Violate(rule, s.Name, construct, c.P.Pos(bad.Pos()),
					"the window boundary of suffix "+br.sfx+" is derived by adding/truncating a fixed duration ("+types.ExprString(bad.(ast.Expr))+"): on the 23/25-hour day of a daylight-saving change the result is not the next/previous local midnight (the window end can be at or before the timestamp); build the boundary from date fields with time.Date / AddDate", nil)
			} else {
				c.Hold(rule, s.Name, construct, c.P.Pos(br.pos), fmt.Sprintf("boundary built from calendar fields (%d time.Date/AddDate call(s)), no fixed-duration arithmetic", nDate))
			}
		}
	}
}
