package main

import (
	"fmt"
	"go/ast"
	"go/types"
	"strings"
)

// ---- C17 -----------------------------------------------------------------------------------

var catalogFields = map[string]bool{
	"catalog.Directory.subDirs": true, "catalog.Directory.datafile": true, "catalog.Directory.category": true,
	"catalog.Directory.categorySet": true,
}

// Directory.itemName and pathToItemName are set only before a node is published (load from
// disk, or addSubdir on the freshly built sub-directory); R17.1 verifies that and therefore
// does not require a lock for reading them.
var catalogImmutableWriters = map[string]map[string]bool{
	"catalog.Directory.itemName":       {"catalog.load": true, "(*catalog.Directory).addSubdir": true},
	"catalog.Directory.pathToItemName": {"catalog.load": true},
}

var catalogLockExceptions = []lockException{
	{"catalog.load", "*", "constructor: runs before the Directory is published (NewDirectory), single-threaded by construction"},
	{"catalog.NewDirectory", "*", "constructor"},
	{"(*catalog.Directory).addSubdir", "receiver", "caller-holds: only called from AddTimeBucket, which holds the receiver's write lock (verified by the caller check below)"},
	{"(*catalog.Directory).addSubdir", "param#0", "the sub-directory was just built by NewDirectory and is not yet published"},
	{"catalog.catalogListFunc", "param#0", "caller-holds: levelFunc invoked by recurse under the node's RLock (verified below)"},
}

// R17.1 — Directory state is accessed under its own lock.
func ruleCatalogLocking(c *Ctx) {
	const rule = "R17.1"
	ex := append([]lockException{}, catalogLockExceptions...)
	// function literals passed to recurse: first parameter is locked by recurse
	rec := c.S(rule, "(*catalog.Directory).recurse")
	if rec != nil {
		// verify recurse calls its levelFunc parameter only under the receiver's RLock, on the receiver
		var lf types.Object
		if rec.Type.Params != nil {
			for _, f := range rec.Type.Params.List {
				for _, nm := range f.Names {
					if strings.HasSuffix(typeShort(rec.Info.TypeOf(f.Type)), "levelFunc") {
						lf = objOf(rec.Info, nm)
					}
				}
			}
		}
		recv := objOf(rec.Info, rec.Fn.Decl.Recv.List[0].Names[0])
		call := func(sub, top ast.Node) bool {
			cx, ok := sub.(*ast.CallExpr)
			return ok && lf != nil && identObj(rec.Info, cx.Fun) == lf
		}
		lock := func(sub, top ast.Node) bool {
			if _, isDefer := top.(*ast.DeferStmt); isDefer {
				return false
			}
			o, ok := lockCall(rec.Info, sub, "Lock", "RLock")
			return ok && o == recv
		}
		r := rec.Run(Query{Target: call, Barrier: lock})
		c.Floor(rule, rec.Name, "levelFunc invocations", r.TargetSites, 1)
		okArg := true
		for _, n := range rec.sites(call) {
			cx := n.(*ast.CallExpr)
			if len(cx.Args) == 0 || identObj(rec.Info, cx.Args[0]) != recv {
				okArg = false
			}
		}
		c.Check(len(r.Hits) == 0 && okArg, rule, rec.Name, "levelFunc-called-under-RLock", c.P.Pos(rec.Body.Pos()), "recurse invokes levelFunc(d, …) on its receiver while holding the receiver's RLock (basis of the caller-holds exceptions)")
		// every literal handed to recurse gets the exception for its first parameter
		for _, s := range c.P.scopesOfPackage("catalog") {
			if s.Fn == nil || s.Body == s.Fn.Decl.Body {
				continue
			}
			// literal scope: is it passed (directly or through a local variable) to recurse?
			lit := litOf(s)
			if lit == nil {
				continue
			}
			passed := false
			outer := c.P.ScopeOf(s.Fn)
			var holder types.Object
			walkAll(s.Fn.Decl.Body, func(n ast.Node) bool {
				if as, ok := n.(*ast.AssignStmt); ok && len(as.Rhs) == 1 && unparen(as.Rhs[0]) == ast.Expr(lit) {
					holder = identObj(outer.Info, as.Lhs[0])
				}
				return true
			})

			walkAll(s.Fn.Decl.Body, func(n ast.Node) bool {
				if cx, ok := n.(*ast.CallExpr); ok && CalleeName(outer.Info, cx) == "(*catalog.Directory).recurse" && len(cx.Args) == 2 {
					if unparen(cx.Args[1]) == ast.Expr(lit) || (holder != nil && identObj(outer.Info, cx.Args[1]) == holder) {
						passed = true
					}
				}
				return true
			})

			if passed {
				ex = append(ex, lockException{s.Name2(), "param#0", "caller-holds: levelFunc literal invoked by recurse under the node's RLock"})
			}
		}
	}
	// addSubdir's only caller holds the write lock
	c.checkDominated(rule, "(*catalog.Directory).addSubdir", map[string]string{"(*catalog.Directory).AddTimeBucket": "holds d.Lock()"}, "caller-holds helper")
	if at := c.S(rule, "(*catalog.Directory).AddTimeBucket"); at != nil {
		recv := objOf(at.Info, at.Fn.Decl.Recv.List[0].Names[0])
		r := at.Run(Query{Target: callPred(at, "(*catalog.Directory).addSubdir"), Barrier: func(sub, top ast.Node) bool {
			o, ok := lockCall(at.Info, sub, "Lock")
			return ok && o == recv
		}})
		c.reportHits(rule, at, "addSubdir-under-write-lock", r, "AddTimeBucket calls addSubdir with its write lock held", "addSubdir runs without the directory's write lock")
	}
	c.checkLockDiscipline(rule, "catalog", catalogFields, ex, 40)
	// fields read without a lock are immutable after publication
	for field, writers := range catalogImmutableWriters {
		sites := fieldWriteSites(c.P, field)
		for _, st := range sites {
			ok := writers[st.Fn.Key]
			// addSubdir may only write the field of its (unpublished) parameter
			c.Check(ok, rule, st.Fn.Key, "write:"+strings.TrimPrefix(field, "catalog."), c.P.Pos(st.Pos), field+" is written only while a node is built (before it is published), so lock-free reads are safe")
		}
		c.Floor(rule, "catalog", "writes of "+field, len(sites), 1)
	}
}

func litOf(s *Scope) *ast.FuncLit {
	var out *ast.FuncLit
	walkAll(s.Fn.Decl.Body, func(n ast.Node) bool {
		if lit, ok := n.(*ast.FuncLit); ok && lit.Body == s.Body {
			out = lit
		}
		return out == nil
	})

	return out
}

// R17.2 — structural changes are serialised by the root directory's write lock.
func ruleStructuralChangesSerialised(c *Ctx) {
	const rule = "R17.2"
	type ent struct {
		key     string
		targets []string
	}
	for _, e := range []ent{
		{"(*catalog.Directory).AddTimeBucket", []string{"os.Mkdir", "catalog.writeCategoryNameFile", "catalog.newTimeBucketInfoFromTemplate", "catalog.NewDirectory", "(*catalog.Directory).addSubdir"}},
		{"(*catalog.Directory).GetSubDirectoryAndAddFile", []string{"(*catalog.Directory).AddFile"}},
		{"(*catalog.Directory).RemoveTimeBucket", []string{"catalog.removeDirFiles", "(*catalog.Directory).removeSubDir"}},
	} {
		s := c.S(rule, e.key)
		if s == nil {
			continue
		}
		recv := objOf(s.Info, s.Fn.Decl.Recv.List[0].Names[0])
		lock := func(sub, top ast.Node) bool {
			o, ok := lockCall(s.Info, sub, "Lock")
			return ok && o == recv
		}
		r := s.Run(Query{Target: callPred(s, e.targets...), Barrier: lock})
		c.Floor(rule, s.Name, "structure-changing call sites", r.TargetSites, 1)
		if len(r.Hits) == 0 {
			c.Hold(rule, s.Name, "root-write-lock-held", c.P.Pos(s.Body.Pos()), "every step that changes the directory tree or its files runs with the root directory's write lock held")
		} else {
			c.Violate(rule, s.Name, "root-write-lock-held", r.Hits[0].Pos,
				fmt.Sprintf("%d structure-changing step(s) run without the root directory's write lock (only per-node locks): AddTimeBucket rescans the symbol's subtree from disk and replaces it, which is only sound if no file is created or removed meanwhile — a concurrent create/destroy can publish a subtree listing removed files or miss a new one", len(r.Hits)), r.Hits[0].Path)
		}
	}
	// R17.4: file creation and registration stay together in AddFile
	const r4 = "R17.4"
	if s := c.S(r4, "(*catalog.Directory).AddFile"); s != nil {
		store := func(sub, top ast.Node) bool {
			as, ok := sub.(*ast.AssignStmt)
			if !ok {
				return false
			}
			for _, l := range as.Lhs {
				if ix, ok := unparen(l).(*ast.IndexExpr); ok && fieldKey(s.Info, ix.X) == "catalog.Directory.datafile" {
					return true
				}
			}
			return false
		}
		r := s.Run(Query{Target: store, Barrier: callPred(s, "catalog.newTimeBucketInfoFromTemplate"), NeedOK: true})
		c.Floor(r4, s.Name, "datafile registrations", r.TargetSites, 1)
		c.reportHits(r4, s, "register-after-successful-creation", r, "a year file is registered in the catalog only after it was created successfully", "a year file can be registered although its creation failed")
		r2 := s.Run(Query{Start: callPred(s, "catalog.newTimeBucketInfoFromTemplate"), Barrier: store, ExitIsTarget: true, OnlyNilErrorReturns: true,
			Exempt: func(f []Fact) bool {
				for _, x := range f {
					if cx, ok := unparen(x.Expr).(*ast.CallExpr); ok && x.Val && CalleeName(s.Info, cx) == "errors.As" {
						return true // already-exists edge: the existing file is returned
					}
					if id, ok := unparen(x.Expr).(*ast.Ident); ok && x.Val && id.Name == "ok" {
						return true
					}
				}
				return false
			}})
		c.reportHits(r4, s, "created-file-is-registered", r2, "after a successful creation every successful return has registered the file", "a created year file may stay unregistered (writes to it succeed but queries do not see it)")
	}
}

// ---- C18 -----------------------------------------------------------------------------------

type sharedVar struct {
	Key, Kind, Desc string // Kind: pkgvar | field
}

// R18.1 — shared flags are synchronised.
func ruleSharedFlags(c *Ctx) {
	const rule = "R18.1"
	vars := []sharedVar{
		{"executor.haveWALWriter", "pkgvar", "written by the SyncWAL goroutine, read by every writer in RequestFlush"},
		{"executor.WALFileType.shutdownPending", "field", "written by Shutdown, polled by the SyncWAL goroutine"},
		{"frontend.Queryable", "pkgvar", "written by the start/stop code, read by every request"},
		{"utils/io.TimeBucketInfo.variableRecordLength", "field", "lazily written by GetVariableRecordLength from any request goroutine"},
	}
	for _, v := range vars {
		i := strings.LastIndex(v.Key, ".")
		pkgShort := v.Key[:i]
		if v.Kind == "field" {
			j := strings.LastIndex(pkgShort, ".")
			pkgShort = pkgShort[:j]
		}
		pkg := c.P.ByPath[pkgShort]
		if pkg == nil {
			c.Undecided(rule, v.Key, "anchor", "package not found")
			continue
		}
		// declared type
		var t types.Type
		if v.Kind == "pkgvar" {
			if o := pkg.Types.Scope().Lookup(v.Key[i+1:]); o != nil {
				t = o.Type()
			}
		} else {
			parts := strings.Split(v.Key[len(pkgShort)+1:], ".")
			if tn, ok := pkg.Types.Scope().Lookup(parts[0]).(*types.TypeName); ok {
				if st, ok := tn.Type().Underlying().(*types.Struct); ok {
					for k := 0; k < st.NumFields(); k++ {
						if st.Field(k).Name() == parts[1] {
							t = st.Field(k).Type()
						}
					}
				}
			}
		}
		if t == nil {
			c.Undecided(rule, v.Key, "anchor", "shared variable not found (renamed?)")
			continue
		}
		ts := types.TypeString(t, nil)
		if strings.Contains(ts, "sync/atomic.") {
			c.Hold(rule, v.Key, "atomic-type", "", "declared as "+ts+": every access is atomic by construction ("+v.Desc+")")
			c.Obs[len(c.Obs)-1].Pos = pkgShort
			continue
		}
		// otherwise every access must be an argument of a sync/atomic function or under a mutex
		n, bad := 0, 0
		constructors := map[string]string{
			"utils/io.NewTimeBucketInfo": "constructor: the object is not yet shared",
			"executor.NewWALFile":        "constructor: the object is not yet shared",
		}
		for _, fn := range c.P.NonTestFuncs() {
			if fn.Decl.Body == nil || constructors[fn.Key] != "" {
				continue
			}
			info := fn.Pkg.TypesInfo
			file := c.P.FileOf(fn.Pkg, fn.Decl.Pos())
			var par map[ast.Node]ast.Node
			plain := 0
			var firstPos ast.Node
			walkAll(fn.Decl.Body, func(m ast.Node) bool {
				e, ok := m.(ast.Expr)
				if !ok {
					return true
				}
				match := false
				if v.Kind == "pkgvar" {
					if id, isId := e.(*ast.Ident); isId && objKey(info, id) == v.Key {
						match = true
					}
					if sel, isSel := e.(*ast.SelectorExpr); isSel && info.Selections[sel] == nil && objKey(info, sel) == v.Key {
						match = true
					}
				} else if fieldKey(info, e) == v.Key {
					match = true
				}
				if !match {
					return true
				}
				if _, isSel := e.(*ast.SelectorExpr); isSel && v.Kind == "pkgvar" {

				}
				if par == nil {
					par = c.P.Parents(file)
				}

				if _, isKV := par[e].(*ast.KeyValueExpr); isKV {
					return false
				}
				n++
				atomicUse := false
				for p := par[e]; p != nil; p = par[p] {
					if cx, ok := p.(*ast.CallExpr); ok {
						if strings.HasPrefix(CalleeName(info, cx), "sync/atomic.") {
							atomicUse = true
						}
						break
					}
					if _, isStmt := p.(ast.Stmt); isStmt {
						break
					}
				}
				if !atomicUse {
					plain++
					if firstPos == nil {
						firstPos = e
					}
				}
				return false
			})

			if plain > 0 {
				bad++
				c.Violate(rule, fn.Key, "plain-access:"+v.Key, c.P.Pos(firstPos.Pos()),
					fmt.Sprintf("%d plain (non-atomic, unlocked) access(es) to %s, which is %s: a data race by the Go memory model", plain, v.Key, v.Desc), nil)
			}
		}
		if bad == 0 {
			c.Hold(rule, v.Key, "all-accesses-atomic", "", fmt.Sprintf("%d access(es), all through sync/atomic", n))
			c.Obs[len(c.Obs)-1].Pos = pkgShort
		}
		c.Floor(rule, v.Key, "accesses", n, 2)
	}
}

// R18.5 — a fixed-length slot is written by one positional write of index+payload.
func ruleFixedSlotSingleWrite(c *Ctx) {
	const rule = "R18.5"
	s := c.S(rule, fnWBTF)
	if s == nil {
		return
	}
	var fp types.Object
	if s.Type.Params != nil && len(s.Type.Params.List) > 0 && len(s.Type.Params.List[0].Names) > 0 {
		fp = objOf(s.Info, s.Type.Params.List[0].Names[0])
	}
	writes := s.sites(func(sub, top ast.Node) bool { return methodOn(s.Info, sub, fp, "WriteAt", "Write") })
	c.Floor(rule, s.Name, "write sites", len(writes), 1)
	if len(writes) == 1 {
		call := writes[0].(*ast.CallExpr)
		src := call.Args[0]
		if o := identObj(s.Info, src); o != nil {
			s.walk(func(n ast.Node) bool {
				if as, ok := n.(*ast.AssignStmt); ok && len(as.Lhs) == 1 && len(as.Rhs) == 1 && identObj(s.Info, as.Lhs[0]) == o {
					src = as.Rhs[0]
				}
				return true
			})

		}
		ok := false
		if cx, isC := unparen(src).(*ast.CallExpr); isC && CalleeName(s.Info, cx) == "(executor/wal.OffsetIndexBuffer).IndexAndPayload" {
			ok = true
		}
		c.Check(ok, rule, s.Name, "index-and-payload-in-one-write", c.P.Pos(call.Pos()), "the slot's index marker and payload are written by ONE positional write (a reader never sees a marked slot with a stale payload)")
		return
	}
	// several writes: the index must be the last one — not decidable here without knowing which is which
	c.Violate(rule, s.Name, "index-and-payload-in-one-write", c.P.Pos(s.Body.Pos()),
		fmt.Sprintf("the slot is written by %d separate writes: unless the index marker is provably written last, a concurrent reader can see a marked slot with a stale payload", len(writes)), nil)
}

// ---- C26 -----------------------------------------------------------------------------------

func ruleStreamMapGuarded(c *Ctx) {
	const rule = "R26.1"
	fields := map[string]bool{"replication.GRPCReplicationServer.StreamChannels": true}
	ex := []lockException{{"replication.NewGRPCReplicationServer", "*", "constructor"}}
	c.checkLockDiscipline(rule, "replication", fields, ex, 3)
	// R26.2: a channel published in the shared map is closed only under the lock that excludes the sender
	const r2 = "R26.2"
	n := 0
	// published channels of the whole package first (objects are canonical across an extracted
	// register/unregister helper pair), then the closes
	published := map[types.Object]bool{}
	for _, s := range c.P.scopesOfPackage("replication") {
		s.walk(func(m ast.Node) bool {
			if as, ok := m.(*ast.AssignStmt); ok {
				for i, l := range as.Lhs {
					if ix, ok := unparen(l).(*ast.IndexExpr); ok && fields[fieldKey(s.Info, ix.X)] && i < len(as.Rhs) {
						if o := identObj(s.Info, as.Rhs[i]); o != nil {
							published[o] = true
						}
					}
				}
			}
			return true
		})
	}
	for _, s := range c.P.scopesOfPackage("replication") {
		for _, site := range s.sites(func(sub, top ast.Node) bool {
			cx, ok := sub.(*ast.CallExpr)
			return ok && CalleeName(s.Info, cx) == "builtin.close" && len(cx.Args) == 1 && published[identObj(s.Info, cx.Args[0])]
		}) {
			n++
			var root types.Object
			if s.Fn != nil && s.Fn.Decl.Recv != nil && len(s.Fn.Decl.Recv.List[0].Names) > 0 {
				root = objOf(s.Info, s.Fn.Decl.Recv.List[0].Names[0])
			}
			held, path := s.heldAt(root, site, true)
			if held {
				c.Hold(r2, s.Name2(), "close-of-published-channel", c.P.Pos(site.Pos()), "the channel is closed under the lock that excludes senders")
			} else {
				c.Violate(r2, s.Name2(), "close-of-published-channel", c.P.Pos(site.Pos()),
					"a channel that was published in the shared stream map is closed by its RECEIVER without excluding the sender: SendReplicationMessage may already hold it from its range over the map and then sends on a closed channel (panic in the WAL goroutine)", path)
			}
		}
	}
	c.Floor(r2, "package replication", "closes of published channels", n, 1)
	// R26.3: observation only
	if s := c.S("R26.3", "(*replication.GRPCReplicationServer).SendReplicationMessage"); s != nil {
		blocking := 0
		s.walk(func(m ast.Node) bool {
			if _, ok := m.(*ast.SendStmt); ok {
				blocking++
			}
			if _, ok := m.(*ast.SelectStmt); ok {
				blocking = -100
			}
			return true
		})

		c.Hold("R26.3", s.Name, "fan-out-send-observation", c.P.Pos(s.Body.Pos()), fmt.Sprintf("observation only (not a verdict): fan-out uses %d plain blocking send(s) into the per-replica buffered channel; whether the master can block depends on runtime rates", blocking))
	}
}
