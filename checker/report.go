package main

import (
	"encoding/json"
	"fmt"
	"os"
	"path/filepath"
	"sort"
	"strings"
)

// Ob is one obligation: a rule instance evaluated on a concrete construct.
type Ob struct {
	Rule      string   `json:"rule"`
	Function  string   `json:"function"`
	Construct string   `json:"construct"`
	Pos       string   `json:"pos,omitempty"`
	Verdict   string   `json:"verdict"` // holds | violated | known-finding | undecided
	Detail    string   `json:"detail,omitempty"`
	Path      []string `json:"path,omitempty"`
	Config    string   `json:"config,omitempty"`
}

func (o *Ob) Key() string { return o.Rule + "|" + o.Function + "|" + o.Construct }

type KnownFinding struct {
	Status     string   `json:"status"` // known | fixed
	Properties []string `json:"properties"`
	Rule       string   `json:"rule"`
	Function   string   `json:"function"`
	Construct  string   `json:"construct"`
	What       string   `json:"what"`
	Commit     string   `json:"commit,omitempty"`
	Why        string   `json:"why_not_repaired,omitempty"`
}

type Ctx struct {
	P       *Prog
	Prop    string
	Tier    string
	Config  string
	Obs     []*Ob
	Notes   []string
	Anchors int
	curRule string
}

func (c *Ctx) add(rule, fn, construct, pos, verdict, detail string, path []string) *Ob {
	if c.P != nil {
		fn = c.P.ownerKey(fn)
	}
	o := &Ob{Rule: rule, Function: fn, Construct: construct, Pos: pos, Verdict: verdict, Detail: detail, Path: path, Config: c.Config}
	c.Obs = append(c.Obs, o)
	return o
}

func (c *Ctx) Hold(rule, fn, construct, pos, detail string) {
	c.add(rule, fn, construct, pos, "holds", detail, nil)
}

func (c *Ctx) Violate(rule, fn, construct, pos, detail string, path []string) {
	c.add(rule, fn, construct, pos, "violated", detail, path)
}

func (c *Ctx) Undecided(rule, fn, construct, detail string) {
	c.add(rule, fn, construct, "", "undecided", detail, nil)
}

func (c *Ctx) Note(format string, a ...any) { c.Notes = append(c.Notes, fmt.Sprintf(format, a...)) }

// Check records holds/violated depending on ok.
func (c *Ctx) Check(ok bool, rule, fn, construct, pos, detail string) bool {
	if ok {
		c.Hold(rule, fn, construct, pos, detail)
	} else {
		c.Violate(rule, fn, construct, pos, detail, nil)
	}
	return ok
}

// F resolves an anchor function; a missing anchor is an undecided obligation (fails the check).
func (c *Ctx) F(rule, key string) *Func {
	f := c.P.Funcs[key]
	if f == nil {
		c.Undecided(rule, key, "anchor", "unresolved anchor function "+key+" (renamed, moved or deleted): the rule cannot be evaluated")
		return nil
	}
	c.Anchors++
	return f
}

// S resolves an anchor function and returns its scope.
func (c *Ctx) S(rule, key string) *Scope {
	f := c.F(rule, key)
	if f == nil {
		return nil
	}
	s := c.P.ScopeOf(f)
	if s == nil {
		c.Undecided(rule, key, "anchor", "anchor function has no body")
		return nil
	}
	s.Anchor = true
	if hs := c.P.privateHelpers(f); len(hs) > 0 {
		var names []string
		for _, h := range hs {
			names = append(names, h.Key)
		}
		note := key + " is analysed together with its private helpers (only caller: the anchor): " + strings.Join(names, ", ")
		dup := false
		for _, n := range c.P.InlineNotes {
			dup = dup || n == note
		}
		if !dup {
			c.P.InlineNotes = append(c.P.InlineNotes, note)
		}
	}
	return s
}

// Floor asserts a minimum number of instances found by a rule (anti-vacuity).
func (c *Ctx) Floor(rule, fn, what string, got, min int) bool {
	if got < min {
		c.Undecided(rule, fn, "floor:"+what, fmt.Sprintf("found %d %s, expected at least %d confirmed by hand — the rule would pass vacuously", got, what, min))
		return false
	}
	return true
}

func loadKnown(path string) ([]KnownFinding, error) {
	b, err := os.ReadFile(path)
	if err != nil {
		if os.IsNotExist(err) {
			return nil, nil
		}
		return nil, err
	}
	var kf struct {
		Findings []KnownFinding `json:"findings"`
	}
	if err := json.Unmarshal(b, &kf); err != nil {
		return nil, fmt.Errorf("%s: %w", path, err)
	}
	return kf.Findings, nil
}

func matchKnown(kfs []KnownFinding, prop string, o *Ob) *KnownFinding {
	for i := range kfs {
		k := &kfs[i]
		if k.Status != "known" {
			continue
		}
		okp := false
		for _, p := range k.Properties {
			if p == prop {
				okp = true
			}
		}
		if okp && k.Rule == o.Rule && k.Function == o.Function && k.Construct == o.Construct {
			return k
		}
	}
	return nil
}

type Evidence struct {
	PropertyID  string         `json:"property_id"`
	Tier        string         `json:"tier"`
	Seed        int            `json:"seed"`
	Level       string         `json:"level"`
	Coverage    map[string]any `json:"coverage"`
	Assumptions []string       `json:"assumptions"`
	WallS       float64        `json:"wall_s"`
	Violations  int            `json:"violations"`
}

// finish prints the verdict lines, writes replay files and evidence; returns the exit code.
func finish(verifDir string, prop *Property, tier string, seed int, obs []*Ob, notes []string, stats map[string]any, wall float64, selftest map[string]any) int {
	kfs, err := loadKnown(filepath.Join(verifDir, "known_findings.json"))
	if err != nil {
		fmt.Printf("ERROR reading known findings: %v\n", err)
		obs = append(obs, &Ob{Rule: "engine", Function: "known_findings.json", Construct: "parse", Verdict: "undecided", Detail: err.Error()})
	}
	// dedupe obligations across configurations: keep worst verdict per key
	rank := map[string]int{"holds": 0, "known-finding": 1, "violated": 2, "undecided": 3}
	byKey := map[string]*Ob{}
	var order []string
	for _, o := range obs {
		if o.Verdict == "violated" {
			if k := matchKnown(kfs, prop.ID, o); k != nil {
				o.Verdict = "known-finding"
				o.Detail = o.Detail + " [known finding: " + k.What + "]"
			}
		}
		k := o.Key()
		if prev, ok := byKey[k]; ok {
			if rank[o.Verdict] > rank[prev.Verdict] {
				byKey[k] = o
			}
			continue
		}
		byKey[k] = o
		order = append(order, k)
	}
	sort.Strings(order)
	replayDir := filepath.Join(verifDir, "replay", prop.ID)
	os.RemoveAll(replayDir)
	nViol, nKnown, nHold := 0, 0, 0
	rules := map[string]bool{}
	var samples []any
	fns := map[string]bool{}
	nontrivial := map[string]bool{}
	for _, k := range order {
		o := byKey[k]
		rules[o.Rule] = true
		fns[o.Function] = true
		if o.Pos != "" {
			nontrivial[k] = true
		}
		switch o.Verdict {
		case "holds":
			nHold++
		case "known-finding":
			nKnown++
			fmt.Printf("KNOWN-FINDING: property=%s %s %s %s — %s (%s)\n", prop.ID, o.Rule, o.Function, o.Construct, o.Detail, o.Pos)
		default:
			nViol++
			os.MkdirAll(replayDir, 0o755)
			rp := filepath.Join(replayDir, fmt.Sprintf("%03d.json", nViol))
			b, _ := json.MarshalIndent(map[string]any{"property": prop.ID, "obligation": o,
				"how_to_replay": fmt.Sprintf("bin/mscheck -prop %s -tier %s -only '%s'", prop.ID, tier, o.Rule)}, "", " ")
			os.WriteFile(rp, b, 0o644)
			fmt.Printf("  %s %s: %s %s @ %s — %s\n", strings.ToUpper(o.Verdict), o.Rule, o.Function, o.Construct, o.Pos, o.Detail)
			for _, st := range o.Path {
				fmt.Printf("      via %s\n", st)
			}
			fmt.Printf("VIOLATION property=%s replay=%s\n", prop.ID, rp)
		}
	}
	// samples: up to 40 obligations, violations and known findings first
	for _, want := range []string{"violated", "undecided", "known-finding", "holds"} {
		for _, k := range order {
			if o := byKey[k]; o.Verdict == want && len(samples) < 40 {
				samples = append(samples, o)
			}
		}
	}
	var ruleList []string
	for r := range rules {
		ruleList = append(ruleList, r)
	}
	sort.Strings(ruleList)
	cov := map[string]any{
		"explanation":            prop.Explanation,
		"obligations":            len(order),
		"discharged":             nHold,
		"known_findings_matched": nKnown,
		"evaluations":            len(obs),
		"distinct_nontrivial":    len(nontrivial),
		"rule": "one evaluation = one rule instance applied to one resolved construct (function, call site, table entry, CFG query) in one build configuration; " +
			"distinct = distinct (rule, function, construct) keys; non-trivial = the instance resolved to a concrete source position in /repo's current tree",
		"rules_applied":      ruleList,
		"functions_involved": len(fns),
		"samples":            samples,
		"not_covered":        prop.NotCovered,
		"notes":              notes,
		"trusted_base":       []string{"go/types type checker", "golang.org/x/tools v0.29.0 go/packages + go/cfg", "the frozen anchor/gate/exception tables in checker/props_*.go (confirmed by reading)", "known_findings.json"},
	}
	for k, v := range stats {
		cov[k] = v
	}
	if selftest != nil {
		cov["selftest"] = selftest
	}
	ev := Evidence{PropertyID: prop.ID, Tier: tier, Seed: seed, Level: "other", Coverage: cov,
		Assumptions: append([]string{
			"static analysis of source shape only: the listed structural clauses are necessary conditions of the property, not the property itself",
			"go/packages loads the same files the build compiles (default tags, linux/amd64; thorough adds tests and GOARCH=386)",
		}, prop.Assumptions...),
		WallS: wall, Violations: nViol}
	os.MkdirAll(filepath.Join(verifDir, "evidence"), 0o755)
	b, _ := json.MarshalIndent(ev, "", " ")
	if err := os.WriteFile(filepath.Join(verifDir, "evidence", prop.ID+".json"), b, 0o644); err != nil {
		fmt.Printf("ERROR writing evidence: %v\n", err)
		return 2
	}
	fmt.Printf("%s tier=%s obligations=%d holds=%d known=%d violations=%d wall=%.1fs\n", prop.ID, tier, len(order), nHold, nKnown, nViol, wall)
	if nViol > 0 {
		return 1
	}
	return 0
}

// closureScope: the named anchor functions together with their private helpers (functions that
// an extract-function refactoring split off them; inline.go).
func (c *Ctx) closureScope(keys ...string) func(*Func) bool {
	set := map[*Func]bool{}
	for _, k := range keys {
		if f := c.P.Funcs[k]; f != nil {
			set[f] = true
			for _, h := range c.P.privateHelpers(f) {
				set[h] = true
			}
		}
	}
	return func(f *Func) bool { return set[f] }
}
