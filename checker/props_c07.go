package main

import (
	"fmt"
	"go/ast"
	"go/token"
	"go/types"
)

const fldFlushChannel = "executor.TransactionPipe.flushChannel"

// R7.2 — reply-channel discipline, package wide: a reply channel taken from
// txnPipe.flushChannel (directly, or handed on as a parameter) is answered only after a
// FlushToWAL that ran after the request was taken, and it is always answered.
//
// Works across helper extraction: channel-typed parameters that receive a reply channel at
// some call site are tracked as reply channels of the callee.
func ruleReplyDiscipline(c *Ctx) {
	const rule = "R7.2"
	c.F(rule, fnSyncWAL)
	c.F(rule, fnFlushToWAL)
	type fstate struct {
		fn       *Func
		s        *Scope
		recvVars map[types.Object]bool // bound from <-flushChannel
		params   map[types.Object]bool // chan params that are handed a reply channel
	}
	var fs []*fstate
	byKey := map[string]*fstate{}
	for _, fn := range c.P.NonTestFuncs() {
		if fn.PkgShort() != "executor" || fn.Decl.Body == nil {
			continue
		}
		st := &fstate{fn: fn, recvVars: map[types.Object]bool{}, params: map[types.Object]bool{}}
		info := fn.Pkg.TypesInfo
		walkAll(fn.Decl.Body, func(n ast.Node) bool {
			if as, ok := n.(*ast.AssignStmt); ok && len(as.Rhs) == 1 && len(as.Lhs) >= 1 {
				if u, ok := unparen(as.Rhs[0]).(*ast.UnaryExpr); ok && u.Op == token.ARROW && fieldKey(info, u.X) == fldFlushChannel {
					if o := identObj(info, as.Lhs[0]); o != nil {
						st.recvVars[o] = true
					}
				}
			}
			return true
		})

		fs = append(fs, st)
		byKey[fn.Key] = st
	}
	// propagate to parameters (3 rounds)
	for round := 0; round < 3; round++ {
		for _, st := range fs {
			info := st.fn.Pkg.TypesInfo
			walkAll(st.fn.Decl.Body, func(n ast.Node) bool {
				call, ok := n.(*ast.CallExpr)
				if !ok {
					return true
				}
				callee := byKey[CalleeName(info, call)]
				if callee == nil || callee.fn.Decl.Type.Params == nil {
					return true
				}
				var pobjs []types.Object
				for _, f := range callee.fn.Decl.Type.Params.List {
					for _, nm := range f.Names {
						pobjs = append(pobjs, objOf(callee.fn.Pkg.TypesInfo, nm))
					}
				}
				for i, a := range call.Args {
					o := identObj(info, a)
					if o != nil && (st.recvVars[o] || st.params[o]) && i < len(pobjs) && pobjs[i] != nil {
						callee.params[pobjs[i]] = true
					}
				}
				return true
			})

		}
	}
	flushWr := c.P.wrapperSet(func(s *Scope) EvPred {
		return func(sub, top ast.Node) bool { return isCall(s.Info, sub, fnFlushToWAL) }
	}, false, 4)
	ackSites, recvSites := 0, 0
	for _, st := range fs {
		if len(st.recvVars) == 0 && len(st.params) == 0 {
			continue
		}
		s := c.P.ScopeOf(st.fn)
		st.s = s
		info := s.Info
		isReply := func(o types.Object) bool { return o != nil && (st.recvVars[o] || st.params[o]) }
		ack := func(sub, top ast.Node) bool {
			switch x := sub.(type) {
			case *ast.SendStmt:
				return isReply(identObj(info, x.Chan))
			case *ast.CallExpr:
				if CalleeName(info, x) == "builtin.close" && len(x.Args) == 1 {
					return isReply(identObj(info, x.Args[0]))
				}
			}
			return false
		}
		// delegation: passing the reply channel on to a tracked callee
		delegate := func(sub, top ast.Node) bool {
			call, ok := sub.(*ast.CallExpr)
			if !ok || byKey[CalleeName(info, call)] == nil {
				return false
			}
			for _, a := range call.Args {
				if isReply(identObj(info, a)) {
					return true
				}
			}
			return false
		}
		flush := withWrappers(s, func(sub, top ast.Node) bool { return isCall(info, sub, fnFlushToWAL) }, flushWr)
		// "taken" event for a received variable: the comm-clause binding node go/cfg places at
		// the head of the case body, or the receive expression itself outside a select.
		file := c.P.FileOf(s.Pkg, s.Body.Pos())
		par := c.P.Parents(file)
		taken := func(sub, top ast.Node) bool {
			if id, ok := top.(*ast.Ident); ok && sub == top {
				if as, ok := par[id].(*ast.AssignStmt); ok {
					if _, inComm := par[as].(*ast.CommClause); inComm && st.recvVars[objOf(info, id)] {
						return true
					}
				}
				return false
			}
			if u, ok := sub.(*ast.UnaryExpr); ok && u.Op == token.ARROW && fieldKey(info, u.X) == fldFlushChannel {
				// skip receives that are select comms (handled by the binding node)
				for m := par[u]; m != nil; m = par[m] {
					if _, ok := m.(*ast.CommClause); ok {
						if cc := m.(*ast.CommClause); cc.Comm != nil && cc.Comm.Pos() <= u.Pos() && u.End() <= cc.Comm.End() {
							return false
						}
					}
					if _, ok := m.(ast.Stmt); ok {
						if _, isAs := m.(*ast.AssignStmt); !isAs {
							break
						}
					}
				}
				return true
			}
			return false
		}
		if len(st.recvVars) > 0 {
			r := s.Run(Query{Start: taken, Target: orPred(ack, delegate), Barrier: flush})
			recvSites += r.StartSites
			ackSites += len(s.sites(ack))
			if r.StartSites == 0 {
				c.Undecided(rule, s.Name, "request-taken-event", "cannot locate the point where the flush request is taken in the CFG")
			}
			// acks must follow a flush; delegation to a callee is fine if the callee flushes first (checked on the callee)
			rr := s.Run(Query{Start: taken, Target: ack, Barrier: flush})
			c.reportHits(rule, s, "ack-after-flush", rr, "a reply taken from flushChannel is answered only after FlushToWAL ran (after the request was taken)",
				"a flush requester is released although no flush ran after its request was taken: its queued commands are neither in the WAL nor visible")
			// always answered: from the taken event, the next taken event / exit is reached only through an ack or a delegation
			ra := s.Run(Query{Start: taken, Target: taken, Barrier: orPred(ack, delegate), ExitIsTarget: true})
			c.reportHits(rule, s, "request-always-answered", ra, "every taken flush request is answered (or handed to a helper) before the next one is taken or the function exits",
				"a flush request can be dropped without an answer: its RequestFlush caller blocks forever")
		}
		if len(st.params) > 0 {
			rp := s.Run(Query{Target: ack, Barrier: flush})
			ackSites += rp.TargetSites
			c.reportHits(rule, s, "ack-after-flush(param)", rp, "a reply channel received as a parameter is answered only after FlushToWAL ran in this helper",
				"helper releases a flush requester without flushing first")
			// answered on every exit, unless the parameter is nil-tested (optional requester)
			pnil := func(f []Fact) bool {
				for _, x := range f {
					if o, trueNonNil, ok := nilTest(info, x.Expr); ok && st.params[o] && x.Val != trueNonNil {
						return true // param == nil edge: nobody to answer
					}
				}
				return false
			}
			rq := s.Run(Query{Barrier: orPred(ack, delegate), ExitIsTarget: true, Exempt: pnil})
			c.reportHits(rule, s, "param-always-answered", rq, "the helper answers the requester it was handed on every exit",
				"helper can return without answering the requester it was handed")
		}
	}
	c.Floor(rule, "package executor", "points where a flush request is taken", recvSites, 1)
	c.Floor(rule, "package executor", "acknowledgement sites", ackSites, 1)
	c.Note("R7.2 tracked %d function(s) handling reply channels", func() int {
		n := 0
		for _, st := range fs {
			if len(st.recvVars)+len(st.params) > 0 {
				n++
			}
		}
		return n
	}())
	_ = fmt.Sprint
}
