package main

// mscheck — static checker for the marketstore properties in /verif/properties.jsonl.
//
//   mscheck -prop C07 -tier quick|thorough [-repo /repo] [-verif /verif] [-only R7.1]
//
// Every run loads /repo's current working tree, evaluates the property's rule instances,
// prints KNOWN-FINDING / VIOLATION lines and writes evidence/<id>.json.

import (
	"encoding/json"
	"flag"
	"fmt"
	"go/types"
	"os"
	"os/exec"
	"path/filepath"
	"runtime/debug"
	"sort"
	"strconv"
	"strings"
	"sync"
	"time"
)

type RuleFn func(c *Ctx)

type Rule struct {
	ID  string
	Doc string
	Fn  RuleFn
}

// Mutant: a single-site source edit (applied in memory through packages.Config.Overlay)
// that breaks one rule while still type-checking; used by the thorough tier's self-test.
type Mutant struct {
	Name   string
	File   string // relative to repo root
	Old    string
	New    string
	Expect string // rule id that must report a (non-known) violation
}

type Property struct {
	ID          string
	Explanation string
	NotCovered  string
	Assumptions []string
	Rules       []Rule
	Mutants     []Mutant
}

var registry = map[string]*Property{}

var verifDir string

func register(p *Property) { registry[p.ID] = p }

func runRules(p *Prog, prop *Property, tier, config, only string) *Ctx {
	c := &Ctx{P: p, Prop: prop.ID, Tier: tier, Config: config}
	for _, r := range prop.Rules {
		if only != "" && !strings.HasPrefix(r.ID, only) {
			continue
		}
		func() {
			defer func() {
				if x := recover(); x != nil {
					c.Undecided(r.ID, "engine", "panic", fmt.Sprintf("analyser panic: %v\n%s", x, string(debug.Stack())))
				}
			}()
			c.curRule = r.ID
			before := len(c.Obs)
			r.Fn(c)
			if len(c.Obs) == before {
				c.Undecided(r.ID, "engine", "no-instances", "rule produced no obligation at all (would pass vacuously)")
			}
		}()
	}
	return c
}

func main() {
	propID := flag.String("prop", "", "property id")
	tier := flag.String("tier", "", "quick|thorough")
	repo := flag.String("repo", "/repo", "repository root")
	verif := flag.String("verif", "", "verif dir (default: parent of the binary's dir)")
	only := flag.String("only", "", "evaluate only rules with this id prefix")
	mutant := flag.String("mutant", "", "internal: evaluate with this mutant applied and print obligations as JSON")
	seedPatch := flag.String("seedpatch", "", "internal: evaluate with this unified diff applied in memory and print the rules that fired")
	list := flag.Bool("list", false, "list properties and rules")
	noSelf := flag.Bool("noselftest", false, "thorough without the mutant self-test")
	dump := flag.Bool("dump", false, "print the registry as JSON (used by tools/gen_manifest.py)")
	dumpFuncs := flag.Bool("dumpfuncs", false, "print the keys of all non-test module functions (regenerates checker/baseline_funcs.txt)")
	dumpFields := flag.Bool("dumpfields", false, "print the struct fields of the module (regenerates checker/baseline_fields.txt)")
	patch := flag.String("patch", "", "with -all: apply this unified diff to the source in memory first (nothing is written under /repo)")
	all := flag.Bool("all", false, "development aid: load once, evaluate every property, print the obligations that do not hold (no evidence written)")
	replay := flag.String("replay", "", "replay file written for a violation: re-evaluates that rule on the current tree")
	flag.Parse()
	if *replay != "" {
		if b, err := os.ReadFile(*replay); err == nil {
			var rp struct {
				Property   string
				Obligation struct{ Rule string }
			}
			if json.Unmarshal(b, &rp) == nil {
				if *propID == "" {
					*propID = rp.Property
				}
				*only = rp.Obligation.Rule
			}
		}
	}
	if *dump {
		out := map[string]any{}
		for id, p := range registry {
			var rules []map[string]string
			for _, r := range p.Rules {
				rules = append(rules, map[string]string{"id": r.ID, "doc": r.Doc})
			}
			out[id] = map[string]any{"explanation": p.Explanation, "not_covered": p.NotCovered, "rules": rules, "mutants": len(p.Mutants)}
		}
		b, _ := json.MarshalIndent(out, "", " ")
		fmt.Println(string(b))
		return
	}
	if *list {
		var ids []string
		for id := range registry {
			ids = append(ids, id)
		}
		sort.Strings(ids)
		for _, id := range ids {
			fmt.Printf("%s (%d rules, %d mutants)\n", id, len(registry[id].Rules), len(registry[id].Mutants))
			for _, r := range registry[id].Rules {
				fmt.Printf("   %-8s %s\n", r.ID, r.Doc)
			}
		}
		return
	}
	if *tier == "" {
		*tier = os.Getenv("VERIF_TIER")
	}
	if *tier != "thorough" {
		*tier = "quick"
	}
	if *verif == "" {
		exe, _ := os.Executable()
		*verif = filepath.Dir(filepath.Dir(exe))
	}
	seed, _ := strconv.Atoi(os.Getenv("VERIF_SEED"))
	if *dumpFuncs {
		abs, _ := filepath.Abs(*repo)
		p, err := Load(LoadConfig{Dir: abs})
		if err != nil {
			fmt.Fprintln(os.Stderr, err)
			os.Exit(2)
		}
		var ks []string
		for _, f := range p.NonTestFuncs() {
			sg := sigString(f)
			ks = append(ks, f.Key+"\t"+sg)
		}
		sort.Strings(ks)
		fmt.Println(strings.Join(ks, "\n"))
		return
	}
	if *dumpFields {
		abs, _ := filepath.Abs(*repo)
		p, err := Load(LoadConfig{Dir: abs})
		if err != nil {
			fmt.Fprintln(os.Stderr, err)
			os.Exit(2)
		}
		var ls []string
		for _, pkg := range p.Pkgs {
			if strings.HasSuffix(pkg.Name, "_test") {
				continue
			}
			sc := pkg.Types.Scope()
			for _, n := range sc.Names() {
				if tn, ok := sc.Lookup(n).(*types.TypeName); ok {
					if st, ok := tn.Type().Underlying().(*types.Struct); ok {
						for i := 0; i < st.NumFields(); i++ {
							ls = append(ls, short(pkg.PkgPath)+"."+n+"."+st.Field(i).Name()+"\t"+short(types.TypeString(st.Field(i).Type(), nil)))
						}
					}
				}
			}
		}
		sort.Strings(ls)
		fmt.Println(strings.Join(ls, "\n"))
		return
	}
	if *all {
		abs, _ := filepath.Abs(*repo)
		os.Exit(runAll(abs, *verif, *patch))
	}
	prop := registry[*propID]
	if prop == nil {
		fmt.Printf("unknown property %q\n", *propID)
		os.Exit(2)
	}
	abs, _ := filepath.Abs(*repo)
	*repo = abs
	verifDir = *verif

	if *mutant != "" {
		os.Exit(runMutantChild(prop, *repo, *mutant))
	}
	if *seedPatch != "" {
		os.Exit(runSeedChild(prop, *repo, *seedPatch))
	}

	start := time.Now()
	var obs []*Ob
	var notes []string
	stats := map[string]any{}
	configs := []LoadConfig{{Dir: *repo}}
	if *tier == "thorough" {
		// GOARCH=386 is not a configuration the repository itself builds for (the generated SQL
		// parser overflows int there: `GOARCH=386 go build ./...` fails), so it is not analysed
		configs = append(configs, LoadConfig{Dir: *repo, Tests: true})
	}
	var cfgNames []string
	for _, lc := range configs {
		name := "linux/amd64"
		if lc.GOARCH != "" {
			name = "linux/" + lc.GOARCH
		}
		if lc.Tests {
			name += "+tests"
		}
		cfgNames = append(cfgNames, name)
		p, err := Load(lc)
		if err != nil {
			obs = append(obs, &Ob{Rule: "engine", Function: "load", Construct: name, Verdict: "undecided",
				Detail: "cannot load/type-check /repo: " + err.Error(), Config: name})
			continue
		}
		c := runRules(p, prop, *tier, name, *only)
		obs = append(obs, c.Obs...)
		if name == "linux/amd64" {
			notes = append(notes, c.Notes...)
			notes = append(notes, p.RoleNotes...)
			notes = append(notes, p.InlineNotes...)
			for _, n := range p.RoleNotes {
				fmt.Println("NOTE:", n)
			}
			stats["packages"] = len(p.Pkgs)
			stats["functions_loaded"] = len(p.FuncSeq)
			stats["anchors_resolved"] = c.Anchors
			if p.cg != nil {
				stats["callgraph_edges"] = p.cg.N
			}
		}
	}
	stats["build_configurations"] = cfgNames
	var selftest map[string]any
	if *tier == "thorough" && !*noSelf && *only == "" {
		if len(prop.Mutants) > 0 {
			selftest = runSelfTest(prop, *repo)
		}
		if st := runSeedTest(prop, *repo); st != nil {
			if selftest == nil {
				selftest = map[string]any{}
			}
			selftest["seeded_changes"] = st
		}
		if rt := runRefactorTest(prop, *repo, obs); rt != nil {
			if selftest == nil {
				selftest = map[string]any{}
			}
			selftest["behaviour_preserving_patches"] = rt
		}
	}
	code := finish(*verif, prop, *tier, seed, obs, notes, stats, time.Since(start).Seconds(), selftest)
	os.Exit(code)
}

// ---- mutant self-test -------------------------------------------------------------------

func applyMutant(repo string, m Mutant) (map[string][]byte, string) {
	path := filepath.Join(repo, m.File)
	b, err := os.ReadFile(path)
	if err != nil {
		return nil, "file missing"
	}
	src := string(b)
	if strings.Count(src, m.Old) != 1 {
		return nil, fmt.Sprintf("anchor text occurs %d times (source changed): mutant not applicable", strings.Count(src, m.Old))
	}
	return map[string][]byte{path: []byte(strings.Replace(src, m.Old, m.New, 1))}, ""
}

func runMutantChild(prop *Property, repo, name string) int {
	var m *Mutant
	for i := range prop.Mutants {
		if prop.Mutants[i].Name == name {
			m = &prop.Mutants[i]
		}
	}
	out := map[string]any{"mutant": name}
	enc := func() { b, _ := json.Marshal(out); fmt.Println(string(b)) }
	if m == nil {
		out["status"] = "unknown mutant"
		enc()
		return 2
	}
	ov, why := applyMutant(repo, *m)
	if ov == nil {
		out["status"] = "not-applicable"
		out["why"] = why
		enc()
		return 0
	}
	p, err := Load(LoadConfig{Dir: repo, Overlay: ov})
	if err != nil {
		out["status"] = "does-not-compile"
		out["why"] = err.Error()
		enc()
		return 0
	}
	c := runRules(p, prop, "quick", "mutant:"+name, "")
	kfs, _ := loadKnown(filepath.Join(verifDir, "known_findings.json"))
	var fired []string
	for _, o := range c.Obs {
		if o.Verdict == "violated" || o.Verdict == "undecided" {
			if matchKnown(kfs, prop.ID, o) != nil {
				continue
			}
			fired = append(fired, o.Rule+" "+o.Function+" "+o.Construct+" @"+o.Pos)
		}
	}
	out["status"] = "evaluated"
	out["fired"] = fired
	enc()
	return 0
}

func runSelfTest(prop *Property, repo string) map[string]any {
	type res struct {
		Name, Expect, Status string
		Fired                []string
		Caught               bool
	}
	results := make([]res, len(prop.Mutants))
	sem := make(chan struct{}, 6)
	var wg sync.WaitGroup
	for i, m := range prop.Mutants {
		wg.Add(1)
		go func(i int, m Mutant) {
			defer wg.Done()
			sem <- struct{}{}
			defer func() { <-sem }()
			r := res{Name: m.Name, Expect: m.Expect}
			cmd := exec.Command(os.Args[0], "-prop", prop.ID, "-repo", repo, "-verif", verifDir, "-mutant", m.Name)
			outb, err := cmd.Output()
			if err != nil {
				r.Status = "child failed: " + err.Error()
				results[i] = r
				return
			}
			var o struct {
				Status string
				Why    string
				Fired  []string
			}
			lines := strings.Split(strings.TrimSpace(string(outb)), "\n")
			if e := json.Unmarshal([]byte(lines[len(lines)-1]), &o); e != nil {
				r.Status = "bad child output"
				results[i] = r
				return
			}
			r.Status = o.Status
			if o.Why != "" {
				r.Status += ": " + o.Why
			}
			r.Fired = o.Fired
			for _, f := range o.Fired {
				if strings.HasPrefix(f, m.Expect+" ") {
					r.Caught = true
				}
			}
			results[i] = r
		}(i, m)
	}
	wg.Wait()
	caught, applicable := 0, 0
	var rows []any
	for _, r := range results {
		if r.Status == "evaluated" {
			applicable++
			if r.Caught {
				caught++
			} else {
				fmt.Printf("SELFTEST-MISS property=%s mutant=%s expected rule %s to fire; fired=%v\n", prop.ID, r.Name, r.Expect, r.Fired)
			}
		} else {
			fmt.Printf("SELFTEST-NOTE property=%s mutant=%s %s\n", prop.ID, r.Name, r.Status)
		}
		rows = append(rows, map[string]any{"mutant": r.Name, "expect": r.Expect, "status": r.Status, "caught": r.Caught, "fired": r.Fired})
	}
	fmt.Printf("selftest: %d/%d applicable mutants caught (of %d)\n", caught, applicable, len(results))
	return map[string]any{"mutants": len(results), "applicable": applicable, "caught": caught, "results": rows,
		"note": "each mutant is a single-site edit of /repo's current source applied in memory (go/packages overlay); it must type-check and make the expected rule report a violation naming the mutated construct. Evidence about the checker only; it never changes the verdict on /repo."}
}

// runAll evaluates every registered property on one load of the repository and prints the
// obligations that neither hold nor match a known finding. Used by tools/try_seed.sh and
// tools/try_refactor.sh; writes nothing.
func runAll(repo, verif, patch string) int {
	verifDir = verif
	var ov map[string][]byte
	if patch != "" {
		var why string
		ov, why = applyUnifiedDiff(repo, patch)
		if ov == nil {
			fmt.Println("ALL: patch not applicable:", why)
			return 2
		}
	}
	p, err := Load(LoadConfig{Dir: repo, Overlay: ov})
	if err != nil {
		fmt.Println("ALL: cannot load:", err)
		return 1
	}
	kfs, _ := loadKnown(filepath.Join(verif, "known_findings.json"))
	var ids []string
	for id := range registry {
		ids = append(ids, id)
	}
	sort.Strings(ids)
	bad := 0
	var hitProps []string
	for _, id := range ids {
		c := runRules(p, registry[id], "quick", "linux/amd64", "")
		seen := map[string]bool{}
		n := 0
		for _, o := range c.Obs {
			if o.Verdict != "violated" && o.Verdict != "undecided" {
				continue
			}
			if o.Verdict == "violated" && matchKnown(kfs, id, o) != nil {
				continue
			}
			if seen[o.Key()] {
				continue
			}
			seen[o.Key()] = true
			n++
			d := o.Detail
			if len(d) > 160 {
				d = d[:160]
			}
			fmt.Printf("ALL %s %s %s: %s %s @%s — %s\n", id, strings.ToUpper(o.Verdict), o.Rule, o.Function, o.Construct, o.Pos, d)
		}
		if n > 0 {
			bad += n
			hitProps = append(hitProps, id)
		}
	}
	fmt.Printf("ALL summary: %d non-holding obligations; properties alarmed: %s\n", bad, strings.Join(hitProps, ","))
	if bad > 0 {
		return 1
	}
	return 0
}

// runSeedTest: the independently seeded breaking changes of this property as self-test cases.
func runSeedTest(prop *Property, repo string) map[string]any {
	cases := seedCasesFor(verifDir, prop.ID)
	if len(cases) == 0 {
		return nil
	}
	type res struct {
		Name, Status string
		Fired        []string
	}
	results := make([]res, len(cases))
	sem := make(chan struct{}, 4)
	var wg sync.WaitGroup
	for i, sc := range cases {
		wg.Add(1)
		go func(i int, sc seedCase) {
			defer wg.Done()
			sem <- struct{}{}
			defer func() { <-sem }()
			r := res{Name: sc.Name}
			outb, err := exec.Command(os.Args[0], "-prop", prop.ID, "-repo", repo, "-verif", verifDir, "-seedpatch", sc.Patch).Output()
			if err != nil {
				r.Status = "child failed: " + err.Error()
				results[i] = r
				return
			}
			var o struct {
				Status, Why string
				Fired       []string
			}
			lines := strings.Split(strings.TrimSpace(string(outb)), "\n")
			if json.Unmarshal([]byte(lines[len(lines)-1]), &o) != nil {
				r.Status = "bad child output"
			} else {
				r.Status = o.Status
				if o.Why != "" {
					r.Status += ": " + o.Why
				}
				r.Fired = o.Fired
			}
			results[i] = r
		}(i, sc)
	}
	wg.Wait()
	caught, applicable := 0, 0
	var rows []any
	for _, r := range results {
		if r.Status == "evaluated" {
			applicable++
			if len(r.Fired) > 0 {
				caught++
			} else {
				fmt.Printf("SEEDTEST-MISS property=%s seed=%s no rule reported the seeded change\n", prop.ID, r.Name)
			}
		} else {
			fmt.Printf("SEEDTEST-NOTE property=%s seed=%s %s\n", prop.ID, r.Name, r.Status)
		}
		rows = append(rows, map[string]any{"seed": r.Name, "status": r.Status, "caught": len(r.Fired) > 0, "fired": r.Fired})
	}
	fmt.Printf("seedtest: %d/%d applicable seeded changes reported (of %d)\n", caught, applicable, len(results))
	return map[string]any{"seeds": len(results), "applicable": applicable, "caught": caught, "results": rows,
		"note": "each case is an independently produced breaking change (seeded/<id>/patch.diff: compiles, passes the suite, fails its demonstration) applied to the current source in memory; the property's rules must report a violation that is not a known finding. Evidence about the checker only."}
}

// runRefactorTest: the stored behaviour-preserving patches (/verif/refactors/*/refactor_k.diff)
// are applied to the current source in memory, one at a time; the property's rules must stay
// silent (apart from known findings). A report here is a false alarm of the checker. Evidence
// about the checker only.
func runRefactorTest(prop *Property, repo string, obs []*Ob) map[string]any {
	all, _ := filepath.Glob(filepath.Join(verifDir, "refactors", "*", "refactor_*.diff"))
	if len(all) == 0 {
		return nil
	}
	sort.Strings(all)
	// only the patches that touch a package in which this property has obligations can change
	// its verdict; the others are skipped (tools/try_refactor.sh evaluates every patch against
	// every property in one go)
	dirs := map[string]bool{}
	for _, o := range obs {
		if i := strings.LastIndex(o.Pos, ":"); i > 0 {
			dirs[filepath.Dir(o.Pos[:i])] = true
		}
	}
	var files, others []string
	for _, f := range all {
		b, err := os.ReadFile(f)
		if err != nil {
			continue
		}
		rel := false
		for _, l := range strings.Split(string(b), "\n") {
			if strings.HasPrefix(l, "+++ b/") || strings.HasPrefix(l, "--- a/") {
				if dirs[filepath.Dir(strings.TrimSpace(l[6:]))] {
					rel = true
					break
				}
			}
		}
		if filepath.Base(filepath.Dir(f)) == prop.ID+"r" {
			files = append(files, f)
		} else if rel {
			others = append(others, f)
		}
	}
	// the property's own set, filled up to refactorCap with patches of other sets that touch its
	// packages (each patch costs one full load of the tree; the whole corpus against every
	// property is what tools/try_refactor.sh runs, see DESIGN.md §10)
	const refactorCap = 8
	for _, f := range others {
		if len(files) >= refactorCap {
			break
		}
		files = append(files, f)
	}
	skipped := len(all) - len(files)
	type res struct {
		Name, Status string
		Fired        []string
	}
	results := make([]res, len(files))
	sem := make(chan struct{}, 6)
	var wg sync.WaitGroup
	for i, f := range files {
		wg.Add(1)
		go func(i int, f string) {
			defer wg.Done()
			sem <- struct{}{}
			defer func() { <-sem }()
			r := res{Name: filepath.Base(filepath.Dir(f)) + "/" + filepath.Base(f)}
			outb, err := exec.Command(os.Args[0], "-prop", prop.ID, "-repo", repo, "-verif", verifDir, "-seedpatch", f).Output()
			if err != nil {
				r.Status = "child failed: " + err.Error()
				results[i] = r
				return
			}
			var o struct {
				Status, Why string
				Fired       []string
			}
			lines := strings.Split(strings.TrimSpace(string(outb)), "\n")
			if json.Unmarshal([]byte(lines[len(lines)-1]), &o) != nil {
				r.Status = "bad child output"
			} else {
				r.Status = o.Status
				r.Fired = o.Fired
			}
			results[i] = r
		}(i, f)
	}
	wg.Wait()
	silent, applicable := 0, 0
	var alarms []any
	for _, r := range results {
		if r.Status != "evaluated" {
			continue
		}
		applicable++
		if len(r.Fired) == 0 {
			silent++
		} else {
			fmt.Printf("REFACTOR-ALARM property=%s patch=%s fired=%v\n", prop.ID, r.Name, r.Fired)
			alarms = append(alarms, map[string]any{"patch": r.Name, "fired": r.Fired})
		}
	}
	fmt.Printf("refactortest: %d/%d applicable behaviour-preserving patches leave the property's rules silent (of %d; %d more of the corpus are evaluated by tools/try_refactor.sh only)\n", silent, applicable, len(results), skipped)
	return map[string]any{"patches": len(results), "not_run_here": skipped, "applicable": applicable, "silent": silent, "alarms": alarms,
		"note": "each patch is a behaviour-preserving edit written by an independent agent (extract helper, rename, if↔switch, loop form, move); applied in memory; any rule that fires on it is a false alarm of the checker (the two known ones are explained in DESIGN.md §10)."}
}
