package main

// Rules added after the fourth batch of independently seeded changes, part 2: buffers that
// outlive their call, per-iteration accumulators, exact offset arithmetic, float64 exactness,
// loader strictness, replay failure edges, package-level mutable state.

import (
	"fmt"
	"go/ast"
	"go/constant"
	"go/token"
	"go/types"
	"math"
	"os"
	"sort"
	"strings"
)

// R9.6 — a per-file result buffer is emptied for every file: in readSecondStage a buffer that is
// appended to while one file's records are assembled and is then appended to the total must be
// created (or re-sliced to length 0 / set to nil) by an unconditional statement of the per-file
// loop body. A conditional reset ("only when the capacity is too small") keeps the previous
// file's records, which are then returned twice and out of time order.
func rulePerFileBufferReset(c *Ctx) {
	const rule = "R9.6"
	s := c.S(rule, "(*executor.Reader).readSecondStage")
	if s == nil {
		return
	}
	info := s.Info
	n := 0
	s.walk(func(m ast.Node) bool {
		outer, ok := m.(*ast.RangeStmt)
		if !ok {
			return true
		}
		// consumption: T = append(T, V...) as a direct statement of the loop body
		for _, st := range outer.Body.List {
			as, ok := st.(*ast.AssignStmt)
			if !ok || len(as.Lhs) != 1 || len(as.Rhs) != 1 {
				continue
			}
			cx, ok := unparen(as.Rhs[0]).(*ast.CallExpr)
			if !ok || len(cx.Args) != 2 || cx.Ellipsis == token.NoPos {
				continue
			}
			if id, ok := unparen(cx.Fun).(*ast.Ident); !ok || id.Name != "append" {
				continue
			}
			total := identObj(info, as.Lhs[0])
			v := identObj(info, cx.Args[1])
			if total == nil || v == nil || identObj(info, cx.Args[0]) != total || v == total {
				continue
			}
			// V is itself grown inside the loop body
			grown := false
			walkAll(outer.Body, func(k ast.Node) bool {
				if a2, ok := k.(*ast.AssignStmt); ok && len(a2.Lhs) == 1 && len(a2.Rhs) == 1 && identObj(info, a2.Lhs[0]) == v {
					if c2, ok := unparen(a2.Rhs[0]).(*ast.CallExpr); ok {
						if id, ok := unparen(c2.Fun).(*ast.Ident); ok && id.Name == "append" && len(c2.Args) >= 1 && identObj(info, c2.Args[0]) == v {
							grown = true
						}
					}
				}
				return true
			})
			if !grown {
				continue
			}
			n++
			// unconditional reset among the direct statements before the consumption, or declared inside
			reset := v.Pos() > outer.Body.Pos() && v.Pos() < outer.Body.End()
			for _, st2 := range outer.Body.List {
				if st2.Pos() >= as.Pos() {
					break
				}
				a3, ok := st2.(*ast.AssignStmt)
				if !ok {
					continue
				}
				for i, l := range a3.Lhs {
					if identObj(info, l) != v || i >= len(a3.Rhs) {
						continue
					}
					switch r := unparen(a3.Rhs[i]).(type) {
					case *ast.CallExpr:
						if id, ok := unparen(r.Fun).(*ast.Ident); ok && id.Name == "make" {
							reset = true
						}
					case *ast.SliceExpr:
						if identObj(info, r.X) == v && r.High != nil {
							if k, ok := constInt(info, r.High); ok && k == 0 {
								reset = true
							}
						}
					case *ast.Ident:
						if isNilIdent(info, r) {
							reset = true
						}
					case *ast.CompositeLit:
						reset = true
					}
				}
			}
			c.Check(reset, rule, s.Name, "per-file-buffer-reset:"+canonObj(v), c.P.Pos(as.Pos()),
				"the buffer that collects one file's records before it is appended to the total is emptied by an unconditional statement of the per-file loop (otherwise the previous file's records are appended again: duplicates, out of time order)")
		}
		return true
	})
	c.Floor(rule, s.Name, "per-file buffers appended to a total", n, 1)
}

// R13.5 — the read buffer handed to the chunked scanners holds a whole number of records of the
// bucket being scanned: it is the shared buffer re-sliced to a bound that is a product with the
// plan's record length. NewReader sizes the shared buffer for the widest bucket of a multi-bucket
// query; used as is, a narrower bucket's chunk ends in the middle of a record and the next chunk
// resumes mid-record (garbage rows from the second chunk on).
func ruleReadBufferWholeRecords(c *Ctx) {
	const rule = "R13.5"
	s := c.S(rule, "(*executor.Reader).read")
	if s == nil {
		return
	}
	info := s.Info
	singleDef := func(o types.Object) ast.Expr {
		var def ast.Expr
		n := 0
		s.walk(func(m ast.Node) bool {
			if as, ok := m.(*ast.AssignStmt); ok && len(as.Lhs) == len(as.Rhs) {
				for i, l := range as.Lhs {
					if identObj(info, l) == o {
						n++
						def = as.Rhs[i]
					}
				}
			}
			return true
		})
		if n == 1 {
			return def
		}
		return nil
	}
	multipleOfRecLen := func(e ast.Expr) bool {
		for i := 0; i < 3; i++ {
			if o := identObj(info, e); o != nil {
				if d := singleDef(o); d != nil {
					e = d
					continue
				}
			}
			break
		}
		b, ok := unparen(e).(*ast.BinaryExpr)
		if !ok || b.Op != token.MUL {
			return false
		}
		return mentionsField(info, b, "executor.IOPlan.RecordLen")
	}
	n := 0
	s.walk(func(m ast.Node) bool {
		cx, ok := m.(*ast.CallExpr)
		if !ok {
			return true
		}
		nm := CalleeName(info, cx)
		idx := -1
		switch nm {
		case "(*executor.ioExec).readForward":
			idx = 3
		case "(*executor.ioExec).readBackward":
			idx = 3
		}
		if idx < 0 || idx >= len(cx.Args) {
			return true
		}
		n++
		arg := cx.Args[idx]
		var se *ast.SliceExpr
		if o := identObj(info, arg); o != nil {
			if d := singleDef(o); d != nil {
				se, _ = unparen(d).(*ast.SliceExpr)
			}
		} else {
			se, _ = unparen(arg).(*ast.SliceExpr)
		}
		ok2 := se != nil && se.High != nil && multipleOfRecLen(se.High)
		c.Check(ok2, rule, s.Name, "read-buffer-is-whole-records:"+shortCallee(nm), c.P.Pos(cx.Pos()),
			"the chunk buffer given to "+shortCallee(nm)+" is the shared buffer re-sliced to (records per read × the plan's record length), so every chunk ends on a record boundary")
		return true
	})
	c.Floor(rule, s.Name, "chunked scanner calls", n, 2)
}

// R18.7 — a buffered record write is not torn: in BufferedFile.WriteAt no call that can flush the
// buffer to the file follows a copy of (part of) the record into the buffer. The buffer is made
// to cover the whole record first (ensureBuffer), then the record is copied once; a block-by-block
// copy flushes the head of a record that straddles a block boundary before its tail is in place,
// and a concurrent query sees a row with a valid index and stale trailing columns.
func ruleBufferedWriteNotTorn(c *Ctx) {
	const rule = "R18.7"
	s := c.S(rule, "(*executor/buffile.BufferedFile).WriteAt")
	if s == nil {
		return
	}
	g := c.P.CG()
	flushers := g.ReachesAny(map[string]bool{"(*executor/buffile.BufferedFile).writeBuffer": true})
	flushers["(*executor/buffile.BufferedFile).writeBuffer"] = true
	isCopyIn := func(sub, top ast.Node) bool {
		cx, ok := sub.(*ast.CallExpr)
		if !ok || len(cx.Args) != 2 {
			return false
		}
		id, ok := unparen(cx.Fun).(*ast.Ident)
		return ok && id.Name == "copy" && mentionsField(s.Info, cx.Args[0], "executor/buffile.BufferedFile.buffer")
	}
	flush := func(sub, top ast.Node) bool {
		cx, ok := sub.(*ast.CallExpr)
		if !ok {
			return false
		}
		nm := CalleeName(s.Info, cx)
		if flushers[nm] {
			return true
		}
		return strings.HasSuffix(nm, ".WriteAt") && mentionsField(s.Info, cx.Fun, "executor/buffile.BufferedFile.fp")
	}
	r := s.Run(Query{Start: isCopyIn, Target: flush})
	c.Floor(rule, s.Name, "copies of the record into the buffer", r.StartSites, 1)
	c.reportHits(rule, s, "no-flush-after-partial-copy", r,
		"nothing that can flush the buffer runs after the record was copied into it: the record reaches the file in one write",
		"the buffer can be flushed to the file after part of the record was copied and before the rest: a record that straddles a block boundary is written in two pieces (a query in between sees a torn row)")
	// and the copy is preceded by making the buffer cover the record
	r2 := s.Run(Query{Target: isCopyIn, Barrier: callPred(s, "(*executor/buffile.BufferedFile).ensureBuffer"), NeedOK: true})
	c.reportHits(rule, s, "buffer-covers-record-before-copy", r2, "the copy is dominated by a successful ensureBuffer(data, offset)", "the record is copied into a buffer that was not made to cover it")
}

// R30.4 — slot → byte offset arithmetic is exact: in IndexToOffset / TimeToOffset / EpochToOffset
// every multiplication is carried out in a 64-bit integer type and the slot index is never
// converted to a narrower integer. (366·86400 slots × a wide record exceeds 2^31: a 32-bit
// product wraps to a negative or colliding offset late in the year.)
func ruleOffsetArithmetic64(c *Ctx) {
	const rule = "R30.4"
	n := 0
	for _, key := range []string{"utils/io.IndexToOffset", "utils/io.TimeToOffset", "utils/io.EpochToOffset"} {
		s := c.S(rule, key)
		if s == nil {
			continue
		}
		sizes := s.Pkg.TypesSizes
		for _, b := range s.bodies() {
			walkAll(b, func(m ast.Node) bool {
				switch x := m.(type) {
				case *ast.BinaryExpr:
					if x.Op != token.MUL && x.Op != token.SHL {
						return true
					}
					t, ok := s.Info.TypeOf(x).Underlying().(*types.Basic)
					if !ok || t.Info()&types.IsInteger == 0 {
						return true
					}
					if tv, ok := s.Info.Types[x]; ok && tv.Value != nil {
						return true
					}
					n++
					c.Check(sizes.Sizeof(t) >= 8, rule, s.Name, "product-in-64-bit", c.P.Pos(x.Pos()),
						fmt.Sprintf("the offset product %s is computed in %s (64-bit required: slots per year × record size exceeds 2^31)", types.ExprString(x), t.Name()))
				case *ast.CallExpr:
					tv, isType := s.Info.Types[x.Fun]
					if !isType || !tv.IsType() || len(x.Args) != 1 {
						return true
					}
					to, ok1 := tv.Type.Underlying().(*types.Basic)
					from, ok2 := s.Info.TypeOf(x.Args[0]).Underlying().(*types.Basic)
					if !ok1 || !ok2 || to.Info()&types.IsInteger == 0 || from.Info()&types.IsInteger == 0 {
						return true
					}
					if av, ok := s.Info.Types[x.Args[0]]; ok && av.Value != nil {
						return true
					}
					n++
					c.Check(sizes.Sizeof(to) >= sizes.Sizeof(from), rule, s.Name, "no-narrowing-of-slot-values", c.P.Pos(x.Pos()),
						fmt.Sprintf("%s converts a %s to %s inside the slot→offset mapping (a narrowing conversion truncates large slot numbers / offsets)", types.ExprString(x), from.Name(), to.Name()))
				}
				return true
			})
		}
	}
	c.Floor(rule, "utils/io offset functions", "integer products and conversions", n, 2)
}

// R33.5 — the CSV reader of the loader is strict: LazyQuotes stays off and the field count is
// enforced. With LazyQuotes a field that opens with a quote and never closes swallows the rest of
// the file as one value; the import "succeeds" with the remaining rows missing.
func ruleCSVReaderStrict(c *Ctx) {
	const rule = "R33.5"
	n := 0
	bad := 0
	for _, fn := range c.P.NonTestFuncs() {
		if !strings.HasPrefix(fn.PkgShort(), "cmd/connect") || fn.Decl.Body == nil {
			continue
		}
		info := fn.Pkg.TypesInfo
		walkAll(fn.Decl.Body, func(m ast.Node) bool {
			switch x := m.(type) {
			case *ast.CallExpr:
				if CalleeName(info, x) == "encoding/csv.NewReader" {
					n++
				}
			case *ast.AssignStmt:
				for i, l := range x.Lhs {
					sel, ok := unparen(l).(*ast.SelectorExpr)
					if !ok || i >= len(x.Rhs) {
						continue
					}
					sl := info.Selections[sel]
					if sl == nil || sl.Kind() != types.FieldVal || !strings.HasSuffix(types.TypeString(sl.Recv(), nil), "encoding/csv.Reader") {
						continue
					}
					switch sel.Sel.Name {
					case "LazyQuotes":
						if tv, ok := info.Types[x.Rhs[i]]; !ok || tv.Value == nil || tv.Value.String() != "false" {
							bad++
							c.Violate(rule, fn.Key, "csv-reader-lazy-quotes", c.P.Pos(x.Pos()),
								"the loader's csv.Reader is switched to LazyQuotes: an unterminated quote no longer is a parse error, the field swallows all following lines and the import reports success with those rows missing", nil)
						}
					case "FieldsPerRecord":
						if v, ok := constInt(info, x.Rhs[i]); !ok || v < 0 {
							bad++
							c.Violate(rule, fn.Key, "csv-reader-field-count", c.P.Pos(x.Pos()),
								"the loader's csv.Reader no longer enforces a constant number of fields per record: short rows are accepted instead of being reported", nil)
						}
					}
				}
			}
			return true
		})
	}
	if bad == 0 {
		c.Hold(rule, "cmd/connect", "csv-reader-strict", "", fmt.Sprintf("%d csv.NewReader site(s); no assignment relaxes quote or field-count checking", n))
	}
	c.Floor(rule, "cmd/connect", "csv.NewReader sites", n, 1)
}

// R34.9 — a replayed transaction group is checkpointed only when every write of it succeeded: on
// the failure edge of each primary write in replayTGData neither the checkpoint nor the
// assignment of the checkpoint candidate is reachable. Otherwise the WAL carries a checkpoint
// for data that is not in the primary files; the next start drops the TG and deletes the WAL.
func ruleNoCheckpointAfterFailedReplayWrite(c *Ctx) {
	const rule = "R34.9"
	s := c.S(rule, fnReplayTGData)
	if s == nil {
		return
	}
	target := func(sub, top ast.Node) bool {
		if isCall(s.Info, sub, fnCreateCheckpoint) {
			return true
		}
		if as, ok := sub.(*ast.AssignStmt); ok {
			for _, l := range as.Lhs {
				if fieldKey(s.Info, l) == fldLastCommitted {
					return true
				}
			}
		}
		return false
	}
	sites := s.sites(callPred(s, fnWBTF, fnWBTFI))
	c.Floor(rule, s.Name, "replayed primary writes", len(sites), 2)
	for _, n := range sites {
		call := n.(*ast.CallExpr)
		construct := "no-checkpoint-after-failed:" + shortCallee(CalleeName(s.Info, call))
		r, ok := errEdgeQuery(s, call, s.topOf(call), target, false)
		if !ok {
			c.Violate(rule, s.Name, construct, c.P.Pos(call.Pos()), "the error of a replayed primary write is discarded", nil)
			continue
		}
		c.reportHits(rule, s, construct, r,
			"after a failed replay write neither the checkpoint candidate is set nor a checkpoint written",
			"a checkpoint (or its candidate) is reachable after a FAILED replay write: the WAL then says the transaction group is in the primary files although it is not; the next start prunes it and deletes the WAL (committed data lost)")
	}
}

// R10.4 — integer-valued float64 arithmetic in the ticks encoder stays exact: with the slot index
// bounded by the slots of a leap year (366·86400) and intervalsPerDay ≤ 86400, every float64
// product/sum that is later converted to an integer type has a magnitude below 2^53. Beyond that
// float64 cannot represent every integer: the interval start comes out a few nanoseconds off and
// sub-second offsets near an interval edge wrap around.
func ruleFloatExactness(c *Ctx) {
	const rule = "R10.4"
	n := 0
	for _, key := range []string{"utils/io.IndexToTimeDepr", "utils/io.GetIntervalTicks32Bit"} {
		s := c.S(rule, key)
		if s == nil {
			continue
		}
		bounds := map[types.Object]ival{}
		sig := s.Fn.Obj.Type().(*types.Signature)
		for i := 0; i < sig.Params().Len(); i++ {
			po := paramObjC(s.Fn, i)
			if po == nil {
				continue
			}
			switch strings.ToLower(po.Name()) {
			case "index":
				bounds[po] = ival{1, 366 * 86400, true}
			case "intervalsperday":
				bounds[po] = ival{1, 86400, true}
			case "year":
				bounds[po] = ival{0, 9999, true}
			}
		}
		s.paramBounds = bounds
		var assumptions []string
		walkAll(s.Body, func(m ast.Node) bool {
			cx, ok := m.(*ast.CallExpr)
			if !ok || len(cx.Args) != 1 {
				return true
			}
			tv, isType := s.Info.Types[cx.Fun]
			if !isType || !tv.IsType() {
				return true
			}
			to, ok := tv.Type.Underlying().(*types.Basic)
			if !ok || to.Info()&types.IsInteger == 0 {
				return true
			}
			at, ok := s.Info.TypeOf(cx.Args[0]).Underlying().(*types.Basic)
			if !ok || at.Info()&types.IsFloat == 0 {
				return true
			}
			// every float sub-expression of the operand
			worst := 0.0
			var worstExpr ast.Expr
			walkAll(cx.Args[0], func(k ast.Node) bool {
				b, ok := k.(*ast.BinaryExpr)
				if !ok {
					return true
				}
				bt, ok := s.Info.TypeOf(b).Underlying().(*types.Basic)
				if !ok || bt.Info()&types.IsFloat == 0 {
					return true
				}
				if b.Op != token.MUL && b.Op != token.ADD && b.Op != token.SUB {
					return true
				}
				v := s.evalInterval(b, 0, &assumptions)
				if v.ok {
					mag := math.Max(math.Abs(v.lo), math.Abs(v.hi))
					if mag > worst {
						worst, worstExpr = mag, b
					}
				}
				return true
			})
			n++
			if worstExpr == nil {
				c.Hold(rule, s.Name, "float-to-integer:"+to.Name(), c.P.Pos(cx.Pos()), "no bounded float product/sum feeds this conversion (operand magnitude not decided)")
				return true
			}
			c.Check(worst < math.Pow(2, 53), rule, s.Name, "float-to-integer:"+to.Name(), c.P.Pos(cx.Pos()),
				fmt.Sprintf("the float64 expression %s reaches a magnitude of %.3g for index ≤ 366·86400, intervalsPerDay ≤ 86400 (exact integer arithmetic in float64 needs < 2^53 ≈ 9.0e15)", types.ExprString(worstExpr), worst))
			return true
		})
		s.paramBounds = nil
	}
	c.Floor(rule, "utils/io ticks encoder", "float→integer conversions", n, 2)
}

// ---- long-lived buffers ---------------------------------------------------------------------

// scratchRooted: e denotes (a slice of) a byte buffer stored in a struct field or package-level
// variable of the module, e.g. wf.buf, wf.buf[:n], pkgBuf[:].
func scratchRooted(info *types.Info, e ast.Expr) (string, bool) {
	e = unparen(e)
	for {
		switch x := e.(type) {
		case *ast.SliceExpr:
			e = unparen(x.X)
			continue
		case *ast.ParenExpr:
			e = x.X
			continue
		}
		break
	}
	isBytes := func(t types.Type) bool {
		switch u := t.Underlying().(type) {
		case *types.Slice:
			b, ok := u.Elem().Underlying().(*types.Basic)
			return ok && b.Kind() == types.Uint8
		case *types.Array:
			b, ok := u.Elem().Underlying().(*types.Basic)
			return ok && b.Kind() == types.Uint8
		}
		return false
	}
	if k := fieldKey(info, e); k != "" {
		if t := info.TypeOf(e); t != nil && isBytes(t) && !strings.HasPrefix(k, "utils/io.") && k != "" {
			return k, true
		}
	}
	if k := objKey(info, e); k != "" {
		if id, ok := e.(*ast.Ident); ok {
			if v, ok := objOf(info, id).(*types.Var); ok && isBytes(v.Type()) {
				return k, true
			}
		}
	}
	return "", false
}

// R28.6 — bytes that outlive a call are not backed by a reusable long-lived buffer: a local that
// is (a slice of) a byte buffer kept in a struct field or package variable of the WAL / executor /
// replication code must not be returned, sent on a channel, handed to the replication sender or a
// goroutine, or stored in a container. The next use of the buffer overwrites what the earlier
// consumer still holds (replay parses the last TG for every id; queued replication messages all
// carry the newest transaction).
func ruleScratchBufferDoesNotEscape(c *Ctx) {
	const rule = "R28.6"
	nScratch := 0
	for _, fn := range c.P.NonTestFuncs() {
		ps := fn.PkgShort()
		if fn.Decl.Body == nil || !(ps == "executor" || ps == "executor/wal" || ps == "replication" || ps == "executor/buffile") {
			continue
		}
		info := fn.Pkg.TypesInfo
		// locals derived from a long-lived buffer
		derived := map[types.Object]string{}
		for changed := true; changed; {
			changed = false
			walkAll(fn.Decl.Body, func(m ast.Node) bool {
				as, ok := m.(*ast.AssignStmt)
				if !ok {
					return true
				}
				for i, l := range as.Lhs {
					o := identObj(info, l)
					if o == nil || derived[o] != "" {
						continue
					}
					var rhs ast.Expr
					if len(as.Rhs) == len(as.Lhs) {
						rhs = as.Rhs[i]
					} else if len(as.Rhs) == 1 && i == 0 {
						rhs = as.Rhs[0]
					}
					if rhs == nil {
						continue
					}
					src := ""
					if k, ok := scratchRooted(info, rhs); ok {
						src = k
					} else if cx, ok := unparen(rhs).(*ast.CallExpr); ok {
						// f(buf[:0], …) returning bytes: append-style helpers hand the buffer back
						if t := info.TypeOf(l); t != nil {
							if sl, ok := t.Underlying().(*types.Slice); ok {
								if b, ok := sl.Elem().Underlying().(*types.Basic); ok && b.Kind() == types.Uint8 {
									for _, a := range cx.Args {
										if k, ok := scratchRooted(info, a); ok {
											if _, isSlice := unparen(a).(*ast.SliceExpr); isSlice {
												src = k
											}
										}
										if ao := identObj(info, a); ao != nil && derived[ao] != "" {
											if id, ok := unparen(cx.Fun).(*ast.Ident); ok && id.Name == "append" && a == cx.Args[0] {
												src = derived[ao]
											}
										}
									}
								}
							}
						}
					} else if se, ok := unparen(rhs).(*ast.SliceExpr); ok {
						if ao := identObj(info, se.X); ao != nil && derived[ao] != "" {
							src = derived[ao]
						}
					} else if ao := identObj(info, rhs); ao != nil && derived[ao] != "" {
						src = derived[ao]
					}
					if src != "" {
						if _, isVar := o.(*types.Var); isVar && o.Parent() != o.Pkg().Scope() {
							derived[o] = src
							changed = true
						}
					}
				}
				return true
			})
		}
		if len(derived) == 0 {
			continue
		}
		nScratch += len(derived)
		// the function's own result objects: returning the receiver's buffer from an accessor
		// of that same object is how the buffer is handed out on purpose only for the tables below
		par := c.P.Parents(c.P.FileOf(fn.Pkg, fn.Decl.Pos()))
		report := func(n ast.Node, o types.Object, how string) {
			c.Violate(rule, fn.Key, "long-lived-buffer-escapes:"+derived[o], c.P.Pos(n.Pos()),
				"`"+o.Name()+"` is backed by the reusable buffer "+derived[o]+" and "+how+": whoever keeps these bytes sees them overwritten by the next use of the buffer", nil)
		}
		held := 0
		walkAll(fn.Decl.Body, func(m ast.Node) bool {
			switch x := m.(type) {
			case *ast.ReturnStmt:
				for _, r := range x.Results {
					if o := identObj(info, r); o != nil && derived[o] != "" {
						report(x, o, "is returned to the caller")
						held++
					}
				}
			case *ast.SendStmt:
				if o := identObj(info, x.Value); o != nil && derived[o] != "" {
					report(x, o, "is sent on a channel")
					held++
				}
			case *ast.GoStmt:
				for _, a := range x.Call.Args {
					if o := identObj(info, a); o != nil && derived[o] != "" {
						report(x, o, "is handed to a goroutine")
						held++
					}
				}
			case *ast.CallExpr:
				if _, isGo := par[x].(*ast.GoStmt); isGo {
					return true
				}
				f := Callee(info, x)
				if f == nil {
					return true
				}
				sig, _ := f.Type().(*types.Signature)
				if sig == nil || sig.Recv() == nil {
					return true
				}
				if _, isIface := sig.Recv().Type().Underlying().(*types.Interface); !isIface {
					return true
				}
				// interface methods of the module that take the bytes for later (senders, queues)
				if f.Pkg() == nil || !strings.HasPrefix(f.Pkg().Path(), modPrefix[:len(modPrefix)-1]) {
					return true
				}
				for _, a := range x.Args {
					if o := identObj(info, a); o != nil && derived[o] != "" {
						report(x, o, "is handed to "+short(f.FullName())+" (an interface of the module whose implementations queue the bytes)")
						held++
					}
				}
			case *ast.AssignStmt:
				for i, l := range x.Lhs {
					if i >= len(x.Rhs) {
						continue
					}
					o := identObj(info, x.Rhs[i])
					if o == nil || derived[o] == "" {
						continue
					}
					switch lx := unparen(l).(type) {
					case *ast.IndexExpr:
						report(x, o, "is stored in a container ("+types.ExprString(lx.X)+")")
						held++
					}
				}
			}
			return true
		})
		if held == 0 {
			var names []string
			for o, k := range derived {
				names = append(names, o.Name()+"←"+k)
			}
			sort.Strings(names)
			c.Hold(rule, fn.Key, "long-lived-buffer-stays-local", c.P.Pos(fn.Decl.Pos()), "locals backed by a long-lived buffer ("+strings.Join(names, ", ")+") are not returned, sent, queued or stored")
		}
	}
	c.Floor(rule, "executor, replication", "locals backed by a long-lived byte buffer (positive control: the scanner's read buffers)", nScratch, 1)
}

// R18.8 — no shared mutable package-level state appears in the request path: the package-level
// variables of the server packages that are written after initialisation (assigned, index-
// assigned, used as the destination of a read/copy, or a sync.Map / map that is stored into)
// are exactly the frozen, justified table. A new one — a memo keyed too coarsely, a shared
// scratch buffer — is reachable from concurrent queries and writers and mixes their data.
func ruleNoNewSharedPackageState(c *Ctx) {
	const rule = "R18.8"
	// package-level vars that are legitimately written after init on today's tree
	allowed := map[string]string{
		"utils.InstanceConfig":           "configuration, written at start-up (and by tests)",
		"executor.ThisInstance":          "the instance singleton, set at start-up",
		"utils/log.logger":               "logger, set at start-up",
		"utils/log.Level":                "log level, set at start-up",
		"frontend.Queryable":             "atomic flag (R18.1)",
		"executor.haveWALWriter":         "atomic flag (R18.1)",
		"frontend/stream.manager":        "stream manager singleton, set at start-up",
		"frontend/stream.once":           "sync.Once of the stream manager",
		"utils/functions.AggRegistry":    "aggregate registry, filled at plugin load",
		"sqlparser.AggRegistry":          "aggregate registry, filled at plugin load",
		"metrics.StartupTime":            "metric",
		"cmd/start.utilitiesURL":         "start-up",
		"utils.Tag":                      "build info",
		"utils.GitHash":                  "build info",
		"utils.BuildStamp":               "build info",
		"frontend.atomicQueryable":       "atomic flag",
		"plugins/trigger.triggerPlugins": "plugin table filled at start-up",
		"uda/adjust.RateChangeCacheMap":  "corporate-action cache: a sync.Map keyed by the full bucket key, entries are immutable once stored",
	}
	scope := func(ps string) bool {
		return ps == "executor" || ps == "executor/wal" || ps == "executor/buffile" || ps == "catalog" || ps == "utils/io" || ps == "planner" ||
			ps == "replication" || ps == "plugins/trigger" || ps == "sqlparser" || ps == "frontend" || ps == "utils" || strings.HasPrefix(ps, "uda") || strings.HasPrefix(ps, "contrib/candler") || strings.HasPrefix(ps, "contrib/ondiskagg")
	}
	written := map[string]string{} // var key → first write position
	nVars := 0
	for _, pkg := range c.P.Pkgs {
		if !scope(short(pkg.PkgPath)) {
			continue
		}
		sc := pkg.Types.Scope()
		for _, nme := range sc.Names() {
			if v, ok := sc.Lookup(nme).(*types.Var); ok && !c.P.IsTestFile(v.Pos()) {
				_ = v
				nVars++
			}
		}
	}
	for _, fn := range c.P.NonTestFuncs() {
		if fn.Decl.Body == nil || !scope(fn.PkgShort()) || fn.Obj.Name() == "init" {
			continue
		}
		info := fn.Pkg.TypesInfo
		// locals that alias a package-level variable: x := &V, x := V[:]
		localAlias := map[types.Object]ast.Expr{}
		walkAll(fn.Decl.Body, func(m ast.Node) bool {
			if as, ok := m.(*ast.AssignStmt); ok && len(as.Lhs) == len(as.Rhs) {
				for i, l := range as.Lhs {
					o := identObj(info, l)
					if o == nil {
						continue
					}
					switch r := unparen(as.Rhs[i]).(type) {
					case *ast.UnaryExpr:
						if r.Op == token.AND {
							localAlias[o] = r.X
						}
					case *ast.SliceExpr:
						localAlias[o] = r.X
					}
				}
			}
			return true
		})
		var pkgVar func(e ast.Expr) string
		pkgVar = func(e ast.Expr) string {
			e = unparen(e)
			if o := identObj(info, e); o != nil {
				if a, ok := localAlias[o]; ok && a != nil {
					delete(localAlias, o) // no cycles
					k := pkgVar(a)
					localAlias[o] = a
					if k != "" {
						return k
					}
				}
			}
			for {
				switch x := e.(type) {
				case *ast.IndexExpr:
					e = unparen(x.X)
					continue
				case *ast.SliceExpr:
					e = unparen(x.X)
					continue
				case *ast.StarExpr:
					e = unparen(x.X)
					continue
				case *ast.SelectorExpr:
					if info.Selections[x] != nil { // field of a package-level struct value
						e = unparen(x.X)
						continue
					}
				}
				break
			}
			k := objKey(info, e)
			if k == "" {
				return ""
			}
			var id *ast.Ident
			switch x := e.(type) {
			case *ast.Ident:
				id = x
			case *ast.SelectorExpr:
				id = x.Sel
			}
			if id == nil {
				return ""
			}
			v, ok := objOf(info, id).(*types.Var)
			if !ok || v.IsField() || !scope(short(v.Pkg().Path())) || c.P.IsTestFile(v.Pos()) {
				return ""
			}
			return k
		}
		note := func(k string, pos token.Pos) {
			if k != "" && written[k] == "" {
				written[k] = c.P.Pos(pos) + " in " + fn.Key
			}
		}
		walkAll(fn.Decl.Body, func(m ast.Node) bool {
			switch x := m.(type) {
			case *ast.AssignStmt:
				for _, l := range x.Lhs {
					note(pkgVar(l), x.Pos())
				}
			case *ast.IncDecStmt:
				note(pkgVar(x.X), x.Pos())
			case *ast.CallExpr:
				nm := CalleeName(info, x)
				switch {
				case nm == "builtin.copy" && len(x.Args) == 2:
					note(pkgVar(x.Args[0]), x.Pos())
				case strings.HasSuffix(nm, ".Read") || strings.HasSuffix(nm, ".ReadAt") || strings.HasSuffix(nm, "io.ReadFull"):
					for _, a := range x.Args {
						if _, isSlice := unparen(a).(*ast.SliceExpr); isSlice {
							note(pkgVar(a), x.Pos())
						}
					}
				case nm == "(*sync.Map).Store" || nm == "(*sync.Map).LoadOrStore" || nm == "(*sync.Map).Delete" || nm == "(*sync.Map).Swap":
					if sel, ok := unparen(x.Fun).(*ast.SelectorExpr); ok {
						note(pkgVar(sel.X), x.Pos())
					}
				case nm == "builtin.delete" && len(x.Args) == 2:
					note(pkgVar(x.Args[0]), x.Pos())
				case nm == "(*sync.Pool).Put" || nm == "(*sync.Pool).Get":
					// a pool hands memory from one request to the next
					if sel, ok := unparen(x.Fun).(*ast.SelectorExpr); ok {
						note(pkgVar(sel.X), x.Pos())
					}
				}
			}
			return true
		})
	}
	var keys []string
	for k := range written {
		keys = append(keys, k)
	}
	sort.Strings(keys)
	for _, k := range keys {
		if why, ok := allowed[k]; ok {
			c.Hold(rule, "package-level state", "written-after-init:"+k, written[k], "listed: "+why)
		} else {
			c.Violate(rule, "package-level state", "written-after-init:"+k, written[k],
				"package-level variable "+k+" is modified by request-path code ("+written[k]+") and is not in the table of justified process-wide state: concurrent queries/writers (or several objects of one type) share it — a memo keyed too coarsely answers for the wrong object, a shared scratch buffer interleaves two readers' data", nil)
		}
	}
	c.Floor(rule, "server packages", "package-level variables examined", nVars, 20)
}

// R10.5 — the ticks decoder uses the ticks for every supported timeframe: GetTimeFromTicks is
// evaluated once per entry of the timeframe table (intervalsPerDay = Day / timeframe; edges whose
// condition is false under that value are pruned) and every reachable return must depend on the
// intervalTicks parameter. A guard such as `intervalsPerDay <= 1` that is meant for "longer than a
// day" also swallows the supported daily timeframe: all ticks of a day decode to midnight.
func ruleDecoderUsesTicksForEveryTimeframe(c *Ctx) {
	const rule = "R10.5"
	s := c.S(rule, "executor.GetTimeFromTicks")
	if s == nil {
		return
	}
	info := s.Info
	sig := s.Fn.Obj.Type().(*types.Signature)
	if sig.Params().Len() < 3 {
		c.Undecided(rule, s.Name, "signature", "GetTimeFromTicks(intervalStart, intervalsPerDay, intervalTicks) expected")
		return
	}
	ipd, ticks := paramObjC(s.Fn, 1), paramObjC(s.Fn, 2)
	// the supported timeframes: utils.Timeframes (durations are constants)
	init0, pk := c.P.pkgVarInit("utils", "Timeframes")
	var vals []int64
	if cl, ok := unparen(init0).(*ast.CompositeLit); ok && pk != nil {
		for _, el := range cl.Elts {
			e, ok := el.(*ast.CompositeLit)
			if !ok || len(e.Elts) < 2 {
				continue
			}
			d := e.Elts[1]
			if kv, ok := d.(*ast.KeyValueExpr); ok {
				d = kv.Value
			}
			if v, ok := constInt(pk.TypesInfo, d); ok && v > 0 {
				vals = append(vals, int64(24*3600*1e9)/v)
			}
		}
	}
	if len(vals) < 5 {
		c.Undecided(rule, "utils.Timeframes", "timeframe-table", "could not read the durations of utils.Timeframes")
		return
	}
	// does an expression depend on the ticks parameter (through local definitions)?
	var dependsOn func(e ast.Node, depth int, seen map[types.Object]bool) bool
	dependsOn = func(e ast.Node, depth int, seen map[types.Object]bool) bool {
		if e == nil || depth > 6 {
			return false
		}
		dep := false
		walkAll(e, func(m ast.Node) bool {
			id, ok := m.(*ast.Ident)
			if !ok || dep {
				return !dep
			}
			o := objOf(info, id)
			if o == nil || seen[o] {
				return true
			}
			if o == ticks {
				dep = true
				return false
			}
			seen[o] = true
			s.walk(func(d ast.Node) bool {
				if as, ok := d.(*ast.AssignStmt); ok {
					for i, l := range as.Lhs {
						if identObj(info, l) == o {
							if len(as.Rhs) == len(as.Lhs) {
								dep = dep || dependsOn(as.Rhs[i], depth+1, seen)
							} else if len(as.Rhs) == 1 {
								dep = dep || dependsOn(as.Rhs[0], depth+1, seen)
							}
						}
					}
				}
				return !dep
			})
			return !dep
		})
		return dep
	}
	named := map[types.Object]bool{}
	for i := 0; i < sig.Results().Len(); i++ {
		if v := sig.Results().At(i); v.Name() != "" {
			named[v] = true
		}
	}
	for _, v := range vals {
		cv := constant.MakeInt64(v)
		atom := func(e ast.Expr) (constant.Value, bool) {
			if identObj(info, e) == ipd {
				return cv, true
			}
			// conversions of the parameter
			if cx, ok := e.(*ast.CallExpr); ok && len(cx.Args) == 1 {
				if tv, isT := info.Types[cx.Fun]; isT && tv.IsType() && identObj(info, cx.Args[0]) == ipd {
					return cv, true
				}
			}
			return nil, false
		}
		r := s.Run(Query{WholeFacts: true, Exempt: func(f []Fact) bool { return infeasibleUnder(info, f, atom) },
			Target: func(sub, top ast.Node) bool { _, ok := sub.(*ast.ReturnStmt); return ok }})
		bad := ""
		for _, h := range r.Hits {
			rs := h.Node.(*ast.ReturnStmt)
			dep := false
			if len(rs.Results) == 0 {
				for o := range named {
					dep = dep || dependsOn(&ast.Ident{NamePos: rs.Pos(), Name: o.Name()}, 0, map[types.Object]bool{}) || namedDepends(s, info, o, ticks)
				}
			}
			for _, e := range rs.Results {
				dep = dep || dependsOn(e, 0, map[types.Object]bool{})
			}
			if !dep {
				bad = h.Pos
			}
		}
		c.Check(bad == "" && len(r.Hits) > 0, rule, s.Name, fmt.Sprintf("ticks-used:intervalsPerDay=%d", v), bad,
			fmt.Sprintf("for intervalsPerDay = %d (a supported timeframe) every reachable return of the decoder depends on the ticks (%d return(s) reachable)", v, len(r.Hits)))
	}
}

// namedDepends: some assignment to the named result o depends on the ticks parameter.
func namedDepends(s *Scope, info *types.Info, o, ticks types.Object) bool {
	dep := false
	s.walk(func(m ast.Node) bool {
		if as, ok := m.(*ast.AssignStmt); ok {
			for i, l := range as.Lhs {
				if identObj(info, l) == o && i < len(as.Rhs) && mentionsDeep(s, info, as.Rhs[i], ticks, 0) {
					dep = true
				}
			}
		}
		return !dep
	})
	return dep
}

func mentionsDeep(s *Scope, info *types.Info, e ast.Node, target types.Object, depth int) bool {
	if depth > 6 {
		return false
	}
	if mentions(info, e, target) {
		return true
	}
	hit := false
	walkAll(e, func(m ast.Node) bool {
		id, ok := m.(*ast.Ident)
		if !ok || hit {
			return !hit
		}
		o := objOf(info, id)
		if _, isVar := o.(*types.Var); !isVar {
			return true
		}
		s.walk(func(d ast.Node) bool {
			if as, ok := d.(*ast.AssignStmt); ok {
				for i, l := range as.Lhs {
					if identObj(info, l) == o && i < len(as.Rhs) && as.Rhs[i] != e && mentionsDeep(s, info, as.Rhs[i], target, depth+1) {
						hit = true
					}
				}
			}
			return !hit
		})
		return !hit
	})
	return hit
}

// R13.6 — projecting one symbol's columns does not disturb the next: the methods of ColumnSeries /
// ColumnSeriesMap that take a list of column names do not write through that parameter (no
// element assignment, no `p[:0]` / `p[:k]` re-slice that is then appended to). FilterColumns hands
// the same list to Project for every symbol of a multi-symbol query.
func ruleNameListParameterNotMutated(c *Ctx) {
	const rule = "R13.6"
	n := 0
	for _, fn := range c.P.NonTestFuncs() {
		if fn.PkgShort() != "utils/io" || fn.Decl.Body == nil || fn.Decl.Recv == nil {
			continue
		}
		rn := recvName(fn)
		if rn != "ColumnSeries" && rn != "ColumnSeriesMap" {
			continue
		}
		info := fn.Pkg.TypesInfo
		sig := fn.Obj.Type().(*types.Signature)
		for i := 0; i < sig.Params().Len(); i++ {
			sl, ok := sig.Params().At(i).Type().Underlying().(*types.Slice)
			if !ok {
				continue
			}
			if b, ok := sl.Elem().Underlying().(*types.Basic); !ok || b.Kind() != types.String {
				continue
			}
			po := paramObjC(fn, i)
			if po == nil {
				continue
			}
			n++
			// aliases of the parameter's backing array: x := p[:k]
			alias := map[types.Object]bool{po: true}
			var bad ast.Node
			walkAll(fn.Decl.Body, func(m ast.Node) bool {
				as, ok := m.(*ast.AssignStmt)
				if !ok {
					return true
				}
				for j, l := range as.Lhs {
					if j < len(as.Rhs) {
						if se, ok := unparen(as.Rhs[j]).(*ast.SliceExpr); ok && alias[identObj(info, se.X)] {
							if o := identObj(info, l); o != nil {
								alias[o] = true
							}
						}
					}
					// element assignment through the parameter / an alias
					if ix, ok := unparen(l).(*ast.IndexExpr); ok && alias[identObj(info, ix.X)] && bad == nil {
						bad = as
					}
				}
				// x = append(x, …) with x an alias (not the parameter itself re-bound to a fresh slice)
				if len(as.Rhs) == 1 {
					if cx, ok := unparen(as.Rhs[0]).(*ast.CallExpr); ok && len(cx.Args) >= 1 {
						if id, ok := unparen(cx.Fun).(*ast.Ident); ok && id.Name == "append" {
							if o := identObj(info, cx.Args[0]); o != nil && alias[o] && o != po && bad == nil {
								bad = as
							}
							if se, ok := unparen(cx.Args[0]).(*ast.SliceExpr); ok && alias[identObj(info, se.X)] && bad == nil {
								bad = as
							}
						}
					}
				}
				return true
			})
			c.Check(bad == nil, rule, fn.Key, "name-list-parameter-not-written:"+sig.Params().At(i).Name(), func() string {
				if bad != nil {
					return c.P.Pos(bad.Pos())
				}
				return c.P.Pos(fn.Decl.Pos())
			}(), "the column-name list parameter `"+sig.Params().At(i).Name()+"` is only read (an in-place filter of it would change the list the caller reuses for the next symbol)")
		}
	}
	c.Floor(rule, "utils/io", "ColumnSeries methods taking a list of names", n, 2)
}

// R14.6 — coercing a column keeps its position: CoerceColumnType cannot reach a function that
// changes the column order (writes ColumnSeries.orderedNames). The writer serialises rows in the
// series' own column order and stores them under the bucket's layout; a coerced column that moves
// to the end shifts every value into a neighbouring column.
func ruleCoercionKeepsColumnOrder(c *Ctx) {
	const rule = "R14.6"
	const anchor = "(*utils/io.ColumnSeries).CoerceColumnType"
	if c.F(rule, anchor) == nil {
		return
	}
	writers := map[string]bool{}
	for _, st := range fieldWriteSites(c.P, "utils/io.ColumnSeries.orderedNames") {
		writers[st.Fn.Key] = true
	}
	c.Floor(rule, "utils/io", "functions that change the column order", len(writers), 3)
	g := c.P.CG()
	path := g.PathTo(anchor, func(k string) bool { return writers[k] && k != anchor })
	if writers[anchor] {
		c.Violate(rule, anchor, "coercion-keeps-column-position", c.P.Pos(c.P.Funcs[anchor].Decl.Pos()), "CoerceColumnType itself rewrites the column order", nil)
		return
	}
	if path != nil {
		c.Violate(rule, anchor, "coercion-keeps-column-position", c.P.Pos(c.P.Funcs[anchor].Decl.Pos()),
			"CoerceColumnType reaches "+path[len(path)-1]+", which changes the order of the columns: the coerced column no longer sits where the bucket's record layout expects it and the written values land in neighbouring columns", path)
	} else {
		c.Hold(rule, anchor, "coercion-keeps-column-position", c.P.Pos(c.P.Funcs[anchor].Decl.Pos()), fmt.Sprintf("replaces the column's values in place; none of the %d order-changing functions is reachable", len(writers)))
	}
}

// R16.4 — a bucket that is not in the catalog is written only after it went through AddTimeBucket
// (the only place that validates the key's items): in WriteCSM, on the failure edge of the catalog
// lookup, WriteRecords is unreachable unless AddTimeBucket was called. A "the year file exists
// already, skip the create" shortcut lets a `..` key write into a file outside the root.
func ruleUncataloguedWriteValidated(c *Ctx) {
	const rule = "R16.4"
	s := c.S(rule, fnWriteCSM)
	if s == nil {
		return
	}
	n := 0
	for _, site := range s.sites(callPred(s, "(*catalog.Directory).GetLatestTimeBucketInfoFromKey")) {
		call := site.(*ast.CallExpr)
		n++
		r, ok := errEdgeQuery(s, call, s.topOf(call), callPred(s, fnWriteRecords), false)
		if !ok {
			c.Violate(rule, s.Name, "lookup-failure-handled", c.P.Pos(call.Pos()), "the result of the catalog lookup is not bound", nil)
			continue
		}
		// re-run with the barrier: AddTimeBucket
		obj, _ := assignedLastResult(s.Info, s.topOf(call), call)
		q := Query{
			Start:   func(sub, _ ast.Node) bool { return sub == ast.Node(call) },
			Target:  callPred(s, fnWriteRecords),
			Barrier: callPred(s, "(*catalog.Directory).AddTimeBucket"),
			FailObj: obj,
		}
		r2 := s.Run(q)
		_ = r
		c.Floor(rule, s.Name, "AddTimeBucket call sites", r2.BarrierSites, 1)
		c.reportHits(rule, s, "uncatalogued-bucket-created-before-write", r2,
			"when the bucket is not in the catalog, records are queued only after AddTimeBucket (which validates the key) ran",
			"records can be queued for a bucket that is not in the catalog without AddTimeBucket having validated its key: a key with `..` items is joined onto the root and an existing file outside the root is overwritten")
	}
	c.Floor(rule, s.Name, "catalog lookups", n, 1)
}

// R18.9 — the write-back buffer only ever holds bytes that were read from the file: the field
// BufferedFile.buffer is allocated / assigned only inside readBuffer, and there every successful
// exit after the allocation has passed ReadAt into it. A buffer that is pre-allocated elsewhere
// (zero-filled, never read) is taken for the loaded contents of the file range it claims to cover
// and is written back over it — for a batch that starts in the first block that is the year
// file's header (schema lost after restart).
func ruleWriteBackBufferIsRead(c *Ctx) {
	const rule = "R18.9"
	const fld = "executor/buffile.BufferedFile.buffer"
	const owner = "(*executor/buffile.BufferedFile).readBuffer"
	s := c.S(rule, owner)
	if s == nil {
		return
	}
	owned := c.P.GateDominated(map[string]bool{owner: true})
	n := 0
	for _, fn := range c.P.NonTestFuncs() {
		if fn.PkgShort() != "executor/buffile" || fn.Decl.Body == nil {
			continue
		}
		info := fn.Pkg.TypesInfo
		walkAll(fn.Decl.Body, func(m ast.Node) bool {
			var pos token.Pos
			nonNil := false
			switch x := m.(type) {
			case *ast.AssignStmt:
				for i, l := range x.Lhs {
					if fieldKey(info, l) == fld {
						pos = x.Pos()
						if i < len(x.Rhs) && !isNilIdent(info, x.Rhs[i]) {
							nonNil = true
						}
					}
				}
			case *ast.KeyValueExpr:
				if id, ok := x.Key.(*ast.Ident); ok && id.Name == "buffer" {
					if v, ok := info.ObjectOf(id).(*types.Var); ok && v.IsField() && !isNilIdent(info, x.Value) {
						pos, nonNil = x.Pos(), true
					}
				}
			}
			if pos == token.NoPos || !nonNil {
				return true
			}
			n++
			c.Check(owned[fn.Key], rule, fn.Key, "buffer-assigned-only-where-it-is-read", c.P.Pos(pos),
				"BufferedFile.buffer is given a (non-nil) value only in readBuffer, which fills it from the file; a buffer allocated elsewhere would be written back although it never held the file's bytes")
			return true
		})
	}
	c.Floor(rule, "executor/buffile", "assignments of BufferedFile.buffer", n, 1)
	// inside readBuffer: after the buffer was (re)allocated, success is reported only after ReadAt
	alloc := func(sub, top ast.Node) bool {
		as, ok := sub.(*ast.AssignStmt)
		if !ok {
			return false
		}
		for i, l := range as.Lhs {
			if fieldKey(s.Info, l) == fld && i < len(as.Rhs) {
				if cx, ok := unparen(as.Rhs[i]).(*ast.CallExpr); ok {
					if id, ok := unparen(cx.Fun).(*ast.Ident); ok && id.Name == "make" {
						return true
					}
				}
			}
		}
		return false
	}
	read := func(sub, top ast.Node) bool {
		cx, ok := sub.(*ast.CallExpr)
		return ok && strings.HasSuffix(CalleeName(s.Info, cx), ".ReadAt") && mentionsField(s.Info, cx.Fun, "executor/buffile.BufferedFile.fp")
	}
	r := s.Run(Query{Start: alloc, Barrier: read, ExitIsTarget: true, OnlyNilErrorReturns: true})
	c.reportHits(rule, s, "allocated-buffer-is-filled-from-the-file", r, "every successful exit of readBuffer after the allocation passed fp.ReadAt(buffer, …)", "readBuffer can succeed with a freshly allocated buffer that was not filled from the file")
	// and the bookkeeping offset is set together with the read
	okOff := false
	s.walk(func(m ast.Node) bool {
		if as, ok := m.(*ast.AssignStmt); ok {
			for _, l := range as.Lhs {
				if fieldKey(s.Info, l) == "executor/buffile.BufferedFile.bufferOffset" {
					okOff = true
				}
			}
		}
		return true
	})
	c.Check(okOff, rule, s.Name, "offset-recorded-with-the-read", c.P.Pos(s.Body.Pos()), "readBuffer records which file range the buffer holds")
}

// R24.4 — no pointer to a range variable outlives its iteration: the module is compiled with the
// per-loop range-variable semantics (go.mod `go` < 1.22), so `&v` of `for _, v := range xs` is the
// same address in every iteration. Stored in a variable declared outside the loop, appended,
// put in a composite literal or a map, it ends up denoting the LAST element (UpperBound/
// LowerBound of the aggregation timeframes then return the last-listed timeframe, not the
// largest/smallest). A per-iteration copy (`v := v`) or indexing (`&xs[i]`) is the fix.
func ruleNoEscapingRangeVarAddress(c *Ctx) {
	const rule = "R24.4"
	// language version
	old := true
	for _, pkg := range c.P.Pkgs {
		if pkg.Module != nil && pkg.Module.GoVersion != "" {
			parts := strings.Split(pkg.Module.GoVersion, ".")
			if len(parts) >= 2 {
				var maj, min int
				fmt.Sscanf(parts[0], "%d", &maj)
				fmt.Sscanf(parts[1], "%d", &min)
				old = maj == 1 && min < 22
			}
			break
		}
	}
	if !old {
		c.Hold(rule, "module", "range-variable-semantics", "", "the module's go directive is ≥ 1.22: every iteration has its own range variable")
		return
	}
	nLoops, nAddr := 0, 0
	for _, fn := range c.P.NonTestFuncs() {
		ps := fn.PkgShort()
		if fn.Decl.Body == nil || !(strings.HasPrefix(ps, "contrib/ondiskagg") || strings.HasPrefix(ps, "contrib/candler") || ps == "executor" || ps == "catalog" || ps == "planner" || ps == "frontend" || ps == "sqlparser" || ps == "replication" || strings.HasPrefix(ps, "utils") || strings.HasPrefix(ps, "uda") || strings.HasPrefix(ps, "plugins")) {
			continue
		}
		info := fn.Pkg.TypesInfo
		par := c.P.Parents(c.P.FileOf(fn.Pkg, fn.Decl.Pos()))
		walkAll(fn.Decl.Body, func(m ast.Node) bool {
			rs, ok := m.(*ast.RangeStmt)
			if !ok || rs.Tok != token.DEFINE {
				return true
			}
			nLoops++
			vars := map[types.Object]bool{}
			for _, e := range []ast.Expr{rs.Key, rs.Value} {
				if e != nil {
					if id, ok := e.(*ast.Ident); ok && id.Name != "_" {
						if o := info.ObjectOf(id); o != nil {
							vars[o] = true
						}
					}
				}
			}
			walkAll(rs.Body, func(k ast.Node) bool {
				u, ok := k.(*ast.UnaryExpr)
				if !ok || u.Op != token.AND {
					return true
				}
				id, ok := unparen(u.X).(*ast.Ident)
				if !ok || !vars[info.ObjectOf(id)] {
					return true
				}
				nAddr++
				// how is the pointer used?
				escapes, how := false, ""
				var up ast.Node = u
				p := par[up]
				for {
					if pe, ok := p.(*ast.ParenExpr); ok {
						up, p = pe, par[pe]
						continue
					}
					break
				}
				switch x := p.(type) {
				case *ast.AssignStmt:
					for i, r := range x.Rhs {
						if unparen(r) != ast.Expr(u) || i >= len(x.Lhs) {
							continue
						}
						switch l := unparen(x.Lhs[i]).(type) {
						case *ast.Ident:
							if o := info.ObjectOf(l); o != nil && (o.Pos() < rs.Body.Pos() || o.Pos() > rs.Body.End()) {
								escapes, how = true, "assigned to `"+l.Name+"`, which is declared outside the loop"
							}
						default:
							escapes, how = true, "stored in "+types.ExprString(x.Lhs[i])
						}
					}
				case *ast.CallExpr:
					if idf, ok := unparen(x.Fun).(*ast.Ident); ok && idf.Name == "append" {
						escapes, how = true, "appended to a slice"
					}
				case *ast.CompositeLit, *ast.KeyValueExpr:
					escapes, how = true, "placed in a composite literal"
				case *ast.SendStmt:
					escapes, how = true, "sent on a channel"
				case *ast.GoStmt, *ast.DeferStmt:
					escapes, how = true, "captured by a go/defer call"
				}
				if escapes {
					c.Violate(rule, fn.Key, "range-variable-address-escapes:"+id.Name, c.P.Pos(u.Pos()),
						"the address of the range variable `"+id.Name+"` is "+how+": with the module's language version every iteration reuses that one variable, so after the loop the pointer denotes the LAST element whatever was selected", nil)
				}
				return true
			})
			return true
		})
	}
	c.Hold(rule, "server and plugin packages", "range-variable-addresses-examined", "", fmt.Sprintf("%d range loops, %d uses of &<range variable>; none is kept beyond its iteration", nLoops, nAddr))
	c.Floor(rule, "server and plugin packages", "range loops examined", nLoops, 100)
}

// R23.6 — gap reports the pairs for every input that has at least two rows: in Gap.Accum a
// return that bypasses both scans (threshold scan and z-score scan) is reachable only through the
// "too few rows / cannot read the time column" guards. A shortcut such as "all intervals equal →
// no gap" drops every pair of a regular series whose spacing exceeds the configured threshold.
func ruleGapScanNotBypassed(c *Ctx) {
	const rule = "R23.6"
	s := c.S(rule, "(*uda/gap.Gap).Accum")
	if s == nil {
		return
	}
	info := s.Info
	// fewRows(e, val): condition e having the truth value val implies "too few rows / the time
	// column cannot be read" — `a || b` true needs both sides to imply it, `a && b` true one of
	// them; for val == false the roles are swapped (De Morgan), so the early-return form
	// `if err != nil || len(x) < 2 { return }` and the nested form `if err == nil && len(x) >= 2 {…}`
	// are the same guard.
	var fewRows func(e ast.Expr, val bool) bool
	fewRows = func(e ast.Expr, val bool) bool {
		e = unparen(e)
		if u, ok := e.(*ast.UnaryExpr); ok && u.Op == token.NOT {
			return fewRows(u.X, !val)
		}
		b, ok := e.(*ast.BinaryExpr)
		if !ok {
			return false
		}
		switch b.Op {
		case token.LOR:
			if val {
				return fewRows(b.X, true) && fewRows(b.Y, true)
			}
			return fewRows(b.X, false) || fewRows(b.Y, false)
		case token.LAND:
			if val {
				return fewRows(b.X, true) || fewRows(b.Y, true)
			}
			return fewRows(b.X, false) && fewRows(b.Y, false)
		case token.EQL, token.NEQ, token.LSS, token.LEQ, token.GTR, token.GEQ:
			for i, pair := range [][2]ast.Expr{{b.X, b.Y}, {b.Y, b.X}} {
				x, y := unparen(pair[0]), unparen(pair[1])
				if isNilIdent(info, y) && (b.Op == token.EQL || b.Op == token.NEQ) {
					// err != nil (an error is set), epochs == nil (no data)
					isNeq := (b.Op == token.NEQ) == val
					return isNeq == isErrorType(info.TypeOf(x))
				}
				cx, ok := x.(*ast.CallExpr)
				if !ok {
					continue
				}
				nm := ""
				if id, ok := unparen(cx.Fun).(*ast.Ident); ok {
					nm = id.Name
				} else if sel, ok := unparen(cx.Fun).(*ast.SelectorExpr); ok {
					nm = sel.Sel.Name
				}
				v, isC := constInt(info, y)
				if (nm != "len" && nm != "Len") || !isC {
					continue
				}
				op := b.Op
				if i == 1 { // constant on the left: mirror
					op = map[token.Token]token.Token{token.LSS: token.GTR, token.LEQ: token.GEQ, token.GTR: token.LSS, token.GEQ: token.LEQ, token.EQL: token.EQL, token.NEQ: token.NEQ}[op]
				}
				if !val { // negate
					op = map[token.Token]token.Token{token.LSS: token.GEQ, token.LEQ: token.GTR, token.GTR: token.LEQ, token.GEQ: token.LSS, token.EQL: token.NEQ, token.NEQ: token.EQL}[op]
				}
				switch op {
				case token.LSS:
					return v <= 2
				case token.LEQ, token.EQL:
					return v <= 1
				}
			}
		}
		return false
	}
	scan := func(sub, top ast.Node) bool {
		cx, ok := sub.(*ast.CallExpr)
		if !ok {
			return false
		}
		nm := CalleeName(info, cx)
		return strings.HasPrefix(nm, "uda/gap.bigGapIdxs") || strings.Contains(nm, "gap.bigGap")
	}
	r := s.Run(Query{Barrier: scan, ExitIsTarget: true, OnlyNilErrorReturns: false, WholeFacts: true,
		Exempt: func(f []Fact) bool {
			for _, x := range f {
				if x.Whole && fewRows(x.Expr, x.Val) {
					return true
				}
			}
			return false
		}})
	c.Floor(rule, s.Name, "gap scans", r.BarrierSites, 2)
	c.reportHits(rule, s, "result-only-after-a-scan", r,
		"with two or more rows, Accum returns only after the threshold scan or the z-score scan ran",
		"Accum can return without scanning the intervals although the input has two or more rows (every pair whose difference exceeds the threshold is missing from the result)")
}

// R17.6 — path prefixes are compared at a separator: in the catalog (and the code that deletes
// below it) strings.HasPrefix on two path values needs a prefix operand that ends with the path
// separator. "…/AAPL" is a string prefix of "…/AAPLW"; a prefix match without the separator
// treats a sibling bucket as a child (its catalog entry is dropped, or its files are removed).
func rulePathPrefixAtSeparator(c *Ctx) {
	const rule = "R17.6"
	n, bad := 0, 0
	for _, fn := range c.P.NonTestFuncs() {
		ps := fn.PkgShort()
		if fn.Decl.Body == nil || !(ps == "catalog" || ps == "executor" || ps == "frontend" || ps == "planner") {
			continue
		}
		info := fn.Pkg.TypesInfo
		walkAll(fn.Decl.Body, func(m ast.Node) bool {
			cx, ok := m.(*ast.CallExpr)
			if !ok || CalleeName(info, cx) != "strings.HasPrefix" || len(cx.Args) != 2 {
				return true
			}
			n++
			pre := unparen(cx.Args[1])
			if _, isConst := constString(info, pre); isConst {
				return true // a literal marker, not a path
			}
			endsWithSep := false
			if b, ok := pre.(*ast.BinaryExpr); ok && b.Op == token.ADD {
				if v, ok := constString(info, b.Y); ok && (strings.HasSuffix(v, "/") || v == string(os.PathSeparator)) {
					endsWithSep = true
				}
				if cxs, ok := unparen(b.Y).(*ast.CallExpr); ok && len(cxs.Args) == 1 && objKey(info, cxs.Args[0]) == "path/filepath.Separator" {
					endsWithSep = true
				}
			}
			if !endsWithSep {
				bad++
				c.Violate(rule, fn.Key, "path-prefix-without-separator", c.P.Pos(cx.Pos()),
					"strings.HasPrefix("+types.ExprString(cx.Args[0])+", "+types.ExprString(cx.Args[1])+") compares paths without a trailing separator on the prefix: a sibling whose name merely starts with the same characters (AAPL / AAPLW, OHLC / OHLCV) is treated as lying below it", nil)
			}
			return true
		})
	}
	if bad == 0 {
		c.Hold(rule, "catalog, executor, frontend, planner", "no-separatorless-path-prefix-test", "", fmt.Sprintf("%d strings.HasPrefix call(s); none compares a run-time path prefix without a trailing separator", n))
	}
}

// R20.4 — every select item is bound with its own alias: in the select-list loop of
// VisitQuerySpecificationParse a value assigned to the alias of an item is defined inside that
// iteration (from the item's own parse context). A variable that lives across iterations and is
// only set when an item has an alias leaks the previous item's alias onto the un-aliased items that
// follow (their columns are renamed onto it and disappear).
func ruleAliasPerSelectItem(c *Ctx) {
	const rule = "R20.4"
	s := c.S(rule, "(*sqlparser.ExecutableStatement).VisitQuerySpecificationParse")
	if s == nil {
		return
	}
	info := s.Info
	par := c.P.Parents(c.P.FileOf(s.Pkg, s.Body.Pos()))
	n := 0
	check := func(at ast.Node, val ast.Expr) {
		// enclosing loop
		var loop *loopInfo
		for p := par[at]; p != nil; p = par[p] {
			if li := asLoop(info, p); li != nil {
				loop = li
				break
			}
			if _, ok := p.(*ast.FuncDecl); ok {
				break
			}
		}
		if loop == nil {
			return
		}
		n++
		okAll := true
		culprit := ""
		walkAll(val, func(k ast.Node) bool {
			id, ok := k.(*ast.Ident)
			if !ok {
				return true
			}
			v, isVar := info.ObjectOf(id).(*types.Var)
			if !isVar || v.IsField() || v.Pkg() == nil || v.Parent() == v.Pkg().Scope() {
				return true
			}
			inLoop := v.Pos() >= loop.Node.Pos() && v.Pos() <= loop.Node.End()
			if !inLoop && !isParam(s, v) && info.ObjectOf(id) != identObj(info, s.recvIdent()) {
				okAll, culprit = false, id.Name
			}
			return true
		})
		c.Check(okAll, rule, s.Name, "alias-defined-in-own-iteration", c.P.Pos(at.Pos()),
			"the alias given to a select item is computed inside the item's own loop iteration"+map[bool]string{true: "", false: " (`" + culprit + "` is declared outside the loop and carries the previous item's alias over)"}[okAll])
	}
	s.walk(func(m ast.Node) bool {
		switch x := m.(type) {
		case *ast.KeyValueExpr:
			if id, ok := x.Key.(*ast.Ident); ok && id.Name == "Alias" {
				if v, ok := info.ObjectOf(id).(*types.Var); ok && v.IsField() {
					check(x, x.Value)
				}
			}
		case *ast.AssignStmt:
			for i, l := range x.Lhs {
				if strings.HasSuffix(fieldKey(info, l), ".Alias") && i < len(x.Rhs) {
					check(x, x.Rhs[i])
				}
			}
		case *ast.CallExpr:
			// NewAliasedIdentifier(primary, alias)-style constructors
			if strings.Contains(CalleeName(info, x), "AliasedIdentifier") && len(x.Args) >= 2 {
				check(x, x.Args[len(x.Args)-1])
			}
		}
		return true
	})
	c.Floor(rule, s.Name, "alias bindings in the select-list loop", n, 1)
}

// recvIdent: the receiver identifier of the scope's function (nil for plain functions).
func (s *Scope) recvIdent() ast.Expr {
	if s.Fn == nil || s.Fn.Decl.Recv == nil || len(s.Fn.Decl.Recv.List) == 0 || len(s.Fn.Decl.Recv.List[0].Names) == 0 {
		return &ast.Ident{Name: "_"}
	}
	return s.Fn.Decl.Recv.List[0].Names[0]
}
