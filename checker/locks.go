package main

// K6: lock discipline for a frozen list of shared struct fields.
//
// For every access `R.….field` in the package, where R is the root identifier of the selector
// chain, the enclosing function body (declared function or literal) must hold a mutex reached
// from the same root R (`R.Lock()`, `R.mu.RLock()` …) on every path from entry to the access,
// with no non-deferred unlock in between. Exceptions (caller-holds helpers, constructors) are
// a table with one reason per entry.

import (
	"go/ast"
	"go/types"
	"sort"
	"strings"
)

func rootIdent(info *types.Info, e ast.Expr) types.Object {
	for {
		switch x := unparen(e).(type) {
		case *ast.SelectorExpr:
			e = x.X
		case *ast.IndexExpr:
			e = x.X
		case *ast.StarExpr:
			e = x.X
		case *ast.CallExpr:
			return nil
		case *ast.Ident:
			return info.ObjectOf(x)
		default:
			return nil
		}
	}
}

func lockCall(info *types.Info, n ast.Node, names ...string) (types.Object, bool) {
	call, ok := n.(*ast.CallExpr)
	if !ok {
		return nil, false
	}
	nm := CalleeName(info, call)
	for _, want := range names {
		if nm == "(*sync.RWMutex)."+want || nm == "(*sync.Mutex)."+want {
			sel, ok := unparen(call.Fun).(*ast.SelectorExpr)
			if !ok {
				return nil, false
			}
			return rootIdent(info, sel.X), true
		}
	}
	return nil, false
}

type fieldAccess struct {
	Scope *Scope
	Node  *ast.SelectorExpr
	Field string
	Root  types.Object
	Write bool
}

// scopesOfPackage: every function body (declared and literal) of a package.
func (p *Prog) scopesOfPackage(pkgShort string) []*Scope {
	var out []*Scope
	for _, fn := range p.NonTestFuncs() {
		if fn.PkgShort() != pkgShort || fn.Decl.Body == nil {
			continue
		}
		out = append(out, p.ScopeOf(fn))
		walkAll(fn.Decl.Body, func(n ast.Node) bool {
			if lit, ok := n.(*ast.FuncLit); ok {
				out = append(out, p.ScopeOfLit(fn, lit))
			}
			return true
		})

	}
	return out
}

// accessesIn lists the accesses to the given field keys made directly in the scope's body
// (nested function literals are separate scopes).
func accessesIn(s *Scope, fields map[string]bool) []fieldAccess {
	var out []fieldAccess
	file := s.P.FileOf(s.Pkg, s.Body.Pos())
	par := s.P.Parents(file)
	var visit func(n ast.Node)
	visit = func(n ast.Node) {
		ast.Inspect(n, func(m ast.Node) bool {
			if m == nil {
				return false
			}
			if lit, ok := m.(*ast.FuncLit); ok && lit.Body != s.Body {
				return false
			}
			sel, ok := m.(*ast.SelectorExpr)
			if !ok {
				return true
			}
			k := fieldKey(s.Info, sel)
			if !fields[k] {
				return true
			}
			w := false
			// write: LHS of assignment / inc-dec / delete(map,...) / index-store
			var child ast.Node = sel
			for p := par[sel]; p != nil; child, p = p, par[p] {
				switch x := p.(type) {
				case *ast.IndexExpr:
					if x.X == child {
						continue
					}
				case *ast.AssignStmt:
					for _, l := range x.Lhs {
						if l == child {
							w = true
						}
					}
				case *ast.IncDecStmt:
					w = true
				case *ast.CallExpr:
					if CalleeName(s.Info, x) == "builtin.delete" && len(x.Args) > 0 && x.Args[0] == child {
						w = true
					}
					if CalleeName(s.Info, x) == "builtin.close" {
						w = true
					}
				}
				break
			}
			out = append(out, fieldAccess{Scope: s, Node: sel, Field: k, Root: rootIdent(s.Info, sel.X), Write: w})
			return true
		})
	}
	visit(s.Body)
	return out
}

// heldAt: is a mutex rooted at `root` held on every path from the scope's entry to node n?
func (s *Scope) heldAt(root types.Object, n ast.Node, needWrite bool) (bool, []string) {
	names := []string{"Lock", "RLock"}
	if needWrite {
		names = []string{"Lock"}
	}
	lock := func(sub, top ast.Node) bool {
		if _, isDefer := top.(*ast.DeferStmt); isDefer {
			return false
		}
		o, ok := lockCall(s.Info, sub, names...)
		return ok && o == root && root != nil
	}
	unlock := func(sub, top ast.Node) bool {
		if _, isDefer := top.(*ast.DeferStmt); isDefer {
			return false
		}
		o, ok := lockCall(s.Info, sub, "Unlock", "RUnlock")
		return ok && o == root && root != nil
	}
	target := func(sub, top ast.Node) bool { return sub == n }
	r1 := s.Run(Query{Target: target, Barrier: lock})
	if len(r1.Hits) > 0 {
		return false, r1.Hits[0].Path
	}
	r2 := s.Run(Query{Start: unlock, Target: target, Barrier: lock})
	if len(r2.Hits) > 0 {
		return false, r2.Hits[0].Path
	}
	return true, nil
}

type lockException struct {
	Func   string // scope name prefix (function key, or key$lit…)
	Root   string // "recv" | "param:<n>" | "*" (any root)
	Reason string
}

// checkLockDiscipline evaluates every access to `fields` in the package.
func (c *Ctx) checkLockDiscipline(rule, pkgShort string, fields map[string]bool, exceptions []lockException, minAccesses int) {
	n := 0
	for _, s := range c.P.scopesOfPackage(pkgShort) {
		accs := accessesIn(s, fields)
		if len(accs) == 0 {
			continue
		}
		// group by (root, field, write) to keep the report readable
		type gk struct {
			root  types.Object
			field string
		}
		seen := map[gk]bool{}
		sort.Slice(accs, func(i, j int) bool { return accs[i].Node.Pos() < accs[j].Node.Pos() })
		for _, a := range accs {
			n++
			rootDesc := "?"
			if a.Root != nil {
				rootDesc = s.rootDesc(a.Root)
			}
			construct := "access:" + strings.TrimPrefix(a.Field, pkgShort+".") + " via " + rootDesc
			ex := matchLockException(exceptions, s, a.Root)
			if ex != nil {
				if !seen[gk{a.Root, a.Field}] {
					c.Hold(rule, s.Name2(), construct, c.P.Pos(a.Node.Pos()), "listed exception: "+ex.Reason)
					seen[gk{a.Root, a.Field}] = true
				}
				continue
			}
			ok, path := s.heldAt(a.Root, a.Node, a.Write)
			if ok {
				if !seen[gk{a.Root, a.Field}] {
					c.Hold(rule, s.Name2(), construct, c.P.Pos(a.Node.Pos()), "mutex of the same object is held on every path to the access")
					seen[gk{a.Root, a.Field}] = true
				}
				continue
			}
			kind := "read"
			if a.Write {
				kind = "write"
			}
			c.Violate(rule, s.Name2(), "unlocked-"+kind+":"+strings.TrimPrefix(a.Field, pkgShort+".")+" via "+rootDesc, c.P.Pos(a.Node.Pos()),
				"shared field "+a.Field+" is accessed ("+kind+") without holding the mutex of the object it belongs to ("+rootDesc+") while other functions mutate it under that mutex: a data race under concurrent requests", path)
		}
	}
	c.Floor(rule, "package "+pkgShort, "accesses to the protected fields", n, minAccesses)
}

// Name2: stable scope name (function key, literals numbered by order instead of position).
func (s *Scope) Name2() string {
	if s.Fn == nil || s.Body == s.Fn.Decl.Body {
		return s.Name
	}
	idx := 0
	k := 0
	walkAll(s.Fn.Decl.Body, func(n ast.Node) bool {
		if lit, ok := n.(*ast.FuncLit); ok {
			k++
			if lit.Body == s.Body {
				idx = k
			}
		}
		return true
	})

	return s.Fn.Key + "$lit" + string(rune('0'+idx))
}

// rootDesc: "recv", "param#i", "local <range over recv.field>" …
func (s *Scope) rootDesc(o types.Object) string {
	if s.Fn != nil && s.Body == s.Fn.Decl.Body && s.Fn.Decl.Recv != nil && len(s.Fn.Decl.Recv.List) > 0 && len(s.Fn.Decl.Recv.List[0].Names) > 0 {
		if s.Info.ObjectOf(s.Fn.Decl.Recv.List[0].Names[0]) == o {
			return "receiver"
		}
	}
	if s.Type != nil && s.Type.Params != nil {
		i := 0
		for _, f := range s.Type.Params.List {
			for _, nm := range f.Names {
				if s.Info.ObjectOf(nm) == o {
					return "param#" + string(rune('0'+i))
				}
				i++
			}
		}
	}
	// captured from the enclosing function?
	if o.Pos() < s.Body.Pos() || o.Pos() > s.Body.End() {
		return "captured " + typeShort(o.Type())
	}
	return "local " + typeShort(o.Type())
}

func typeShort(t types.Type) string { return short(types.TypeString(t, nil)) }

func matchLockException(ex []lockException, s *Scope, root types.Object) *lockException {
	name := s.Name2()
	for i := range ex {
		e := &ex[i]
		if !(name == e.Func || strings.HasPrefix(name, e.Func+"$lit")) {
			continue
		}
		if e.Root == "*" || (root != nil && s.rootDesc(root) == e.Root) {
			return e
		}
	}
	return nil
}
