package main

import (
	"fmt"
	"os"
)

// debug helpers (not used by checks): mscheck-debug via env MSCHECK_DEBUG=sinks|cfg:<func>
func init() {
	d := os.Getenv("MSCHECK_DEBUG")
	if d == "" {
		return
	}
	p, err := Load(LoadConfig{Dir: "/repo"})
	if err != nil {
		fmt.Println(err)
		os.Exit(2)
	}
	switch {
	case d == "sinks":
		for _, s := range p.fsSinkSites(func(*Func) bool { return true }) {
			fmt.Printf("%-40s %-22s %s %s scope=%v\n", s.Pos, s.Prim, s.Fn.Key, s.Detail, inServerScope(s.Fn))
		}
	case len(d) > 4 && d[:4] == "cfg:":
		fn := p.Funcs[d[4:]]
		if fn == nil {
			fmt.Println("no such func")
			os.Exit(2)
		}
		g := p.CFG(fn.Pkg, fn.Decl.Body)
		fmt.Println(g.Format(p.Fset))
	case len(d) > 8 && d[:8] == "callers:":
		for _, e := range p.CG().In[d[8:]] {
			fmt.Printf("%s  <- %s (%s) %s\n", d[8:], e.From.Key, e.Kind, e.Pos)
		}
	case len(d) > 8 && d[:8] == "callees:":
		for _, e := range p.CG().Out[d[8:]] {
			fmt.Printf("%s  -> %s (%s) %s\n", d[8:], e.To, e.Kind, e.Pos)
		}
	case d == "aliases":
		for o, t := range objAlias {
			fmt.Printf("%s@%s -> %s@%s\n", o.Name(), p.Pos(o.Pos()), t.Name(), p.Pos(t.Pos()))
		}
		for _, f := range p.NonTestFuncs() {
			if hs := p.privateHelpers(f); len(hs) > 0 {
				for _, h := range hs {
					fmt.Printf("helper %s of %s\n", h.Key, f.Key)
				}
			}
		}
	case d == "funcs":
		for _, f := range p.FuncSeq {
			fmt.Println(f.Key)
		}
	}
	os.Exit(0)
}
