package main

func init() {
	register(&Property{
		ID: "C21",
		Explanation: "Thin structural slice — which price is the extreme and which row is the earliest are value facts and NOT decided. Decided, on every path of the current source: (R21.1) in Candle.AddCandle each OHLC field is updated from the input's price of the same position (prices[k], or prices[0] for a tick), Open/Close are assigned together with OpenTime/CloseTime = the row's time in the same block, " +
			"Open is replaced only behind `row earlier than OpenTime`, Close only behind `row later than CloseTime`, High only behind `input high > High` and Low only behind `input low < Low` (the compared value is the assigned value), the first row initialises all fields, and no candle state is written except on the IsWithin(ts)==true edge; " +
			"(R21.2) Candler.Output serializes the candles while ranging over the window starts sorted ascending on every path (never in map order), the advertised columns equal the serialized accumulator struct field by field (name, width, order), sums precede averages on both sides and an average is SumMap[name]/Count; " +
			"(R21.3) both aggregates feed every row once to the candle of its own window (GetCandle(t) then AddCandle(t, column[i]…)), increment Count once per row and add the row's own element to the sums; (R22.2) GetCandle reuses a candle only when its start equals the row's window start.",
		NotCovered: "numeric correctness of max/min/sum/avg in float32/float64, ties between equal timestamps, the window arithmetic itself (C31), float overflow.",
		Rules: []Rule{
			{"R21.1", "AddCandle: paired open/close state, guarded extremes, window gate", ruleCandleUpdate},
			{"R21.2", "Output: time order, schema = struct layout, sums then averages", ruleCandleOutput},
			{"R21.3", "Accum: every row once into the candle of its own window", ruleCandlerAccum},
			{"R22.2", "GetCandle returns the candle of the row's window", ruleGetCandle},
			{"R31.3", "window membership never uses start + nominal duration", ruleNoNominalDurationArithmetic},
		},
	})
	register(&Property{
		ID: "C22",
		Explanation: "Thin structural slice — the algebraic identity between the two pipelines is NOT decided. Decided are the shape conditions it rests on: (R22.1, inside R21.3) the candle-of-candles aggregate hands AddCandle the input columns mapped to Open, High, Low, Close in exactly AddCandle's positional order, row by row, with the row's own time; " +
			"(R21.1) AddCandle folds a candle input with open→earliest, close→latest, high→max of highs, low→min of lows (guards compare the value they assign); (R22.2) rows are merged only into the candle whose start is their window start; (R21.2) the fine aggregate's output schema is the struct layout, so the coarse aggregate reads the columns it thinks it reads.",
		NotCovered: "that fine windows nest inside coarse windows (timeframe arithmetic), equality of the float results.",
		Rules: []Rule{
			{"R21.3", "Accum wiring incl. R22.1 positional OHLC contract", ruleCandlerAccum},
			{"R21.1", "AddCandle fold", ruleCandleUpdate},
			{"R22.2", "GetCandle returns the candle of the row's window", ruleGetCandle},
			{"R21.2", "Output schema = struct layout, time order", ruleCandleOutput},
			{"R31.3", "window membership never uses start + nominal duration", ruleNoNominalDurationArithmetic},
		},
	})
	register(&Property{
		ID: "C31",
		Explanation: "Thin structural slice — start ≤ t < end as arithmetic over all instants is NOT decided. Decided: (R31.1) the sibling functions Truncate, Ceil and IsWithin treat the same suffixes on the calendar, every suffix alternative the parser's regular expression accepts has a positive fixed duration in suffixDefs or calendar handling in all three, the fixed-duration branches of all three align on Time.Truncate(cd.duration), " +
			"Ceil's is Truncate(ts + duration) and IsWithin's compares Truncate(ts) with the start; (R31.2) QueryableTimeframe returns a member of the timeframe table only behind `duration % member.Duration == 0`, and the member tested is the member returned.",
		NotCovered: "calendar arithmetic (months, ISO weeks, years), time zones and DST, parse/print stability of timeframe strings.",
		Rules: []Rule{
			{"R31.1", "Truncate / Ceil / IsWithin agree on suffix handling and grid", ruleTimeframeTables},
			{"R31.2", "the queryable timeframe divides the duration", ruleQueryableDivides},
			{"R31.3", "the nominal duration is only compared with / divided by constants", ruleNoNominalDurationArithmetic},
			{"R31.4", "calendar branches of Truncate/Ceil build boundaries from date fields, not by adding a duration", ruleCalendarBranchesUseCalendar},
			{"R31.5", "week windows use the ISO year together with the ISO week", ruleISOWeekBothResults},
		},
	})
}
