package main

// Self-test catalogue: single-site edits of /repo's current source that break one rule each
// while still type-checking. Applied in memory (packages.Config.Overlay) by the thorough tier;
// a mutant whose anchor text no longer occurs exactly once is reported "not applicable".

func init() {
	add := func(prop string, m ...Mutant) {
		if p := registry[prop]; p != nil {
			p.Mutants = append(p.Mutants, m...)
		}
	}
	const wal = "executor/wal.go"
	const walreplay = "executor/walreplay.go"
	const walclean = "executor/walclean.go"
	const writer = "executor/writer.go"

	syncDropped := Mutant{"sync-error-ignored", wal, "if err := wf.FilePtr.Sync(); err != nil { // Flush the OS buffer\n\t\t\treturn fmt.Errorf(\"failed to flush wal data: %w\", err)\n\t\t}", "_ = wf.FilePtr.Sync()", "R1.1"}
	primaryBeforeSync := Mutant{"primary-write-before-wal", wal, "\ttgSerialized, writesPerFile := serializeTG(wf.txnPipe.tgID, writeCommands)\n", "\ttgSerialized, writesPerFile := serializeTG(wf.txnPipe.tgID, writeCommands)\n\tfor kp, ws := range writesPerFile {\n\t\t_ = wf.writePrimary(kp, ws, fileRecordTypes[kp], varRecLens[kp])\n\t}\n", "R1.1"}
	commitAfterSync := Mutant{"commit-record-write-unchecked", wal, "if err := wf.WriteTransactionInfo(TGID, WAL, COMMITCOMPLETE); err != nil {\n\t\t\treturn fmt.Errorf(\"failed to write COMMITCOMPLETE status to walfile: %w\", err)\n\t\t}", "_ = wf.WriteTransactionInfo(TGID, WAL, COMMITCOMPLETE)", "R1.2"}
	noRequestFlush := Mutant{"ack-without-flush", writer, "\tw.walFile.RequestFlush()\n", "", "R1.3"}
	foreignWriter := Mutant{"unlogged-writer", "frontend/write.go", "package frontend\n", "package frontend\n\nimport osx \"os\"\n\nfunc fastPathTouch(p string) { f, _ := osx.OpenFile(p, osx.O_RDWR, 0o600); _ = f }\n", "R1.4"}
	replaySkipped := Mutant{"cleanup-error-ignored", "internal/di/wal.go", "err = c.CleanupOldWALFiles(walFileAbsPaths)\n\t\tif err != nil {", "err = c.CleanupOldWALFiles(walFileAbsPaths)\n\t\tif false {", "R1.5"}
	reverseSort := Mutant{"replay-descending", walreplay, "sort.Sort(sortedTGIDs)", "sort.Sort(sort.Reverse(sortedTGIDs))", "R5.3"}
	checksumLate := Mutant{"bytes-returned-with-checksum-error", walreplay, "if err := validateCheckSum(tgLenSerialized, tgSerialized, checkBuf); err != nil {\n\t\treturn 0, nil, err\n\t}\n\n\treturn tgID, tgSerialized, nil", "return tgID, tgSerialized, validateCheckSum(tgLenSerialized, tgSerialized, checkBuf)", "R2.2"}
	pruneOne := Mutant{"prune-only-named-tg", walreplay, "for tgid := range tgData {\n\t\t\t\t\t\tif tgid <= TGID {\n\t\t\t\t\t\t\ttgData[tgid] = nil\n\t\t\t\t\t\t\tdelete(tgData, tgid)\n\t\t\t\t\t\t}\n\t\t\t\t\t}", "delete(tgData, TGID)", "R35.4"}
	pruneOnPreparing := Mutant{"prune-on-any-checkpoint-record", walreplay, "if _, ok := tgData[TGID]; ok && txnStatus == COMMITCOMPLETE {", "if _, ok := tgData[TGID]; ok {", "R35.4"}
	add("C01", syncDropped, primaryBeforeSync, commitAfterSync, noRequestFlush, foreignWriter, replaySkipped, reverseSort, checksumLate, pruneOne)

	noReplayCheckpoint := Mutant{"replay-without-checkpoint", walreplay, "err = wf.CreateCheckpoint()\n\tif err != nil {\n\t\treturn fmt.Errorf(\"create checkpoint of wal:%w\", err)\n\t}\n", "_ = err\n", "R2.1"}
	add("C02", noReplayCheckpoint, checksumLate, pruneOne, foreignWriter2("R2.3"))

	rawToReplayErr := Mutant{"type-assertion-instead-of-errors-as", walclean, "var walReplayErr wal.ReplayError\n\t\t\tif !errors.As(err, &walReplayErr) {", "walReplayErr, isRE := err.(wal.ReplayError)\n\t\t\t_ = errors.New\n\t\t\tif !isRE {", "R34.8"}
	newPanic := Mutant{"panic-in-replay", walreplay, "\tif len(wtSets) == 0 {\n\t\treturn nil\n\t}\n", "\tif len(wtSets) == 0 {\n\t\tpanic(\"empty TG\")\n\t}\n", "R6.4"}
	noLower := Mutant{"length-lower-bound-removed", walreplay, "if tgLen < tgIDBytes+8 || !sanityCheckValue(wf.FilePtr, tgLen) {", "if !sanityCheckValue(wf.FilePtr, tgLen) {", "R6.1"}
	indexFirst := Mutant{"index-before-data", writer, "\tsort.Stable(NewByIntervalTicks(dataToBeWritten, int(dataLen)/varRecLen, varRecLen))\n", "\tif _, err = fp.Seek(primaryOffset, stdio.SeekStart); err != nil {\n\t\treturn err\n\t}\n\tsort.Stable(NewByIntervalTicks(dataToBeWritten, int(dataLen)/varRecLen, varRecLen))\n", "R3.2"}
	add("C03", rawToReplayErr, newPanic, noLower, indexFirst)

	truncAnyway := Mutant{"rotate-after-failed-checkpoint", wal, "\t\t\t\t\t// The WAL still holds the only durable copy of the transactions\n\t\t\t\t\t// that could not be checkpointed: do not rotate (truncate) it.\n\t\t\t\t\tcontinue\n", "", "R4.3"}
	syncfsAfter := Mutant{"commitcomplete-before-syncfs", wal, "\tio.Syncfs()\n\tif err := wf.WriteTransactionInfo(TGID, CHECKPOINT, COMMITCOMPLETE); err != nil {\n\t\treturn fmt.Errorf(\"write COMMITCOMPLETE transaction info: %w\", err)\n\t}\n", "\tif err := wf.WriteTransactionInfo(TGID, CHECKPOINT, COMMITCOMPLETE); err != nil {\n\t\treturn fmt.Errorf(\"write COMMITCOMPLETE transaction info: %w\", err)\n\t}\n\tio.Syncfs()\n", "R4.2"}
	statusNoSync := Mutant{"status-not-synced", wal, "\tif err := wf.FilePtr.Sync(); err != nil {\n\t\treturn err\n\t}\n\tif _, err := wf.FilePtr.Seek(0, goio.SeekEnd); err != nil {", "\tif _, err := wf.FilePtr.Seek(0, goio.SeekEnd); err != nil {", "R4.4"}
	add("C04", syncDropped, truncAnyway, syncfsAfter, statusNoSync, noReplayCheckpoint, pruneOnPreparing)

	flushFromWriter := Mutant{"flush-from-request-goroutine", writer, "\tw.walFile.RequestFlush()\n", "\tw.walFile.RequestFlush()\n\t_ = w.walFile.FlushToWAL()\n", "R5.1"}
	incBeforeCommit := Mutant{"tgid-incremented-before-commit-record", wal, "\t\tTGID := wf.txnPipe.TGID()\n", "\t\twf.txnPipe.IncrementTGID()\n\t\tTGID := wf.txnPipe.TGID()\n", "R5.2"}
	add("C05", flushFromWriter, incBeforeCommit, reverseSort, checksumLate, truncAnyway, pruneOne)

	noProgress := Mutant{"scan-loop-without-read", walreplay, "\t\tmsgID, err := wf.readMessageID()\n", "\t\tvar msgID MIDEnum\n\t\tvar err error\n\t\tif len(tgData) > 1<<30 {\n\t\t\tmsgID, err = wf.readMessageID()\n\t\t}\n", "R6.3"}
	damagedRecorded := Mutant{"damaged-tg-record-recorded", "executor/walreplay.go", "\t\t\tif err != nil {\n\t\t\t\t// a damaged record (garbage length or bad checksum) has no TG ID and no data:\n\t\t\t\t// skip it instead of recording it under ID 0\n\t\t\t\tbreak // Break out of switch\n\t\t\t}\n", "", "R6.6"}
	add("C06", noLower, checksumLate, newPanic, noProgress, damagedRecorded)

	ackBeforeFlush := Mutant{"ack-before-flush", wal, "\t\t\t\tif err := wf.FlushToWAL(); err != nil {\n\t\t\t\t\tlog.Error(\"[txnPipe.flushChannel] failed to FlushToWAL: \" + err.Error())\n\t\t\t\t}\n\t\t\t\tf <- struct{}{}\n", "\t\t\t\tf <- struct{}{}\n\t\t\t\tif err := wf.FlushToWAL(); err != nil {\n\t\t\t\t\tlog.Error(\"[txnPipe.flushChannel] failed to FlushToWAL: \" + err.Error())\n\t\t\t\t}\n", "R7.2"}
	noWait := Mutant{"requester-does-not-wait", wal, "\twf.txnPipe.flushChannel <- f\n\t<-f\n", "\twf.txnPipe.flushChannel <- f\n", "R7.1"}
	add("C07", ackBeforeFlush, noWait, syncDropped, noRequestFlush)

	prevYearDropped := Mutant{"prev-year-not-updated", writer, "\t\t\tprevIndex = index\n\t\t\tprevYear = year\n", "\t\t\tprevIndex = index\n", "R8.2"}
	sortWrites := Mutant{"unstable-sort-of-writes", wal, "\tfor _, buffer := range writes {\n\t\tif err = WriteBufferToFile(fp, buffer); err != nil {", "\tsort.Slice(writes, func(i, j int) bool { return writes[i].Offset() < writes[j].Offset() })\n\tfor _, buffer := range writes {\n\t\tif err = WriteBufferToFile(fp, buffer); err != nil {", "R8.3"}
	wrongOffset := Mutant{"offset-not-from-index", writer, "offset := io.IndexToOffset(index, tbi.GetRecordLength())", "offset := io.TimeToOffset(t, tbi.GetTimeframe(), tbi.GetRecordLength()) + 0*index", "R8.4"}
	subdayZero := Mutant{"subday-index-zero-based", "utils/io/timeindex.go", "\treturn 1 + tLocal.Sub(", "\treturn 0 + tLocal.Sub(", "R8.1"}
	add("C08", prevYearDropped, sortWrites, wrongOffset, subdayZero)

	signedLess := Mutant{"signed-ticks-compare", "executor/sort.go", "\tintervalTicksI := io.ToUInt32(ei.buffer[cursorI+ei.recordLength-4 : cursorI+ei.recordLength])\n\tintervalTicksJ := io.ToUInt32(ei.buffer[cursorJ+ei.recordLength-4 : cursorJ+ei.recordLength])\n", "\tintervalTicksI := io.ToInt32(ei.buffer[cursorI+ei.recordLength-4 : cursorI+ei.recordLength])\n\tintervalTicksJ := io.ToInt32(ei.buffer[cursorJ+ei.recordLength-4 : cursorJ+ei.recordLength])\n", "R9.3"}
	noSort := Mutant{"sort-removed", writer, "\tsort.Stable(NewByIntervalTicks(dataToBeWritten, int(dataLen)/varRecLen, varRecLen))\n", "\t_ = sort.Stable\n", "R9.2"}
	staleCount := Mutant{"sort-count-before-merge", writer, "\t\tdataToBeWritten = append(oldData, dataToBeWritten...)\n\t\tdataLen = int64(len(dataToBeWritten))\n", "\t\tdataToBeWritten = append(oldData, dataToBeWritten...)\n", "R9.5"}
	estimateCopy := Mutant{"estimated-buffer-single-doubling", "executor/readvariable.go", "\t\t\trb = append(rb, rbTemp...)\n", "\t\t\tif len(rb)+len(rbTemp) > cap(rb) {\n\t\t\t\trb2 := make([]byte, len(rb), 2*cap(rb)+1)\n\t\t\t\tcopy(rb2, rb)\n\t\t\t\trb = rb2\n\t\t\t}\n\t\t\tcur := len(rb)\n\t\t\trb = rb[:cap(rb)]\n\t\t\tcopy(rb[cur:], rbTemp)\n\t\t\tcur += len(rbTemp)\n\t\t\trb = rb[:cur]\n", "R9.1"}
	add("C09", signedLess, noSort, staleCount, estimateCopy, prevYearDropped)

	scaleDrift := Mutant{"decoder-scale-constant-differs", "executor/rewritebuffer.go", "ticksPerIntervalDivSecsPerDay float64 = 49710.269629629629629629629629629", "ticksPerIntervalDivSecsPerDay float64 = 49710.27", "R10.1"}
	roundEnc := Mutant{"encoder-rounds", "utils/io/timeindex.go", "return uint32(ticksPerSecond * seconds)", "return uint32(math.Round(ticksPerSecond * seconds))", "R10.2"}
	dropSeconds := Mutant{"replica-drops-seconds", "replication/replay.go", "second, nanosecond := executor.GetTimeFromTicks(uint64(epoch.Unix()), intervalsPerDay, intervalTicks)\n\t\t// the record's Epoch is the second inside the interval, not the interval start\n\t\tbinary.LittleEndian.PutUint64(buf[cursor-EpochBytes:cursor], second)\n", "_, nanosecond := executor.GetTimeFromTicks(uint64(epoch.Unix()), intervalsPerDay, intervalTicks)\n\t\t_ = binary.LittleEndian\n", "R10.3"}
	add("C10", scaleDrift, dropSeconds, signedLess)
	_ = roundEnc

	fallThrough := Mutant{"end-loop-falls-through", "executor/scanner.go", "\t\tif t.Equal(dr.End) || t.Before(dr.End) {\n\t\t\treturn dest[:cursor+rowLength]\n\t\t}\n\t}\n\n\t// no record lies at or before the end of the range\n\treturn nil\n", "\t\tif t.Equal(dr.End) || t.Before(dr.End) {\n\t\t\tdest = dest[:cursor+rowLength]\n\t\t\tbreak\n\t\t}\n\t}\n\n\treturn dest\n", "R11.1"}
	noTrim := Mutant{"variable-results-not-trimmed", "executor/scanner.go", "\t\t\tbuffer = trimResultsToRange(r.pr.Range, rlen, buffer)\n\t\t\tbuffer = trimResultsToLimit(r.pr.Limit, rlen, buffer)\n", "\t\t\tbuffer = trimResultsToLimit(r.pr.Limit, rlen, buffer)\n", "R11.2"}
	limitFirst := Mutant{"limit-before-range", "executor/scanner.go", "\t\t\tbuffer = trimResultsToRange(r.pr.Range, rlen, buffer)\n\t\t\tbuffer = trimResultsToLimit(r.pr.Limit, rlen, buffer)\n", "\t\t\tbuffer = trimResultsToLimit(r.pr.Limit, rlen, buffer)\n\t\t\tbuffer = trimResultsToRange(r.pr.Range, rlen, buffer)\n", "R12.1"}
	add("C11", fallThrough, noTrim)
	noRefusal := Mutant{"unlimited-reverse-scan-not-refused", "executor/scanner.go", "\t\tif direction == utilsio.LAST {\n\t\t\treturn nil, fmt.Errorf(\"reverse scan only supported with a limited result set\")\n\t\t}\n", "\t\tif direction == utilsio.LAST {\n\t\t\tlog.Warn(\"reverse scan without a limit\")\n\t\t}\n", "R12.2"}
	add("C12", limitFirst, noRefusal)

	namesOnly := Mutant{"append-compares-names-only", "utils/io/numpy.go", "if typeStr, ok := typeMap[colSeriesShapes[idx].Type]; !ok || typeStr != nmds.ColumnTypes[idx] {", "if false {", "R13.1"}
	add("C13", namesOnly)
	add("C27", namesOnly,
		Mutant{"duplicate-wire-string", "utils/io/numpy.go", "\tUINT8:    \"u1\",", "\tUINT8:    \"i1\",", "R27.1"},
		Mutant{"decode-to-wrong-width", "utils/io/datatypes.go", "\tcase UINT16:\n\t\tif val, err := SwapSliceByte(data, uint16(0)); err == nil {\n\t\t\tif slc, ok := val.([]uint16); ok {", "\tcase UINT16:\n\t\tif val, err := SwapSliceByte(data, uint32(0)); err == nil {\n\t\t\tif slc, ok := val.([]uint32); ok {", "R27.2"},
		Mutant{"duplicate-kind", "utils/io/datatypes.go", "BOOL:     {reflect.Bool, \"bool\", 1, reflect.TypeOf(false)},", "BOOL:     {reflect.Int8, \"bool\", 1, reflect.TypeOf(false)},", "R27.3"})

	skipMissing := Mutant{"missing-columns-ignored", writer, "\t\tif missing != nil {\n\t\t\treturn fmt.Errorf(columnMismatchError, csDSV, dbDSV)\n\t\t}\n", "\t\t_ = missing\n", "R14.1"}
	coerceIgnored := Mutant{"coercion-error-only-logged", writer, "\t\t\t\tlog.Error(\"[%s] error coercing %s from %s to %s\", tbk.GetItemKey(), dbDS.Name, csType.String(), dbDS.Type.String())\n\t\t\t\treturn err2\n", "\t\t\t\tlog.Error(\"[%s] error coercing %s from %s to %s\", tbk.GetItemKey(), dbDS.Name, csType.String(), dbDS.Type.String())\n", "R14.1"}
	coerceCaseGone := Mutant{"coercion-case-removed", "utils/io/coercecolumn.go", "\tcase reflect.Uint16:\n\t\tnewCol := make([]uint16, columnValues.Len())\n\t\tfor i := 0; i < columnValues.Len(); i++ {\n\t\t\tnewCol[i] = uint16(toUint(columnValues.Index(i)))\n\t\t}\n\t\tcs.columns[columnName] = newCol\n", "", "R14.3"}
	add("C14", skipMissing, coerceIgnored, coerceCaseGone)

	hdrShift := Mutant{"header-field-widened", "utils/io/metadata.go", "\treservedHeader2Bytes   = 365\n", "\treservedHeader2Bytes   = 366\n", "R15.1"}
	noSchemaCheck := Mutant{"schema-limits-not-checked", "catalog/catalog.go", "\tif err = f.CheckHeaderLimits(); err != nil {\n\t\treturn fmt.Errorf(\"invalid schema for %s: %w\", tbk.GetItemKey(), err)\n\t}\n", "", "R15.3"}
	nulTerm := Mutant{"name-slot-minus-one", "utils/io/metadata.go", "\t\tcopy(hp.ElementNames[i][:], f.GetElementNames()[i])\n", "\t\tcopy(hp.ElementNames[i][:elementNameHeaderBytes-1], f.GetElementNames()[i])\n", "R15.5"}
	fieldNotRead := Mutant{"timeframe-not-loaded", "utils/io/metadata.go", "\tf.timeframe = time.Duration(hp.Timeframe)\n", "\tf.timeframe = time.Minute\n", "R15.2"}
	add("C15", hdrShift, noSchemaCheck, nulTerm, fieldNotRead)

	noKeyCheck := Mutant{"key-items-not-validated", "catalog/catalog.go", "\tif err = validateKeyItems(catkeySplit, datakeySplit); err != nil {\n\t\treturn err\n\t}\n", "\t_ = validateKeyItems\n", "R16.1"}
	dotdotAllowed := Mutant{"dotdot-not-rejected", "catalog/catalog.go", "if item == \"\" || item == \".\" || item == \"..\" || strings.ContainsAny(", "if item == \"\" || item == \".\" || strings.ContainsAny(", "R16.1"}
	removeByString := Mutant{"remove-path-built-from-key", "catalog/catalog.go", "\tif err := os.RemoveAll(td.pathToItemName); err != nil {", "\tif err := os.RemoveAll(filepath.Join(td.pathToItemName, td.itemName, \"..\")); err != nil {", "R16.2"}
	add("C16", noKeyCheck, dotdotAllowed, removeByString, foreignWriter2("R16.3"))

	addFileUnlocked := Mutant{"new-year-file-without-root-lock", "catalog/catalog.go", "func (d *Directory) GetSubDirectoryAndAddFile(fullFilePath string, year int16) (*io.TimeBucketInfo, error) {\n\td.Lock()\n\tdefer d.Unlock()\n", "func (d *Directory) GetSubDirectoryAndAddFile(fullFilePath string, year int16) (*io.TimeBucketInfo, error) {\n", "R17.2"}
	mapUnlocked := Mutant{"datafile-write-unlocked", "catalog/catalog.go", "\td.Lock()\n\td.datafile[newFileInfo.Path] = newFileInfo\n\td.Unlock()\n", "\td.datafile[newFileInfo.Path] = newFileInfo\n", "R17.1"}
	add("C17", addFileUnlocked, mapUnlocked)

	plainFlag := Mutant{"plain-read-of-writer-flag", wal, "\tif atomic.LoadUint32(&haveWALWriter) == 0 {\n\t\tif err := wf.FlushToWAL(); err != nil {", "\tif haveWALWriter == 0 {\n\t\tif err := wf.FlushToWAL(); err != nil {", "R18.1"}
	splitWrite := Mutant{"index-and-payload-written-separately", writer, "\tdata := buffer.IndexAndPayload()\n\t_, err := fp.WriteAt(data, offset)\n\treturn err\n", "\tdata := buffer.IndexAndPayload()\n\tif _, err := fp.WriteAt(data[:8], offset); err != nil {\n\t\treturn err\n\t}\n\t_, err := fp.WriteAt(data[8:], offset+8)\n\treturn err\n", "R18.5"}
	noOnce := Mutant{"lazy-load-without-once", "utils/io/metadata.go", "func (f *TimeBucketInfo) GetRecordLength() int32 {\n\tf.once.Do(f.initFromFile)\n", "func (f *TimeBucketInfo) GetRecordLength() int32 {\n\tf.initFromFile()\n", "R18.6"}
	add("C18", plainFlag, splitWrite, noOnce, flushFromWriter, mapUnlocked, addFileUnlocked)

	noGuard := Mutant{"scan-limit-unguarded", "sqlparser/selectrelation.go", "\t\tif !checkForPredicatesAndFunctions() {\n\t\t\tif sr.Limit != 0 {\n\t\t\t\tq.SetRowLimit(io.FIRST, sr.Limit)\n\t\t\t}\n\t\t}\n", "\t\t_ = checkForPredicatesAndFunctions\n\t\tif sr.Limit != 0 {\n\t\t\tq.SetRowLimit(io.FIRST, sr.Limit)\n\t\t}\n", "R19.3"}
	betweenSwapped := Mutant{"between-upper-uses-gt", "sqlparser/executablestatement.go", "\t\t\tes.nodeCursor.pendingSP.AddComparison(io.GTE, literal.Value)\n\t\t} else {\n\t\t\tes.nodeCursor.pendingSP.AddComparison(io.LT, literal.Value)", "\t\t\tes.nodeCursor.pendingSP.AddComparison(io.GTE, literal.Value)\n\t\t} else {\n\t\t\tes.nodeCursor.pendingSP.AddComparison(io.GT, literal.Value)", "R19.4"}
	caseGone := Mutant{"int32-filter-case-removed", "sqlparser/selectrelation.go", "\t\t\t\tcase []int32:", "\t\t\t\tcase []int8:", "R19.1"}
	add("C19", noGuard, betweenSwapped, caseGone)
	limitThenProject := Mutant{"limit-before-projection", "sqlparser/selectrelation.go", "\tif !sr.IsSelectAll && !skipProjection {\n\t\t// Column projection\n", "\tif sr.Limit != 0 {\n\t\t_ = outputColumnSeries.RestrictLength(sr.Limit, io.FIRST)\n\t}\n\tif !sr.IsSelectAll && !skipProjection {\n\t\t// Column projection\n", "R20.1"}
	insertNoErr := Mutant{"insert-ignores-write-error", "sqlparser/insertintostatement.go", "\tif err = executor.WriteCSM(csm, isVariableLength); err != nil {\n\t\treturn nil, err\n\t}\n", "\t_ = executor.WriteCSM(csm, isVariableLength)\n", "R20.3"}
	add("C20", limitThenProject, insertNoErr, noGuard)

	convGone := Mutant{"uint32-conversion-removed", "uda/uda.go", "\tcase []uint32:\n\t\toutCol = make([]float32, len(cc))\n\t\tfor i := range cc {\n\t\t\toutCol[i] = float32(cc[i])\n\t\t}\n", "", "R23.1"}
	// (removed) "new-returns-prototype": `mn := &m` in a value-receiver New still returns a fresh copy per call — the mutant did not change behaviour, so missing it was right
	_ = 0
	noEmptyGuard := Mutant{"empty-input-not-guarded", "uda/min/min.go", "\tif cols.Len() == 0 {\n\t\treturn m.Output(), nil\n\t}\n", "", "R23.3"}
	add("C23", convGone, noEmptyGuard)

	unionSwapped := Mutant{"stale-cache-wins", "contrib/ondiskagg/aggtrigger/aggtrigger.go", "cs = io.ColumnSeriesUnion(&c.cs, cs)", "cs = io.ColumnSeriesUnion(cs, &c.cs)", "R24.1"}
	add("C24", unionSwapped)

	firstType := Mutant{"first-set-record-type", "replication/replay.go", "err = r.writeFunc(csm, wtSet.RecordType == io.VARIABLE)", "err = r.writeFunc(csm, wtsets[0].RecordType == io.VARIABLE)", "R25.1"}
	sendBeforeSync := Mutant{"replicate-before-fsync", wal, "\t\tif err := wf.FilePtr.Sync(); err != nil { // Flush the OS buffer\n", "\t\tif wf.ReplicationSender != nil {\n\t\t\twf.ReplicationSender.Send(tgSerialized)\n\t\t}\n\t\tif err := wf.FilePtr.Sync(); err != nil { // Flush the OS buffer\n", "R25.3"}
	add("C25", firstType, dropSeconds, sendBeforeSync)

	hostOnly := Mutant{"stream-key-host-only", "replication/grpc_server.go", "\treturn pr.Addr.String(), nil\n", "\thost, _, _ := net.SplitHostPort(pr.Addr.String())\n\treturn host, nil\n", "R26.4"}
	add("C26", hostOnly)
	_ = hostOnly

	widthDrift := Mutant{"parser-reads-key-length-as-int32", wal, "\t\tFPLen := int(io.ToInt16(tgSerialized[cursor : cursor+fpLenLenBytes]))\n\t\tcursor += fpLenLenBytes\n", "\t\tFPLen := int(io.ToInt16(tgSerialized[cursor : cursor+fpLenLenBytes]))\n\t\tcursor += fpLenLenBytes + 2\n", "R28.1"}
	extraField := Mutant{"serializer-adds-field", wal, "\t\ttgSerialized, _ = io.Serialize(tgSerialized, int32(commands[i].VarRecLen))\n", "\t\ttgSerialized, _ = io.Serialize(tgSerialized, int32(commands[i].VarRecLen))\n\t\ttgSerialized, _ = io.Serialize(tgSerialized, int8(0))\n", "R28.1"}
	narrowed := Mutant{"data-length-narrowed-to-int16", wal, "tgSerialized, _ = io.Serialize(tgSerialized, int32(len(commands[i].Data)))", "tgSerialized, _ = io.Serialize(tgSerialized, int32(int16(len(commands[i].Data))))", "R28.2"}
	payloadOff := Mutant{"payload-accessor-shifted", "executor/wal/oib.go", "\treturn b[16:]\n", "\treturn b[12:]\n", "R28.4"}
	add("C28", widthDrift, extraField, narrowed, payloadOff)

	extractGone := Mutant{"uint64-extraction-removed", "utils/io/rowseries.go", "\t\t\tcase UINT64:\n\t\t\t\treturn getUInt64Column(offset, rows.GetRowLen(), rows.GetNumRows(), rows.GetData())\n", "", "R29.1"}
	wrongHelper := Mutant{"int16-extracted-as-int32", "utils/io/rowseries.go", "\t\t\tcase INT16:\n\t\t\t\treturn getInt16Column(", "\t\t\tcase INT16:\n\t\t\t\treturn getInt32Column(", "R29.1"}
	padTwice := Mutant{"padding-inside-column-loop", "utils/io/columnseries.go", "\t\t\tword := shape.Type.SliceInBytesAt(colInBytesList[j], i)\n\t\t\tdata = append(data, word...)\n", "\t\t\tword := shape.Type.SliceInBytesAt(colInBytesList[j], i)\n\t\t\tdata = append(data, word...)\n\t\t\tif align64 && j == 0 {\n\t\t\t\tdata = append(data, padbuf...)\n\t\t\t}\n", "R29.2"}
	add("C29", extractGone, wrongHelper, padTwice)

	utcOrigin := Mutant{"index-origin-in-utc", "utils/io/timeindex.go", "\t\t1, 0, 0, 0, 0,\n\t\tutils.InstanceConfig.Timezone)\n\tif tf == utils.Day {", "\t\t1, 0, 0, 0, 0,\n\t\ttime.UTC)\n\tif tf == utils.Day {", "R30.2"}
	add("C30", subdayZero, utcOrigin)

	condAppend := Mutant{"record-only-first-write", wal, "\t\tfor i, buffer := range writes {\n\t\t\twf.tpd.AppendRecord(keyPath, buffer.IndexAndPayload())\n", "\t\tfor i, buffer := range writes {\n\t\t\tif i == 0 {\n\t\t\t\twf.tpd.AppendRecord(keyPath, buffer.IndexAndPayload())\n\t\t\t}\n", "R32.1"}
	noReset := Mutant{"pending-map-not-reset", "executor/written.go", "\ttpd.m = nil // for GC\n", "", "R32.2"}
	fireAlways := Mutant{"fire-without-match", "executor/written.go", "\t\t\tif tmatcher.Match(wr.key) {\n\t\t\t\ttpd.triggerWg.Add(1)\n\t\t\t\tgo tpd.fire(tmatcher.Trigger, wr.key, wr.records)\n\t\t\t}\n", "\t\t\ttpd.triggerWg.Add(1)\n\t\t\tgo tpd.fire(tmatcher.Trigger, wr.key, wr.records)\n", "R32.3"}
	add("C32", condAppend, noReset, fireAlways)

	eofAny := Mutant{"any-error-is-eof", "cmd/connect/loader/utils.go", "\t\t\tif !errors.Is(err2, stdio.EOF) {\n\t\t\t\t// a malformed row must not be mistaken for the end of the file\n\t\t\t\treturn nil, false, fmt.Errorf(\"read csv row: %w\", err2)\n\t\t\t}\n", "\t\t\t_ = stdio.EOF\n", "R33.1"}
	nilnil := Mutant{"time-failure-returns-nil-nil", "cmd/connect/loader/utils.go", "\t\treturn nil, errors.New(\"failed to build the time columns from the csv data\")\n", "\t\treturn\n", "R33.2"}
	add("C33", eofAny, nilnil)

	delAnyway := Mutant{"delete-without-needs-replay-test", wal, "\tif needsReplay {\n\t\tlog.Warn(io.GetCallerFileContext(0) + \": WALFile needs replay, can not delete\")\n\t\treturn errors.New(\"WAL File needs replay, can not delete\")\n\t}\n", "\t_ = needsReplay\n", "R34.1"}
	ownNotSkipped := Mutant{"own-wal-not-skipped", walclean, "\t\tif fp == c.ignoreFile {\n\t\t\tcontinue\n\t\t}\n", "", "R34.3"}
	noReplayedStatus := Mutant{"replayed-status-not-written", walreplay, "\tif !dryRun {\n\t\tif err := wf.WriteStatus(wal.OPEN, wal.REPLAYED); err != nil {\n\t\t\treturn fmt.Errorf(\"failed to write REPLAYED status to wal: %w\", err)\n\t\t}\n\t}\n", "", "R34.4"}
	deleteOnFailure := Mutant{"delete-after-failed-replay", walclean, "\t\t\tcontinue\n\t\t}\n\n\t\t// delete if replay succeeds", "\t\t}\n\n\t\t// delete if replay succeeds", "R34.1"}
	add("C34", delAnyway, ownNotSkipped, noReplayedStatus, deleteOnFailure, rawToReplayErr, pruneOnPreparing, noReplayCheckpoint)

	noFinalCheckpoint := Mutant{"shutdown-without-checkpoint", wal, "\t\t\tlog.Info(\"Flushing to disk...\")\n\t\t\terr = wf.CreateCheckpoint()\n\t\t\tif err != nil {\n\t\t\t\tlog.Error(\"[shutdown] failed to createCheckpoint in WAL: \" + err.Error())\n\t\t\t}\n", "", "R35.1"}
	noWaitShutdown := Mutant{"shutdown-does-not-wait", wal, "\tatomic.StoreUint32(wf.shutdownPending, 1)\n\twf.walWaitGroup.Wait()\n", "\tatomic.StoreUint32(wf.shutdownPending, 1)\n", "R35.2"}
	exitEarly := Mutant{"exit-before-wal-shutdown", "cmd/start/main.go", "\t\t\t\tc.GetInitWALFile().Shutdown()\n\t\t\t\tshutdown()\n", "\t\t\t\tshutdown()\n", "R35.3"}
	add("C35", noFinalCheckpoint, noWaitShutdown, exitEarly, pruneOne)
}

func foreignWriter2(rule string) Mutant {
	return Mutant{"unlogged-writer", "frontend/write.go", "package frontend\n", "package frontend\n\nimport osx \"os\"\n\nfunc fastPathTouch(p string) { f, _ := osx.OpenFile(p, osx.O_RDWR, 0o600); _ = f }\n", rule}
}
