#!/bin/bash
# try_refactor.sh <dir-with-refactor_k.diff> — apply each behaviour-preserving patch to /repo on
# its own, evaluate EVERY property (bin/mscheck -all), undo. Any line printed is a false alarm.
D=$1
export GOFLAGS=-mod=mod GOPROXY=off GOSUMDB=off GOTOOLCHAIN=local; unset GOWORK
cd /repo || exit 2
for f in $D/refactor_*.diff; do
  echo "--- $(basename $f)"
  if git apply --check "$f" 2>/dev/null; then git apply "$f"
  elif patch -p1 --dry-run -F3 -s < "$f" >/dev/null 2>&1; then patch -p1 -F3 -s < "$f"; echo "(applied with fuzz)"
  else echo "does not apply"; continue; fi
  go build ./... 2>&1 | head -3
  /verif/bin/mscheck -all -verif /verif 2>&1 | grep -E "^ALL" | cut -c1-${W:-330}
  git checkout -q -- . && git clean -fdq -e '*.orig' && find . -name '*.orig' -delete
done
git status --short | head -3
