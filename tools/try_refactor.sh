#!/bin/bash
# try_refactor.sh <dir-with-refactor_k.diff>... — apply each behaviour-preserving patch to the source
# IN MEMORY (bin/mscheck -all -patch; /repo is not touched), evaluate EVERY property. Any "ALL C…"
# line printed is a false alarm. Patches are evaluated 6 at a time.
export GOFLAGS=-mod=mod GOPROXY=off GOSUMDB=off GOTOOLCHAIN=local; unset GOWORK
for D in "$@"; do
  ls $D/refactor_*.diff 2>/dev/null
done | xargs -P 6 -I{} sh -c 'o=$(/verif/bin/mscheck -all -patch {} -verif /verif 2>&1 | grep -E "^ALL" | cut -c1-${W:-330}); printf -- "--- %s\n%s\n" "$(basename $(dirname {}))/$(basename {})" "$o"'
