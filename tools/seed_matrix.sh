#!/bin/bash
# seed_matrix.sh <name>... — for each seed (seeded/<name>/patch.diff or /tmp/wt-<name>-out/patch.diff):
# apply to /repo, run every property once (mscheck -all), undo. Prints: seed, own property
# alarmed?, all alarmed properties, distinct rules that fired.
export GOFLAGS=-mod=mod GOPROXY=off GOSUMDB=off GOTOOLCHAIN=local; unset GOWORK
for n in "$@"; do
  P=/verif/seeded/$n/patch.diff; [ -f $P ] || P=/tmp/wt-$n-out/patch.diff
  [ -f /verif/seeded/$n/patch_rebased_on_fixes.diff ] && P=/verif/seeded/$n/patch_rebased_on_fixes.diff
  own=$(echo $n | grep -o '^C[0-9]*')
  cd /repo
  if git apply --check "$P" 2>/dev/null; then git apply "$P"
  elif patch -p1 --dry-run -F3 -s < "$P" >/dev/null 2>&1; then patch -p1 -F3 -s < "$P"
  else echo "$n: patch does not apply"; continue; fi
  out=$(/verif/bin/mscheck -all -verif /verif 2>&1)
  git checkout -q -- . && git clean -fdq -e '*.orig' && find . -name '*.orig' -delete
  props=$(echo "$out" | grep "^ALL summary" | sed 's/.*alarmed: //')
  rules=$(echo "$out" | grep -E "^ALL C" | awk '{print $4}' | sort -u | tr -d ':' | tr '\n' ' ')
  hit=MISS; echo ",$props," | grep -q ",$own," && hit=OWN; [ $hit = MISS ] && [ -n "$props" ] && hit=OTHER
  printf "%-6s %-5s props=[%s] rules=[%s]\n" $n $hit "$props" "$rules"
done
