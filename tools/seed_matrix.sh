#!/bin/bash
# seed_matrix.sh <name>... — for each seed (seeded/<name>/patch[_rebased_on_fixes].diff or
# /tmp/wt-<name>-out/patch.diff): apply IN MEMORY, run every property once (mscheck -all -patch).
# Prints: seed, whether its own property alarmed, all alarmed properties, the rules that fired.
export GOFLAGS=-mod=mod GOPROXY=off GOSUMDB=off GOTOOLCHAIN=local; unset GOWORK
one() {
  n=$1
  P=/verif/seeded/$n/patch.diff; [ -f $P ] || P=/tmp/wt-$n-out/patch.diff
  [ -f /verif/seeded/$n/patch_rebased_on_fixes.diff ] && P=/verif/seeded/$n/patch_rebased_on_fixes.diff
  own=$(echo $n | grep -o '^C[0-9]*')
  out=$(/verif/bin/mscheck -all -patch $P -verif /verif 2>&1)
  if echo "$out" | grep -q "patch not applicable"; then printf "%-6s N/A   %s\n" $n "$(echo "$out" | grep 'not applicable' | cut -c1-120)"; return; fi
  props=$(echo "$out" | grep "^ALL summary" | sed 's/.*alarmed: //')
  rules=$(echo "$out" | grep -E "^ALL C" | awk '{print $4}' | sort -u | tr -d ':' | tr '\n' ' ')
  hit=MISS; echo ",$props," | grep -q ",$own," && hit=OWN; [ $hit = MISS ] && [ -n "$props" ] && hit=OTHER
  printf "%-6s %-5s props=[%s] rules=[%s]\n" $n $hit "$props" "$rules"
}
export -f one
printf "%s\n" "$@" | xargs -P 6 -I{} bash -c 'one {}' | sort
