#!/bin/bash
# runall.sh [tier] [props...] — terse summary of all (or the given) checks
T=${1:-quick}; shift
P=${@:-$(cd /verif && bin/mscheck -list | grep -o '^C[0-9]*')}
for p in $P; do /verif/bin/mscheck -prop $p -tier $T 2>&1 | grep -E "^  (VIOLATED|UNDECIDED)|SELFTEST-MISS|tier=" | cut -c1-${W:-170}; done
