#!/usr/bin/env python3
"""Generates /verif/MANIFEST.json from the table below (kept in one place so that the
manifest, the not_applicable list and the registry of the checker stay in step)."""
import json, subprocess, sys, os
V = os.path.dirname(os.path.dirname(os.path.abspath(__file__)))
props = [json.loads(l) for l in open(os.path.join(V, 'properties.jsonl'))]
ids = [p['id'] for p in props]

# id -> (level text, level note, technique)
claims = json.load(open(os.path.join(V, 'tools', 'claims.json')))
na = json.load(open(os.path.join(V, 'tools', 'not_applicable.json')))

checks = []
for i in ids:
    if i in claims:
        c = claims[i]
        checks.append({
            "property_id": i,
            "quick_cmd": f"bin/mscheck -prop {i} -tier quick",
            "thorough_cmd": f"bin/mscheck -prop {i} -tier thorough",
            "evidence_file": f"/verif/evidence/{i}.json",
            "replay_cmd_template": f"bin/mscheck -prop {i} -tier quick -replay {{path}}",
            "engine": "mscheck",
            "level_claimed": {"category": "other", "text": c["text"], "design_ref": c.get("design_ref", "DESIGN.md §4 " + i)},
            "level_note": c["note"],
            "technique": c["technique"],
        })
nas = []
for i in ids:
    if i not in claims:
        nas.append({"property_id": i, "reason": na.get(i, "not yet built: static rules for this property are planned in DESIGN.md §4 but no check is registered yet")})
m = {
    "version": 1,
    "setup_cmd": "cd /verif/checker && GOFLAGS=-mod=vendor GOPROXY=off GOSUMDB=off GOTOOLCHAIN=local GOWORK=off go build -o /verif/bin/mscheck .",
    "hooks": {"guard": "verif", "enable": "none needed: the checker reads source only; no hooks were added to /repo",
              "baseline_off_cmd": "cd /repo && GOFLAGS=-mod=mod GOPROXY=off go test -vet=off -count=1 ./...",
              "source_commits": [], "add_only": True},
    "engines": [{"name": "mscheck", "path": "/verif/checker", "serves_properties": [c["property_id"] for c in checks],
                 "kind_free_text": "repository-specific static analyser (go/packages + go/types + go/cfg path queries + whole-module call graph); reads /repo's working tree on every run, executes nothing"}],
    "checks": checks,
    "not_applicable": nas,
    "notes": "All claims are level 'other': each check decides structural necessary conditions of its property on every path / call site / table entry of the current source (see DESIGN.md §4 per property for what is and is not covered). Genuine defects found are either repaired by fix: commits in /repo or listed in known_findings.json.",
}
json.dump(m, open(os.path.join(V, 'MANIFEST.json'), 'w'), indent=1)
print("checks:", len(checks), "not_applicable:", len(nas))
