#!/usr/bin/env python3
"""Generates /verif/MANIFEST.json. The set of claimed properties and their level text come
from the checker's own registry (bin/mscheck -dump), so manifest and checker cannot drift;
tools/claims.json adds the technique / trusted-base wording per property and
tools/not_applicable.json the reasons for the properties static analysis cannot decide."""
import json, subprocess, os, sys
V = os.path.dirname(os.path.dirname(os.path.abspath(__file__)))
props = [json.loads(l) for l in open(os.path.join(V, 'properties.jsonl'))]
ids = [p['id'] for p in props]
reg = json.loads(subprocess.check_output([os.path.join(V, 'bin', 'mscheck'), '-dump']))
claims = json.load(open(os.path.join(V, 'tools', 'claims.json')))
na = json.load(open(os.path.join(V, 'tools', 'not_applicable.json')))
DEFAULT_NOTE = ("Trusted: go/types + go/packages + go/cfg (x/tools v0.29.0), the frozen anchor/gate/exception tables in checker/props_*.go "
                "(an unresolved anchor or an instance count below the hand-confirmed floor FAILS the check), known_findings.json. "
                "Decides structural necessary conditions only — all of them holding does not prove the behaviour.")
DEFAULT_TECH = "static analysis: repository-specific rules over type-checked syntax (go/types), go/cfg path queries and a whole-module call graph"
checks = []
for i in ids:
    if i in reg and i not in na:
        r = reg[i]
        c = claims.get(i, {})
        rules = ", ".join(x["id"] for x in r["rules"])
        text = r["explanation"] + " Not covered: " + r["not_covered"]
        checks.append({
            "property_id": i,
            "quick_cmd": f"bin/mscheck -prop {i} -tier quick",
            "thorough_cmd": f"bin/mscheck -prop {i} -tier thorough",
            "evidence_file": f"/verif/evidence/{i}.json",
            "replay_cmd_template": f"bin/mscheck -prop {i} -replay {{path}}",
            "engine": "mscheck",
            "level_claimed": {"category": "other", "text": text, "design_ref": "DESIGN.md §4 " + i + " (rules " + rules + ")"},
            "level_note": c.get("note", DEFAULT_NOTE),
            "technique": c.get("technique", DEFAULT_TECH),
        })
nas = []
for i in ids:
    if not any(c["property_id"] == i for c in checks):
        nas.append({"property_id": i, "reason": na.get(i, "not yet built: static rules for this property are planned in DESIGN.md §4 but no check is registered yet")})
m = {
    "version": 1,
    "setup_cmd": "cd /verif/checker && GOFLAGS=-mod=vendor GOPROXY=off GOSUMDB=off GOTOOLCHAIN=local GOWORK=off go build -o /verif/bin/mscheck .",
    "hooks": {"guard": "verif", "enable": "none needed: the checker reads source only; no hooks were added to /repo",
              "baseline_off_cmd": "cd /repo && GOFLAGS=-mod=mod GOPROXY=off go test -vet=off -count=1 ./...",
              "source_commits": [], "add_only": True},
    "engines": [{"name": "mscheck", "path": "/verif/checker", "serves_properties": [c["property_id"] for c in checks],
                 "kind_free_text": "repository-specific static analyser (go/packages + go/types + go/cfg path queries + whole-module call graph); reads /repo's working tree on every run, executes nothing from it"}],
    "checks": checks,
    "not_applicable": nas,
    "notes": "All claims are level 'other': each check decides structural necessary conditions of its property on every path / call site / table entry of the current source (DESIGN.md §4 says per property what is and is not covered). Genuine defects found are either repaired by fix: commits in /repo or listed in known_findings.json. thorough = the same rules under two build configurations (default, with test files) plus the overlay-mutant self-test of the checker.",
}
json.dump(m, open(os.path.join(V, 'MANIFEST.json'), 'w'), indent=1, ensure_ascii=False)
print("checks:", len(checks), "not_applicable:", len(nas))
