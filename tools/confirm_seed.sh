#!/bin/bash
# confirm_seed.sh <ID> [<wt-suffix>] — confirm a sub-agent's seeded change in its scratch worktree
# (/tmp/wt-<ID>), store it as /verif/seeded/<name>/, run the checks of property ID against it
# (patch applied to /repo, then undone), and remove the worktree.
#   1. patch applies to a clean tree and the repo builds
#   2. demo FAILS with the patch
#   3. demo PASSES without the patch
#   4. the touched packages' existing tests pass with the patch (demo file removed)
set -u
export GOFLAGS=-mod=mod GOPROXY=off GOSUMDB=off GOTOOLCHAIN=local; unset GOWORK
ID=$1; NAME=${2:-$ID}
WT=/tmp/wt-$NAME; OUT=/tmp/wt-$NAME-out
[ -d "$WT" ] && [ -f "$OUT/patch.diff" ] || { echo "missing $WT or $OUT/patch.diff"; exit 2; }
cd "$WT" || exit 2
LOG=/tmp/confirm-$NAME.log; : > $LOG
# demo files = untracked files in the worktree
git checkout -q -- . ; git clean -fdq
DEMOS=$(python3 - "$OUT" <<'EOF'
import sys,os,re,json
out=sys.argv[1]
t=open(os.path.join(out,'demo_path.txt')).read()
# find "<file> -> <path>" style or any repo-relative path ending in _test.go / .go
paths=re.findall(r'([A-Za-z0-9_./-]+/zz_[A-Za-z0-9_]+\.go|[A-Za-z0-9_./-]+_test\.go)', t)
seen=[]
for p in paths:
    p=p.lstrip('./')
    if p.startswith('tmp/'): continue
    if p not in seen and '/' in p: seen.append(p)
print(' '.join(seen))
EOF
)
D2=""; for d in $DEMOS; do [ -f "$OUT/$(basename $d)" ] && D2="$D2 $d"; done; DEMOS=$D2
echo "demo targets: $DEMOS" | tee -a $LOG
for d in $DEMOS; do b=$(basename $d); [ -f "$OUT/$b" ] && { mkdir -p $(dirname $d); cp "$OUT/$b" "$d"; } ; done
CMD=$(python3 -c "import json;print(json.load(open('$OUT/meta.json')).get('demo_cmd',''))")
CMD=$(echo "$CMD" | sed -e "s#cd /tmp/wt-$NAME *&& *##" -e 's#^export [^;]*; *##' -e 's#unset GOWORK; *##')
echo "demo cmd: $CMD" | tee -a $LOG
# 3. without the patch
( eval "$CMD" ) >> $LOG 2>&1; RC_CLEAN=$?
# 1. apply
git apply --check "$OUT/patch.diff" || { echo "PATCH DOES NOT APPLY"; exit 1; }
git apply "$OUT/patch.diff"
go build ./... >> $LOG 2>&1 || { echo "BUILD FAILS WITH PATCH"; exit 1; }
# 2. with the patch
( eval "$CMD" ) >> $LOG 2>&1; RC_PATCH=$?
echo "demo exit without patch=$RC_CLEAN (want 0), with patch=$RC_PATCH (want !=0)" | tee -a $LOG
# 4. suite of touched packages (+ executor/frontend importers when small)
for d in $DEMOS; do rm -f "$d"; done
PKGS=$(git diff --name-only | xargs -n1 dirname | sort -u | sed 's#^#./#' | tr '\n' ' ')
echo "suite packages: $PKGS" | tee -a $LOG
go vet ./... > /dev/null 2>&1
go test -vet=off -count=1 $PKGS >> $LOG 2>&1; RC_SUITE=$?
go test -vet=off -count=1 -run '^$' ./... >> $LOG 2>&1; RC_COMPILE=$?
echo "suite exit=$RC_SUITE compile-all-tests exit=$RC_COMPILE" | tee -a $LOG
if [ $RC_CLEAN -eq 0 ] && [ $RC_PATCH -ne 0 ] && [ $RC_SUITE -eq 0 ] && [ $RC_COMPILE -eq 0 ]; then
  echo "CONFIRMED $NAME"
  mkdir -p /verif/seeded/$NAME
  cp "$OUT/patch.diff" /verif/seeded/$NAME/
  for d in $DEMOS; do b=$(basename $d); cp "$OUT/$b" /verif/seeded/$NAME/$b.txt; done
  cp "$OUT/demo_path.txt" /verif/seeded/$NAME/
  python3 - "$OUT" "$NAME" "$ID" "$PKGS" "$CMD" <<'EOF'
import json,sys
out,name,pid,pkgs,cmd=sys.argv[1:6]
m=json.load(open(out+'/meta.json'))
m2={"property":pid,"summary":m.get("summary"),"needs_to_manifest":m.get("needs_to_manifest"),"files_changed":m.get("files_changed"),
    "demo_cmd":cmd,"confirmed_by_me":{"demo_without_patch":"pass","demo_with_patch":"fail","suite_packages_with_patch":pkgs.split(),"suite":"pass","all_test_binaries_compile":True,
    "how":"tools/confirm_seed.sh in the sub-agent's scratch worktree (clean checkout, demo copied in, patch applied with git apply)"},
    "origin":"independent sub-agent given only the property text and a scratch worktree"}
json.dump(m2,open('/verif/seeded/%s/meta.json'%name,'w'),indent=1)
EOF
  exit 0
else
  echo "NOT CONFIRMED $NAME (see $LOG)"; exit 1
fi
