#!/bin/bash
# try_seed.sh <patch> <prop>... — apply a seeded patch to /repo, run the quick checks, undo.
P=$1; shift
cd /repo && git apply --check "$P" || { echo "patch does not apply to /repo"; exit 2; }
git apply "$P"
cd /verif
for p in "$@"; do bin/mscheck -prop $p -verif /tmp/tryseed_out 2>&1 | grep -E "VIOLAT|UNDECIDED|tier=" | cut -c1-400; done
cd /repo && git checkout -- . && git status --short | head -3
