#!/bin/bash
# try_seed.sh <patch> <prop>... — apply a seeded patch to /repo (git apply, falling back to
# patch(1) with fuzz when fix commits moved the context), run the quick checks, undo.
P=$1; shift
cd /repo || exit 2
if git apply --check "$P" 2>/dev/null; then
  git apply "$P"
elif patch -p1 --dry-run -F3 -s < "$P" >/dev/null 2>&1; then
  patch -p1 -F3 -s < "$P"; echo "(applied with fuzz)"
else
  echo "patch does not apply to /repo"; exit 2
fi
export GOFLAGS=-mod=mod GOPROXY=off GOSUMDB=off GOTOOLCHAIN=local; unset GOWORK
go build ./... 2>&1 | head -3
mkdir -p /tmp/tryseed_out; cp /verif/known_findings.json /tmp/tryseed_out/
cd /verif
bin/mscheck -all -verif /tmp/tryseed_out 2>&1 | grep "^ALL summary" | cut -c1-200
for p in "$@"; do bin/mscheck -prop $p -verif /tmp/tryseed_out 2>&1 | grep -E "^  (VIOLATED|UNDECIDED)|tier=" | cut -c1-${W:-300}; done
cd /repo && git checkout -- . && git clean -fdq -e '*.orig' && find . -name '*.orig' -delete && git status --short | head -3
