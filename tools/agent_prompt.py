#!/usr/bin/env python3
"""agent_prompt.py <PID> <NAME> [break|refactor] — print the prompt handed to a fresh sub-agent.

break    : a change that BREAKS property PID (compiles, suite passes, demo fails with / passes without)
refactor : a behaviour-PRESERVING change in the code the property depends on (used to test that the
           checks stay silent on code where the property holds)

The agent gets the property text and its own scratch worktree /tmp/wt-<NAME>; nothing from /verif.
For `break`, the one-line summaries of earlier seeds of the same property are passed along as
"already taken" so that a new seed differs in kind and place (they describe earlier *changes*, not
what the checks look at).
"""
import json, sys, os, glob

pid, name = sys.argv[1], sys.argv[2]
mode = sys.argv[3] if len(sys.argv) > 3 else "break"
for l in open('/verif/properties.jsonl'):
    p = json.loads(l)
    if p['id'] == pid:
        break
else:
    sys.exit("no such property")

taken = []
for d in sorted(glob.glob('/verif/seeded/%s*' % pid)):
    try:
        taken.append(json.load(open(d + '/meta.json')).get('summary', '')[:350])
    except Exception:
        pass

head = f"""You are helping test a verification effort on the open-source Go project alpacahq/marketstore (a time-series database server with a WAL, custom on-disk format, SQL layer and replication).

You have your OWN scratch git worktree of the repository at /tmp/wt-{name} (detached HEAD). Work ONLY inside that directory (and, if you need scratch space, under /tmp/wt-{name}-scratch). Do NOT read or touch /verif or /repo or any other /tmp/wt-* directory. NEVER use `git stash` (the stash is shared between worktrees); to undo use `git apply -R <patch>` or `git checkout -- <files>`.

Here is a semantic property of marketstore that is supposed to hold:

  id: {p['id']}
  title: {p['title']}
  statement: {p['statement']}
  quantifier: {p['quantifier']['text']}
  why the existing tests cannot settle it: {p['why_tests_cant']}
"""

env = f"""
Environment (no network): every shell command must start with
  export GOFLAGS=-mod=mod GOPROXY=off GOSUMDB=off GOTOOLCHAIN=local; unset GOWORK
Go is 1.23. Use `go test -vet=off -count=1`. Tests that need a data directory should use t.TempDir(). Look at existing tests (e.g. executor/*_test.go, utils/test) for how to set up a catalog/WAL instance (`executor.NewInstanceSetup` with options such as `executor.BackgroundSync(false)`, `executor.WALBypass(false)` exists).
"""

if mode == "break":
    t = ""
    if taken:
        t = "\nEarlier testers already produced the following changes for this property; yours must differ from them in kind AND in place (a different function / mechanism / clause of the property):\n" + "".join("  - " + s.replace("\n", " ") + "\n" for s in taken)
    print(head + f"""
YOUR TASK: produce ONE realistic change (a plausible refactoring slip, optimisation, or "simplification" that a developer could make) to the marketstore source in your worktree that BREAKS this property, while:
  1. the whole repository still compiles (`go build ./...` and `go test -vet=off -run '^$' ./...` compile all test binaries), and
  2. the existing test suite still passes (at least all tests of every package you touched and of packages that import them; run `go test -vet=off -count=1 ./executor/... ./catalog/... ./frontend/... ./utils/... ./replication/... ./sqlparser/... ./internal/... ./cmd/... ./contrib/ondiskagg/... ./plugins/... ./uda/... ./planner/...` before you finish), and
  3. you provide a DEMONSTRATION — a new Go test file (or small program) that FAILS with your change applied and PASSES on the unmodified source. The demonstration must exercise real marketstore code (no mocks of the code under test).

The change should need something SPECIFIC to manifest — a particular interleaving, a crash or fault at a particular point, a multi-step sequence of operations, an unusual input, or two cooperating sites that each look fine alone — NOT something ordinary use or the existing tests would expose at once. Prefer a subtle change to production code (not tests), small (a few lines to a few dozen), in the files that implement the mechanism the property depends on. Do not simply delete a whole feature. Do not change public function names or signatures if you can avoid it.
{t}{env}
Deliverables, all placed in /tmp/wt-{name}-out/ (create it):
  - patch.diff : `git diff` of your production-code change only (without the demonstration test), relative to the worktree root, applicable with `git apply`.
  - the demonstration file(s), plus a file demo_path.txt saying where in the repo tree each must be copied to (e.g. `executor/zz_seed_{name}_test.go`) and the exact command to run it.
  - meta.json : {{"property": "{pid}", "summary": "...what the change does...", "needs_to_manifest": "...", "files_changed": [...], "demo_cmd": "...", "demo_fails_with_patch": true, "demo_passes_without_patch": true, "suite_packages_run": [...], "suite_passed": true}}
    (demo_cmd must be runnable from the worktree root, e.g. `go test -vet=off -count=1 -run TestSeed{name} ./executor/`)
Verify all three requirements yourself before finishing (apply/unapply with `git apply -R`), and leave the worktree with the patch applied and the demo file present. In your final answer, summarise the change, where it is, and what you verified.""")
else:
    print(head + f"""
YOUR TASK: this time the property must KEEP holding. Produce a set of 3 to 5 realistic, behaviour-PRESERVING source changes — the kind of refactoring a maintainer does without changing what the program does — in the production code that IMPLEMENTS the mechanism this property depends on (find that code yourself; the anchors are: {json.dumps(p.get('anchors'))[:600]}). Make them independent patches. Use a DIFFERENT kind of refactoring for each, e.g.:
  - extract part of a function into a new helper function (or inline a small helper),
  - rename local variables / parameters / an unexported helper,
  - reorder statements that are independent of each other, invert an if/else, replace an if-chain by a switch (or vice versa), turn early returns into a single exit or the reverse,
  - change how an error is wrapped or logged without changing whether it is returned,
  - replace a loop form (`for i := range` vs indexed), introduce a named constant, split a long function in two,
  - move a function to another file of the same package.
Every patch must leave observable behaviour exactly as it is on EVERY input, schedule and crash point (same calls in the same order on the same values, same durability points, same locking, same results), must compile (`go build ./...`, `go test -vet=off -run '^$' ./...`), and the tests of the touched packages must pass. Do not touch test files. Do not make cosmetic-only changes (comments/whitespace); each patch should change the shape of real code in the property's mechanism.
{env}
Deliverables in /tmp/wt-{name}-out/ (create it): refactor_1.diff … refactor_N.diff (each a `git diff` against the ORIGINAL tree, applying on its own with `git apply`), and notes.json: a list of {{"file": "refactor_k.diff", "what": "...", "why_behaviour_is_unchanged": "..."}}. Verify each patch alone (apply, build, run the touched packages' tests, `git apply -R`). Leave the worktree clean at the end. In your final answer list the patches.""")
